#!/bin/sh
# run tensorly's own suite (unedited); test_indian_pines fails at baseline (emptied data file)
cd /repo && timeout 1500 /venv/bin/python -W ignore -m pytest -q -p no:cacheprovider -p no:randomly -n 12 2>&1 | grep -E "^(FAILED|ERROR)|passed|failed" | tail -15
