#!/venv/bin/python
"""Confirm a seeded change and run the checks against it.

usage: tools/eval_seeded.py <dir with patch.diff, demo.py, meta.json> [--tests] [--all-checks]

1. fresh scratch worktree of /repo HEAD under /tmp, `git apply patch.diff`;
2. demo.py must FAIL with the patch and PASS without it;
3. (--tests) tensorly's own suite must still pass with the patch (known baseline failures
   test_indian_pines / flaky test_svd_time excepted);
4. the patch is applied to /repo itself, the checks run, and /repo is restored straight away
   (`git -C /repo checkout -- .`);
5. the scratch worktree is removed.
Prints a JSON record.
"""
import json
import os
import shutil
import subprocess
import sys

REPO = "/repo"
VERIF = os.path.dirname(os.path.dirname(os.path.abspath(__file__)))
PY = "/venv/bin/python"
ALL = ["C01", "C02", "C03", "C04", "C05", "C06", "C07", "C08", "C09", "C10", "C11", "C12", "C13", "C14", "C15", "C16", "C17", "C18", "C19", "C20"]
IGNORED = ("test_indian_pines", "test_svd_time")


def sh(cmd, cwd=None, timeout=3600):
    p = subprocess.run(cmd, shell=True, cwd=cwd, capture_output=True, text=True, timeout=timeout)
    return p.returncode, p.stdout + p.stderr


def main():
    d = os.path.abspath(sys.argv[1])
    do_tests = "--tests" in sys.argv
    all_checks = "--all-checks" in sys.argv
    meta = json.load(open(os.path.join(d, "meta.json")))
    prop = meta["property"]
    name = os.path.basename(d.rstrip("/"))
    wt = f"/tmp/evalwt_{name}_{os.getpid()}"
    rec = {"dir": d, "property": prop}
    rc, out = sh(f"git -C {REPO} status --porcelain")
    if out.strip():
        print("refusing: /repo has uncommitted changes:\n" + out)
        return 2
    sh(f"git -C {REPO} worktree add -q --detach {wt} HEAD")
    try:
        rc, out = sh(f"git apply {d}/patch.diff", cwd=wt)
        rec["patch_applies"] = rc == 0
        if rc != 0:
            rec["error"] = out[-400:]
            print(json.dumps(rec, indent=1))
            return 1
        shutil.copy(os.path.join(d, "demo.py"), os.path.join(wt, "_seed_demo.py"))
        rc1, out1 = sh(f"{PY} -W ignore _seed_demo.py", cwd=wt, timeout=1200)
        rec["demo_with_patch_exit"] = rc1
        rec["demo_with_patch_tail"] = out1.strip().splitlines()[-3:]
        sh(f"git apply -R {d}/patch.diff", cwd=wt)
        rc0, out0 = sh(f"{PY} -W ignore _seed_demo.py", cwd=wt, timeout=1200)
        rec["demo_without_patch_exit"] = rc0
        sh(f"git apply {d}/patch.diff", cwd=wt)
        rec["demo_ok"] = rc1 != 0 and rc0 == 0
        if do_tests:
            rc, out = sh(f"{PY} -W ignore -m pytest -q -p no:cacheprovider -p no:randomly -n 6 tensorly 2>&1 | grep -E '^(FAILED|ERROR)|passed|failed' | tail -8", cwd=wt, timeout=3000)
            fails = [l for l in out.splitlines() if l.startswith(("FAILED", "ERROR")) and not any(i in l for i in IGNORED)]
            rec["tests_tail"] = out.strip().splitlines()[-1:] if out.strip() else []
            rec["tests_unexpected_failures"] = fails
            rec["tests_ok"] = not fails and "passed" in out
    finally:
        sh(f"git -C {REPO} worktree remove --force {wt}")
        shutil.rmtree(wt, ignore_errors=True)
    # run the checks against /repo with the patch applied
    rc, out = sh(f"git -C {REPO} apply {d}/patch.diff")
    if rc != 0:
        rec["repo_apply_error"] = out[-300:]
        print(json.dumps(rec, indent=1))
        return 1
    try:
        checks = ALL if all_checks else [prop]
        rec["checks"] = {}
        for c in checks:
            rc, out = sh(f"./check {c} --tier quick", cwd=VERIF, timeout=1200)
            viol = [l for l in out.splitlines() if "[" in l and "]" in l and not l.startswith(("VIOLATION", "KNOWN", " ", "C"))][:3]
            rec["checks"][c] = {"exit": rc, "first_reports": [v[:260] for v in viol]}
    finally:
        sh(f"git -C {REPO} checkout -- .")
    rc, out = sh(f"git -C {REPO} status --porcelain")
    rec["repo_clean_after"] = not out.strip()
    rec["caught_by"] = [c for c, r in rec["checks"].items() if r["exit"] == 1]
    print(json.dumps(rec, indent=1))
    return 0


if __name__ == "__main__":
    sys.exit(main())
