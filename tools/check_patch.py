#!/venv/bin/python
"""Run checks against a patch WITHOUT touching /repo: the patch is applied in a scratch
worktree, the changed files are read back and handed to the analyser as an overlay.

usage: tools/check_patch.py <patch.diff> [PROP ...]      (default: all properties)
"""
import os
import shutil
import subprocess
import sys

VERIF = os.path.dirname(os.path.dirname(os.path.abspath(__file__)))
sys.path.insert(0, VERIF)


def overlay_of(patch):
    wt = f"/tmp/ovwt_{os.getpid()}"
    subprocess.run(f"git -C /repo worktree add -q --detach {wt} HEAD", shell=True, check=True)
    try:
        r = subprocess.run(f"git apply {os.path.abspath(patch)}", shell=True, cwd=wt, capture_output=True, text=True)
        if r.returncode != 0:
            raise SystemExit("patch does not apply: " + r.stderr[-300:])
        files = subprocess.run("git diff --name-only", shell=True, cwd=wt, capture_output=True, text=True).stdout.split()
        files += subprocess.run("git ls-files --others --exclude-standard", shell=True, cwd=wt, capture_output=True, text=True).stdout.split()
        return {f: open(os.path.join(wt, f)).read() for f in files if f.endswith(".py")}
    finally:
        subprocess.run(f"git -C /repo worktree remove --force {wt}", shell=True)
        shutil.rmtree(wt, ignore_errors=True)


def main():
    from tlsa.__main__ import RULESETS, run_property

    patch = sys.argv[1]
    props = sys.argv[2:] or sorted(RULESETS)
    ov = overlay_of(patch)
    worst = 0
    for p in props:
        code, res = run_property(p, "quick", 0, overlay=ov, write=False, quiet=True)
        from tlsa.report import load_known

        known = {k["key"] for k in load_known().get("known", []) if k.get("property") == p}
        new = [f for f in res.findings if f.key not in known]
        if code != 0:
            worst = max(worst, code)
            print(f"{p}: exit {code}")
            for f in new[:6]:
                print(f"   [{f.rule}] {f.message[:260]}")
            for e in res.errors[:4]:
                print(f"   ANALYSIS-ERROR {e[:260]}")
    print("worst exit:", worst)


if __name__ == "__main__":
    main()
