#!/venv/bin/python
"""Run one property's quick check on /repo as it stands WITHOUT writing evidence; print new reports.
usage: tools/one_check.py CXX   (exit code = the check's)"""
import os
import sys

sys.path.insert(0, os.path.dirname(os.path.dirname(os.path.abspath(__file__))))
from tlsa.__main__ import run_property  # noqa: E402
from tlsa.report import load_known  # noqa: E402

p = sys.argv[1]
code, res = run_property(p, "quick", 0, write=False, quiet=True)
known = {k["key"] for k in load_known().get("known", []) if k.get("property") == p}
for f in res.findings:
    if f.key not in known:
        print("REPORT [%s] %s" % (f.rule, f.message[:300]))
for e in res.errors:
    print("ANALYSIS-ERROR", e[:300])
sys.exit(code)
