#!/venv/bin/python
"""Run every hand-written self-test variant (TEXTUAL mutants must be reported, TEXTUAL_TWINS
must stay silent) against the current /repo tree and list the unexpected outcomes.

usage: tools/run_handwritten.py [PROP ...]
"""
import os
import sys

sys.path.insert(0, os.path.dirname(os.path.dirname(os.path.abspath(__file__))))
from tlsa import selftest  # noqa: E402


def main():
    props = set(sys.argv[1:])
    vs = selftest.gen_textual() + selftest.gen_textual_twins() + selftest.gen_patch_variants()
    if props:
        vs = [v for v in vs if v.prop in props]
    stale = [v for v in vs if v.kind == "stale"]
    res = selftest.run_variants(vs)
    bad = 0
    for v in vs:
        if v.kind == "stale":
            continue
        r = res[v.vid]
        want = 0 if (v.kind == "twin" or v.note.startswith("recorded miss")) else 1
        if v.note.startswith("recorded miss") and r["code"] == 2:
            continue  # "cannot decide" on a recorded miss: not a VIOLATION, not silent either (round9 C01a, C08b)
        if r["code"] != want:
            bad += 1
            print(f"UNEXPECTED {v.prop} {v.vid} kind={v.kind} exit={r['code']} {r['samples'][:1]} {r['errors'][:1]}")
    print(f"variants={len(vs)} stale={len(stale)} unexpected={bad}")
    for v in stale:
        print("STALE", v.prop, v.vid)
    return 1 if bad or stale else 0


if __name__ == "__main__":
    sys.exit(main())
