#!/venv/bin/python
"""Evaluate a whole seeded round in two phases.

usage: tools/eval_round.py confirm <round dir> [-j N]   # phase 1, parallel, never touches /repo
       tools/eval_round.py checks  <round dir>          # phase 2, serial over patches, 20 checks in parallel

confirm: for every <round dir>/<name>/ holding patch.diff + demo.py + meta.json, in a fresh
   scratch worktree of /repo HEAD: the patch applies, demo.py exits non-zero with it and 0
   without it, tensorly's own suite still passes with it (baseline failure test_indian_pines and
   the flaky test_svd_time excepted).  The record goes into meta.json["confirmed_here"].  The
   worktree is removed straight afterwards.
checks: the patch is applied to /repo itself, every property's quick check runs, /repo is
   restored (`git -C /repo checkout -- .`).  The record goes into meta.json["checks_first_try"]
   (first time) or meta.json["checks_now"].
"""
import concurrent.futures as cf
import json
import os
import shutil
import subprocess
import sys

REPO = "/repo"
VERIF = os.path.dirname(os.path.dirname(os.path.abspath(__file__)))
PY = "/venv/bin/python"
ALL = ["C%02d" % i for i in range(1, 21)]
IGNORED = ("test_indian_pines", "test_svd_time")


def sh(cmd, cwd=None, timeout=3600):
    p = subprocess.run(cmd, shell=True, cwd=cwd, capture_output=True, text=True, timeout=timeout)
    return p.returncode, p.stdout + p.stderr


def entries(rd):
    out = []
    for n in sorted(os.listdir(rd)):
        d = os.path.join(rd, n)
        if os.path.isfile(os.path.join(d, "patch.diff")) and os.path.isfile(os.path.join(d, "meta.json")):
            out.append(d)
    return out


def confirm_one(d):
    name = os.path.basename(d)
    wt = f"/tmp/confwt_{name}_{os.getpid()}"
    rec = {}
    sh(f"git -C {REPO} worktree add -q --detach {wt} HEAD")
    try:
        rc, out = sh(f"git apply {d}/patch.diff", cwd=wt)
        rec["patch_applies"] = rc == 0
        if rc != 0:
            rec["error"] = out[-300:]
            return d, rec
        shutil.copy(os.path.join(d, "demo.py"), os.path.join(wt, "_seed_demo.py"))
        rc1, out1 = sh(f"{PY} -W ignore _seed_demo.py", cwd=wt, timeout=1500)
        rec["demo_with_patch"] = f"exit {rc1}"
        rec["demo_with_patch_tail"] = [l[:200] for l in out1.strip().splitlines()[-2:]]
        sh(f"git apply -R {d}/patch.diff", cwd=wt)
        rc0, _ = sh(f"{PY} -W ignore _seed_demo.py", cwd=wt, timeout=1500)
        rec["demo_without_patch"] = f"exit {rc0}"
        sh(f"git apply {d}/patch.diff", cwd=wt)
        rec["demo_ok"] = rc1 != 0 and rc0 == 0
        rc, out = sh(
            f"{PY} -W ignore -m pytest -q -p no:cacheprovider -p no:randomly -n 4 tensorly 2>&1 | grep -E '^(FAILED|ERROR)|passed|failed' | tail -8",
            cwd=wt,
            timeout=3000,
        )
        fails = [l for l in out.splitlines() if l.startswith(("FAILED", "ERROR")) and not any(i in l for i in IGNORED)]
        rec["suite_with_patch"] = out.strip().splitlines()[-1:] if out.strip() else []
        rec["suite_unexpected_failures"] = fails
        rec["suite_ok"] = not fails and "passed" in out
    finally:
        sh(f"git -C {REPO} worktree remove --force {wt}")
        shutil.rmtree(wt, ignore_errors=True)
    return d, rec


def confirm(rd, jobs):
    ds = [d for d in entries(rd) if "confirmed_here" not in json.load(open(os.path.join(d, "meta.json")))]
    with cf.ThreadPoolExecutor(jobs) as ex:
        for d, rec in ex.map(confirm_one, ds):
            mp = os.path.join(d, "meta.json")
            meta = json.load(open(mp))
            meta["confirmed_here"] = rec
            json.dump(meta, open(mp, "w"), indent=1)
            print(os.path.basename(d), "demo_ok=%s suite_ok=%s %s" % (rec.get("demo_ok"), rec.get("suite_ok"), rec.get("suite_unexpected_failures") or ""), flush=True)


def one_check(c):
    rc, out = sh(f"{PY} -W ignore tools/one_check.py {c}", cwd=VERIF, timeout=1500)
    lines = [l for l in out.splitlines() if l.startswith(("REPORT", "ANALYSIS-ERROR"))]
    return c, rc, lines[:4]


def checks(rd, only=None):
    rc, out = sh(f"git -C {REPO} status --porcelain")
    if out.strip():
        print("refusing: /repo has uncommitted changes:\n" + out)
        return 2
    for d in entries(rd):
        name = os.path.basename(d)
        if only and name not in only:
            continue
        mp = os.path.join(d, "meta.json")
        meta = json.load(open(mp))
        rc, out = sh(f"git -C {REPO} apply {d}/patch.diff")
        if rc != 0:
            print(name, "does not apply to /repo:", out[-200:])
            continue
        try:
            with cf.ThreadPoolExecutor(16) as ex:
                res = list(ex.map(one_check, ALL))
        finally:
            sh(f"git -C {REPO} checkout -- .")
        rec = {c: {"exit": rc, "reports": lines} for c, rc, lines in res if rc != 0}
        key = "checks_first_try" if "checks_first_try" not in meta else "checks_now"
        meta[key] = rec
        meta["caught_by" if key == "checks_now" else "caught_first_try"] = sorted(c for c, r in rec.items() if r["exit"] == 1)
        if key == "checks_first_try":
            meta["caught_by"] = meta["caught_first_try"]
        json.dump(meta, open(mp, "w"), indent=1)
        summary = "; ".join(f"{c}:{r['exit']}" + (" " + r["reports"][0][:140] if r["reports"] else "") for c, r in rec.items())
        print(f"{name} ({meta['property']}): {summary or 'SILENT'}", flush=True)
    rc, out = sh(f"git -C {REPO} status --porcelain")
    print("repo clean after:", not out.strip())
    return 0


if __name__ == "__main__":
    cmd, rd = sys.argv[1], os.path.abspath(sys.argv[2])
    if cmd == "confirm":
        j = int(sys.argv[sys.argv.index("-j") + 1]) if "-j" in sys.argv else 4
        confirm(rd, j)
    elif cmd == "checks":
        sys.exit(checks(rd, set(sys.argv[3:]) or None))
