#!/venv/bin/python
"""Regenerate /verif/MANIFEST.json from the tables below and validate it."""
import json
import os

HERE = os.path.dirname(os.path.dirname(os.path.abspath(__file__)))

CLAIMS = {
    "C17": dict(
        technique="custom AST/CFG lint: reader/writer discipline, who-may-write, must-pass-through and effect rules over the backend managers (branch-consistent path exploration of set_backend / load_backend / backend_context)",
        text="Decides the six structural premises R1-R6 (reader discipline, per-call dispatch, writer discipline incl. write-after-resolve, context save/try-finally/scope-preserving restore, instance-type agreement between load_backend and set_backend, independent state per manager) from which the per-thread-stack behaviour follows for every interleaving (the argument is per-location, not per-schedule). It does not execute any schedule.",
        note="Trusted: CPython threading.local semantics, GIL atomicity of single attribute loads/stores, and the paper argument from R1-R6 to the property (DESIGN.md C17).",
        design="DESIGN.md §3 C17",
    ),
}

NA = {
    "C04": "Equality of floating-point tensors across norms, signs, QR and SVD: no structural necessary condition exists that is not a frozen copy of the formula; the one shape-level clause (transforms must not write into their argument) is decided under C15.",
    "C05": "Singular values, orthonormality and optimal truncation error are numerical facts about LAPACK results; no sound static argument bounds them.",
    "C07": "Monotone descent quantifies over the runtime values of every iterate; the only structural clause (line-search acceptance guarded by an error comparison) is too small a share of the property to claim it.",
    "C09": "Error bounds in terms of the data's singular spectrum are purely numerical.",
    "C12": "Exact minimisers of prox problems are purely numerical (the sign-level defect of the non-negativity handler is decided under C10/C11).",
    "C13": "KKT optimality of solver output is purely numerical.",
    "C20": "Optimal assignment over all R! matchings and metric values are purely numerical.",
}

PENDING = {
    # properties whose static rules are designed (DESIGN.md) but not armed yet
}

ALL = [f"C{i:02d}" for i in range(1, 21)]


def main():
    base = json.load(open("/root/.vp/BASELINE.json"))
    checks = []
    for pid in ALL:
        if pid not in CLAIMS:
            continue
        c = CLAIMS[pid]
        checks.append(
            {
                "property_id": pid,
                "quick_cmd": f"./check {pid} --tier quick",
                "thorough_cmd": f"./check {pid} --tier thorough",
                "evidence_file": f"/verif/evidence/{pid}.json",
                "replay_cmd_template": "./check --replay {path}",
                "engine": "tlsa",
                "level_claimed": {
                    "category": "other",
                    "text": "Static analysis (no execution). " + c["text"],
                    "design_ref": c["design"],
                },
                "level_note": c["note"],
                "technique": "static analysis: " + c["technique"],
            }
        )
    na = []
    for pid in ALL:
        if pid in CLAIMS:
            continue
        reason = NA.get(pid) or PENDING.get(pid)
        if reason is None:
            reason = "static rules for this property are designed in DESIGN.md but not armed yet; not claimed until the check is sound on the tree"
        na.append({"property_id": pid, "reason": reason})
    man = {
        "version": 1,
        "setup_cmd": "./check --selfcheck",
        "hooks": {
            "guard": "TENSORLY_VERIF",
            "enable": "none - static analysis reads the source; no hook or instrumentation exists in /repo",
            "baseline_off_cmd": base["cmd"].replace("--junitxml=<file>", "").strip(),
            "source_commits": [],
            "add_only": True,
        },
        "engines": [
            {
                "name": "tlsa",
                "path": "/verif/tlsa",
                "serves_properties": sorted(CLAIMS),
                "kind_free_text": "repository-specific static analyser (stdlib ast only): import/registry resolver, statement CFG with short-circuit expansion, branch-consistent path exploration, abstract interpretation with call-site specialisation",
            }
        ],
        "checks": checks,
        "not_applicable": na,
        "notes": "All checks are static: they parse /repo's current working tree on every run and never import or execute tensorly. Exit 0 = rules hold, 1 = VIOLATION, 2 = ANALYSIS-ERROR (anchor vanished / checker cannot decide). Genuine defects found were repaired with fix: commits in /repo and are listed in known_findings.json as fixed entries.",
    }
    with open(os.path.join(HERE, "MANIFEST.json"), "w") as fh:
        json.dump(man, fh, indent=1)
    try:
        import jsonschema  # only in the tooling venv

        jsonschema.validate(man, json.load(open("/root/.vp/MANIFEST.schema.json")))
        print("manifest valid")
    except ImportError:
        print("manifest written (jsonschema not available in this interpreter)")


if __name__ == "__main__":
    main()
