#!/venv/bin/python
"""Regenerate /verif/MANIFEST.json from the tables below and validate it."""
import json
import os

HERE = os.path.dirname(os.path.dirname(os.path.abspath(__file__)))

CLAIMS = {
    "C17": dict(
        technique="custom AST/CFG lint: reader/writer discipline, who-may-write, must-pass-through and effect rules over the backend managers (branch-consistent path exploration of set_backend / load_backend / backend_context)",
        text="Decides the six structural premises R1-R6 (reader discipline, per-call dispatch, writer discipline incl. write-after-resolve, context save/try-finally/scope-preserving restore with no store when the entering selection is rejected, instance-type agreement between load_backend and set_backend, independent state per manager) from which the per-thread-stack behaviour follows for every interleaving (the argument is per-location, not per-schedule). It does not execute any schedule.",
        note="Trusted: CPython threading.local semantics, GIL atomicity of single attribute loads/stores, and the paper argument from R1-R6 to the property (DESIGN.md C17).",
        design="DESIGN.md §3 C17",
    ),
}

CLAIMS.update({
    "C01": dict(
        technique="custom AST lint over tensorly/base.py: def-use closure of the tensor argument (layout-only), slot-wise AST comparison of forward/inverse pairs, keyword-forwarding check",
        text="Decides four structural clauses: (AXIS-LIVE) every ordering parameter (mode, row_modes, column_modes, skip_begin) reaches an axis argument of moveaxis/transpose on every return path or selects it by a test, so no path can ignore a requested ordering; (LAYOUT-ONLY) in all nine layout functions the tensor reaches every return only through reshape/moveaxis/transpose and sibling layout functions, so no entry can be dropped, duplicated, rounded or re-typed for any shape/dtype; (INVERSE-MIRROR) fold/partial_fold undo exactly the axis move and shape bookkeeping of unfold/partial_unfold; (FORWARD) the vec helpers forward skip_begin/skip_end with mode=0. (SHAPE-BY-POSITION) shape-derived lists are edited by position, never by value (sizes are not unique); (SKIP-ARITY) the reshape target of partial_unfold has exactly skip_begin leading and skip_end trailing single-axis sizes around the unfolded block (symbolic list lengths as linear forms, every configuration). It does NOT decide that the permutation is the documented one (index arithmetic).",
        note="Trusted: backend reshape/moveaxis/transpose are bijections on entries and keep the dtype (NumPy semantics).",
        design="DESIGN.md §3 C01",
    ),
    "C02": dict(
        technique="registry/table agreement, signature agreement between sibling implementations, repository-wide call-binds check over the resolved call graph, flow-sensitive may-dependence analysis (every option influences every return)",
        text="Decides structural necessary conditions: (BROADCAST-ARITY) in core outer / batched_outer the two reshape targets of every broadcast product have the same number of entries in every loop iteration (affine-relation / Karr analysis of the shape bookkeeping); (AXIS-FAMILY) in tensordot (core, einsum) and _validate_contraction_modes an axis number of one tensor is only ever combined (indexing, membership, negative-axis normalisation, transpose) with the shape / ndim / axis lists of the same tensor, and the validator returns (axes of tensor 1, axes of tensor 2) -- a type rule that holds for all orders and modes; (HOMOGENEITY) khatri_rao, kronecker, multi_mode_dot and mode_dot in both backends, and MTTKRP in its three variants, are homogeneous of degree 1 in the tensor, in the weights when given and in every factor but the skipped one (dimensional analysis with list lengths linear in the number of factors and affine loop acceleration); (SKIP-INDEX) the skip_matrix filter of khatri_rao/kronecker/sample_khatri_rao runs on the list as given; the dispatch table and both backends' registrations agree and resolve to functions; core and einsum siblings are call-compatible; every resolved call binds to its callee's signature; every option (weights, mask, skip_matrix, reverse, transpose, skip, modes, n_modes, batched_modes, cp_tensor weights) influences every return path of every operation. It does NOT decide that an einsum equation or reshape chain equals the textbook formula.",
        note="Trusted: may-dependence is an over-approximation (can miss, cannot over-report); user callables and decorated functions with unknown decorators are skipped.",
        design="DESIGN.md §3 C02",
    ),
    "C03": dict(
        technique="must-pass-through check on constructor CFGs (branch-consistent path exploration) + delegation-shape lint for views and wrapper methods over resolved callees",
        text="Decides: (NORM-DELEGATES) every `norm` method of a wrapper returns the family's factor-based norm of the wrapper or the norm of its own dense reconstruction; (REJECT-TWO-SIDED) every rejecting test of the six validators is an (in)equality/count test or compares a quantity that is non-negative by construction with its tolerance, so no direction of deviation is accepted; (HOMOGENEITY) every value returned by cp_to_tensor/_unfolded/_vec, cp_norm, tucker_to_tensor/_unfolded/_vec, tt_to_tensor/_vec, tr_to_tensor and parafac2_to_slice has the homogeneity degree of the defining contraction (degree 1 in weights/core, in every factor, in the mask when given) for weights present and absent on every return path -- a dimensional analysis that is exact for 'applied twice / forgotten' errors and blind to wrong indices or coefficients; every wrapper constructor (CP, Tucker, TT, TR, TT-matrix, PARAFAC2) validates the unmodified operand on every path before storing state and takes shape/rank from the validator; every delegating view and wrapper method hands the unmodified operand and mode to the family's dense reconstruction and wraps it only in layout functions, so those views agree with the dense tensor by construction. It does NOT decide the index structure of the reconstructions (only their multilinearity degree).",
        note="Trusted: layout functions are pure re-arrangements (C01); validators' individual checks are not examined.",
        design="DESIGN.md §3 C03",
    ),
    "C11": dict(
        technique="table agreement across the six places that carry the constraint names, keyword-forwarding check at every hop, typestate check on ADMM's returned primal (path exploration), validate-before-work must-pass-through, sign-sanitiser recognition for the non-negativity handler",
        text="Decides: the 12 constraint names agree (positionally where position is meaning) across validate_constraints' tables, the proximal_operator dispatch and five signatures, each dispatch branch applies its recorded operator; every hop forwards k=k with n_const = tensor order and consistent order/index; the factor returned by ADMM / stored by the driver / produced by the svd and random initialisers is a proximal-operator output; double constraints raise before any work; the registration tables and the user's per-mode specification are indexed by the same key; the non-negativity handler cannot return negatives. It does NOT decide the numeric feasibility of each operator's output.",
        note="Trusted: the 12-row name->operator table was confirmed by reading and is frozen in the checker; user-supplied initialisations are outside PROX-TYPESTATE.",
        design="DESIGN.md §3 C11",
    ),
})

CLAIMS.update({
    "C16": dict(
        technique="interprocedural RNG-provenance dataflow: branch-consistent path exploration per (function, literal call-site specialisation), may-draw summaries over the resolved call graph (incl. **kwargs forwarding, function-valued locals, closures, CHA on unique method names), who-may-call rule for np.random.*, typestate check of check_random_state",
        text="Decides the dataflow clause for every seed-accepting function (those with a random_state/seed parameter, methods of classes storing self.random_state, **kwargs forwarders, closures): on every branch-consistent path each draw is made on a generator derived from that function's seed, each callee that can reach a draw under the call site's literal specialisation is handed the seed (helpers on such a chain must accept one), no np.random.* draw or reseed is reachable, and check_random_state maps None/int/RandomState as documented without touching global state. Together: with an integer seed every draw comes from a generator constructed from that seed inside the call, for every entry point and path.",
        note="Trusted: NumPy RandomState determinism; user callables (callbacks, callable SVD methods) draw nothing; one table exception (CP_PLSR.fit's rank-1 initialiser, reason in the checker).",
        design="DESIGN.md §3 C16",
    ),
})

CLAIMS.update({
    "C18": dict(
        technique="interprocedural dtype-taint analysis by abstract interpretation (forward worklist over statement CFGs, summaries memoised per abstract call-site arguments = call-site specialisation, containers/wrapper objects interpreted from source)",
        text="Decides the promotion clause: for every public entry point (all of decomposition, solvers, tenalg, factorised-tensor modules, metrics, regression, random, preprocessing) no context-free float allocation (zeros/ones/eye/tensor without **context or dtype), raw RNG draw, explicit wide dtype or strong-integer promotion reaches, through promoting operators, containers, wrapper objects and calls, a value that is returned or stored on self by fit. In-place operators and element stores are modelled as casting to the target dtype; tl.context(x) carries x's taint.",
        note="Trusted: NumPy >= 2 promotion table for primitives (NEP 50), backends other than NumPy out of scope, value semantics (aliases not tracked), parameters of unknown nature never create promotions (can miss, cannot over-report). Documented exceptions: leverage_score_dist, integer index/count outputs.",
        design="DESIGN.md §3 C18",
    ),
})

CLAIMS.update({
    "C15": dict(
        technique="interprocedural may-alias + mutation-effect analysis by abstract interpretation (origin sets for arrays, separate identity sets for containers and wrapper objects, views vs copies per primitive table, summaries memoised per abstract arguments, CHA for unique method names)",
        text="Decides the aliasing clause for every public entry point and every parameter: no path can reach an element store, in-place operator, mutator method, index_update, numpy in-place function or attribute store on an object reachable (through names, views, slices, containers, wrapper objects, closures, calls) from a caller-owned argument, except the documented in-place parameters (cp_mode_dot/tucker_mode_dot copy=False, hals_nnls V, index_update). 16 remaining violations on today's tree (user-supplied CP initialisation shares its factor list with the result) are genuine, cannot be repaired without breaking tensorly's own tests, and are listed one by one in known_findings.json.",
        note="Trusted: user callables do not mutate; NumPy primitive view/copy table; a[i, j] is a scalar; draws on a caller-supplied RandomState are not mutation; parameters with numeric defaults are numbers; value semantics (strong updates through aliases not modelled); two named suppressions in _validate_contraction_modes with reasons.",
        design="DESIGN.md §3 C15",
    ),
})

CLAIMS.update({
    "C06": dict(
        technique="branch-consistent path exploration over driver CFGs with a version/freshness relation (which derived value was computed from which model version), must-match-at-return check, plus AST lints for callback arity, relative unit, guarded sqrt and the last-mode pairing (sibling cross-check)",
        text="Decides for the 12 iterative drivers (CP-ALS, randomised CP, multiplicative and HALS non-negative CP, constrained CP, HOOI, both non-negative Tucker variants, PARAFAC2, TR-ALS and its sampled variant, CMTF): on every branch-consistent path and across iterations each reported error (list append/store, callback argument) is defined and was computed from the current versions of all model variables, the last report before every return matches the returned model, callbacks always get (decomposition, error), reported values are quotients by the data norm (CMTF: documented squared form), square roots of differences are guarded by abs, and the MTTKRP shortcut is only used when the last mode is swept last. It does NOT decide the algebra of the error shortcuts. (ELEMENT-VS-POSITION) the loop variable of a sweep over a filtered mode list is only compared with elements of that list, never with a position in it.",
        note="Trusted: the frozen driver table (model variables, error list, callback, data norm, representation-preserving calls); call results are taken as computed from their arguments; reading a local with no definition on a path ends that path (Python raises).",
        design="DESIGN.md §3 C06",
    ),
})

CLAIMS.update({
    "C08": dict(
        technique="branch-consistent path exploration (must-pass-through of the normalising call under normalize_factors=True; core/factor version relation for HOOI) + abstract interpretation of every decomposition's return values (wrapper-object shapes per return statement)",
        text="Decides three structural clauses: with normalisation requested every path from a sweep write to a return -- convergence break, callback stop and iteration cap alike -- passes the normalising call in the 7 drivers that offer the option; every decomposition entry point (CP family, Tucker family, PARAFAC2, TT, TT-matrix, TR-SVD, TR-ALS, CMTF) returns, at every return statement, a value built by its family's validating wrapper constructor, so the validator's format conditions (equal column counts, TT boundary ranks 1, TR closing rank, one projection per PARAFAC2 slice, core/factor agreement) hold on whatever is returned; HOOI's returned core is the projection computed after the last factor write; (RANK-ROTATION) in tensor_ring every sequence rotated by the starting mode is rotated as a cycle of n_dim entries (the rank vector's duplicated closing entry is not part of the cycle). It does NOT decide shapes vs. requested ranks, orthonormality, TT left-orthogonality or 'weights all ones'.",
        note="Trusted: C03 CTOR-VALIDATES (constructors validate); returns in front of the sweep loop (the all-modes-fixed shortcut) are outside NORMALISE-ON-EXIT; frozen driver table.",
        design="DESIGN.md §3 C08",
    ),
    "C14": dict(
        technique="loop-index provenance lint (sweep stores indexed only by the fixed-mode-filtered list) + path exploration under the rewriting options switched off + pure-move (no arithmetic / no copy-with-change) check of the fixed-factor flow",
        text="Decides ONLY the fixed-modes clause: in parafac, non_negative_parafac, non_negative_parafac_hals, constrained_parafac and non_negative_tucker_hals every sweep store into the factor list is indexed by the variable of a loop over [m for m in range(ndim) if m not in fixed_modes] and, with normalize_factors/orthogonalise/linesearch off, nothing else re-binds the list; parafac's all-fixed shortcut wraps exactly the initialiser's outputs; tucker's fixed factors reach the result from init by moves only and are re-inserted at positions taken from a sorted sequence. The clause 'iteration starts from exactly the tensor the initialisation represents' (weight folding) is numeric and explicitly NOT decided. (WEIGHTS-SEEN) PARAFAC2: along every branch-consistent path a call that receives the factor list without the weights is only reached when the weights were just reset to ones after being absorbed into a factor, so a warm start's weights are part of the model every consumer sees.",
        note="Trusted: frozen driver table; with normalisation / orthogonalisation / line search ON all factors are legitimately rewritten and the rule is silent.",
        design="DESIGN.md §3 C14",
    ),
    "C19": dict(
        technique="branch-consistent path exploration with the version relation of C06 over CPRegressor.fit / TuckerRegressor.fit (every exposure computed from the current factor versions) + delegation-shape lint of the exposures and of predict",
        text="Decides for the CP and Tucker regressors: every attribute exposed by fit (weight_tensor_, cp_weight_/tucker_weight_, vec_W_) is derived, on every path (convergence break and iteration cap), from the same final factor state through the family's reconstruction of exactly the exposed pair, and predict reads only exposed attributes and contracts partial_tensor_to_vec(X) with one of them. The CP-PLSR clauses (scores, unit loadings, invariances) are numeric and NOT decided. (STATS-FROM-FIT) CP_PLSR.predict / transform centre the query batch with the means stored by fit; no statistic of the query batch is computed, directly or through a helper default.",
        note="Trusted: C03 view agreement; paths where weight_tensor_ is never bound (n_iter_max=0) are outside the rule.",
        design="DESIGN.md §3 C19",
    ),
})

CLAIMS.update({
    "C10": dict(
        technique="abstract interpretation over the sign lattice {non-negative, any} (interprocedural, summaries per abstract call-site arguments, configurations = built-in and non-negative user initialisations x core solver), plus AST lints for PARAFAC2's solver selection and line-search clipping",
        text="Decides: for non_negative_parafac, non_negative_parafac_hals, non_negative_tucker, non_negative_tucker_hals (fista and active-set cores), the initialisers with non_negative=True and the NNLS solvers (hals_nnls, fista, active_set_nnls), under svd / random / non-negative user initialisation and arbitrary signed data, every weight, factor and core slot of the returned wrapper (solver: the solution) is built from clipped / absolute-valued operands by sign-preserving operators; PARAFAC2 with nn_modes delegates to the HALS solver with nn_modes forwarded and clips the line-search iterate on exactly modes 0 and 2. Normalisers and solver summaries are computed, not assumed.",
        note="Stated assumptions: non-negative user initialisation (as in the property); for hals_nnls: range(rank) and the literal iteration count run at least once and every row is updated (UtU[k,k] != 0, 'well-conditioned'); HALS-CP is analysed with every mode declared non-negative; NaN/inf (0/0) ignored; PARAFAC2's signed SVD initialisation (zero-sweep output) is outside the claim; constrained CP's non-negativity is C11's SIGN-HANDLER/PROX-TYPESTATE.",
        design="DESIGN.md §3 C10",
    ),
})

CLAIMS.update({
    "C04": dict(
        technique="dimensional analysis by structural abstract interpretation (homogeneity degrees as linear forms in the number of factors, per-position list tracking, affine loop acceleration, path splitting at flag-dependent branches) + sign-parity and zero-sign lints",
        text="PARTIAL claim; decides necessary conditions only. (DEGREE-CONSERVED) the object returned by cp_normalize, tucker_normalize, parafac2_normalise and cp_flip_sign represents a tensor with the same homogeneity degree in the weights/core, in every factor and in the projections as its input, and cp_mode_dot / tucker_mode_dot (matrix branch and contracted-vector branch) add exactly degree 1 in the operand -- for weights present and absent, on every return path and any number of factors; (SCALE-FREE) every factor returned by a normaliser has degree 0 in all inputs, the scale being carried by the weights/core alone; (SIGN-PARITY) in cp_flip_sign every sign vector enters the represented tensor an even number of times; (SIGN-NONZERO) a sign vector that multiplies a factor cannot vanish where the component does not; (PERM-SPACE, shared with C20) cp_permute_factors picks columns of the tensor the matching permutation's values refer to; (LOST-REBIND) a transform that can return its operand itself never re-binds an unpacked component on a path to that return without storing it back. It does NOT decide that the represented tensors are equal (wrong index / column order conserve degree), the unit norm itself, cp_permute_factors' alignment, TT/TR rank padding, CP->PARAFAC2 conversion or the SVD compress/decompress round trip.",
        note="Trusted: degree specification of dot / mode_dot / norm / reshape; where(x == 0, 1, x) is evaluated as x (generic case); cp_mode_dot / tucker_mode_dot analysed with copy=True. Found and repaired: cp_flip_sign annihilated components with a zero-mean column (fix commit in /repo, known_findings.json).",
        design="DESIGN.md §17",
    ),
})

CLAIMS.update({
    "C07": dict(
        technique="dimensional analysis of the block updates by structural abstract interpretation of the whole driver (data tensor and initialiser output as symbols; first store per store site observed) + guard-dominance lint for line-search acceptance",
        text="PARTIAL claim; decides two necessary conditions, not descent itself. (UPDATE-DEGREE) the value each least-squares block update stores into the model -- CP-ALS, HALS non-negative CP (HALS and unconstrained branch), TR-ALS (lstsq and normal equations), the CP and Tucker regressors' ALS (ridge 0), CMTF's matrix-side factor, HOOI -- has the homogeneity degree of the exact block minimiser (+1 in the data, -1 in every other block and in the weights): with any other degree, rescaling the other blocks makes the residual after the update exceed the residual before it, so the sweep increases the objective for some input. Catches weights/factors missing from or doubled in the Gram matrix or the right-hand side, Gram products over the wrong set of modes, a sub-chain one core short. (ACCEPT-GUARDED) a line-search extrapolation replaces the iterate (CP-ALS) or is returned (PARAFAC2) only in the true branch of `error(extrapolated) < recorded error`; (RIDGE-LIVE) in the CP / Tucker regressors' ridge ALS the system matrix of every least-squares solve depends on self.reg_W (through helper parameters and defaults), so all blocks minimise the same penalised objective; (BLOCK-INDEPENDENT) the HALS NNLS row update is an exact coordinate minimisation: over an affine-form abstract domain (value = alpha*old_row + beta with rational-function coefficients) the stored row does not depend on the old row after cancellation, with and without sparsity / ridge coefficients. NOT decided: monotone descent, PARAFAC2's projection step, CMTF's coupled factor, conditioning.",
        note="Trusted: degree specification of solve/lstsq (b - A), of the NNLS solvers (UtM - UtU), of svd (scale-free vectors) and of the tenalg primitives (C02); drivers analysed with ridge 0, no mask, no sparsity.",
        design="DESIGN.md §17",
    ),
})

CLAIMS.update({
    "C13": dict(
        technique="dimensional (unit) analysis of the solver bodies by structural abstract interpretation: UtM, UtU, the l1 and ridge coefficients as units; every sum / difference / element store type-checked, every return compared with the unit of the exact solution",
        text="PARTIAL claim; decides unit consistency only. (UNIT-CONSISTENT) in hals_nnls (cold and warm start, with and without l1 / ridge coefficients), fista (cold / warm, penalised), active_set_nnls (cold / warm) and admm (unconstrained branch and constrained iteration) no sum, difference or element store combines quantities of different units, and every returned solution has the unit UtM / UtU of the exact (penalised) least-squares solution. The solution of the NNLS problem is homogeneous of degree +1 in UtM and -1 in UtU; an update that mixes units is not invariant under rescaling the design, so its fixed point cannot be the KKT point for every input. Catches a Gram entry missing from the coordinate update, squared denominators, coefficients added on the wrong side, a step without / with a non-inverted Lipschitz constant, residuals without the Gram matrix. (MUST-SOLVE) every path to a return of active_set_nnls passes a solve of the passive-set system (iteration budget >= 1); (BLOCK-INDEPENDENT) the HALS row update is the exact minimiser over its row: in an affine-form abstract domain the coefficient of the old row in the stored row is 0 after cancellation for every combination of the sparsity / ridge coefficients (the 'incremental' form of the function's own docstring keeps 2*ridge/(UtU[k,k]+2*ridge) of the old row: a damped step whose fixed point is not the KKT point of the ridge problem). NOT decided: KKT optimality of the numbers, convergence, active-set bookkeeping.",
        note="Trusted: clamp at epsilon evaluated as identity; proximal_operator unit-preserving; solve / svd degree specification.",
        design="DESIGN.md §17",
    ),
})

CLAIMS.update({
    "C12": dict(
        technique="dimensional (unit) analysis of the operator bodies by structural abstract interpretation: tensor and unit-carrying parameter as one unit, coefficients and counts as numbers",
        text="PARTIAL claim; decides joint positive homogeneity only. (PROX-HOMOGENEOUS) in soft / singular-value thresholding, the l2 and squared-l2 prox, smoothness, simplex and l1-ball projection, hard and normalised sparsity, monotone (both directions) and unimodal regression and Procrustes, no sum, difference or element store combines quantities of different units and the result has the unit of the input (no unit for the normalising operators); (INVOLUTION-PAIR) a flip applied under a flag before the computation is undone afterwards with the same arguments; (K-BY-RANK) hard_thresholding keeps exactly k entries: it selects by argsort rank against the count, never by magnitude against a cut-off magnitude. Every penalty offered is positively homogeneous or a squared norm with a dimensionless coefficient, so the exact prox satisfies prox(c v; c r) = c prox(v; r); an operator that is not jointly homogeneous cannot be the exact minimiser for every input and parameter. NOT decided: feasibility, optimality, idempotence, non-expansiveness, behaviour on negative inputs or inside the constraint set.",
        note="Trusted: unit table of the parameters (thresholds and radii carry the data's unit; l2-square and smoothness coefficients dimensionless; sparsity levels are counts), confirmed against the documented prox problems; guards x + 1e-12 / x + eps are negligible by intent.",
        design="DESIGN.md §17",
    ),
    "C20": dict(
        technique="dimensional analysis of the metric bodies by structural abstract interpretation: the two factor sets / data arrays as independent units",
        text="PARTIAL claim; decides the scale behaviour only. (SCALE-BEHAVIOUR) congruence_coefficient (with and without absolute values), correlation_index (all four methods), R2_score, correlation, reflective_correlation_coefficient and leverage_score_dist are homogeneous of degree 0 in each argument -- a necessary condition of their invariance under rescaling of either factor set; MSE / variance have degree 2, covariance degree (1, 1), RMSE / standard deviation degree 1, as their definitions require; no sum or difference inside them combines different units; (CONJ-LIVE) in the similarity metrics a conjugation is applied to an operand of the cross-product, never to the product directly under abs / norm; (PERM-SPACE) index-space typing of the matching permutation: its direction is read from congruence_coefficient's source and cp_permute_factors picks columns of the tensor the permutation's values refer to, at the reference's positions. NOT decided: optimality of the matching over all permutations, the [0, 1] range, permutation invariance, the exact definitions.",
        note="Trusted: one scale per factor matrix stands for per-column scales (the metrics normalise with axis=0 norms); svd degree specification for the leverage scores.",
        design="DESIGN.md §17",
    ),
})

CLAIMS.update({
    "C05": dict(
        technique="dimensional analysis of the SVD methods by structural abstract interpretation (backend svd / eigh / qr by specification) + sign-pairing lint of svd_flip + dispatch-table agreement",
        text="PARTIAL claim; decides three structural clauses. (SVD-SCALING) truncated_svd, symeig_svd, randomized_svd and svd_interface with each method (with, without and with V-based sign resolution) return singular vectors of degree 0 and singular values of degree 1 in the matrix and add no quantities of different degree on the way -- the SVD of c*A is (U, c*S, V), so this is necessary for orthonormal vectors and true singular values (catches a missing square root in the Gram route, un-normalised or doubly normalised vectors, a range finder that is not orthonormalised when the power iterations are switched off, vectors multiplied by the spectrum); (FLIP-PAIRED) in each branch of svd_flip the sign vector multiplies both U and V exactly once, so sign resolution cannot change the product; (DISPATCH-AGREE) the branch method == '<name>' selects the function of that name and SVD_FUNS lists exactly the dispatched names; (DECIDING-ENTRY) in svd_flip the sign of each deciding vector is the sign of its largest-magnitude entry: the arg-max index is used as an index into its own axis, paired with an enumeration of the other axis and applied along the axis it was decided for, and no arithmetic combination of entries (which can vanish) is used; (NONNEG-OPTION) by {non-negative, any} abstract interpretation, make_svd_non_negative returns two entrywise non-negative factors for signed data and arbitrary singular vectors under nndsvd and nndsvda, and svd_interface returns exactly that pair. NOT decided: the values of the triplets, orthonormality itself, ordering, optimal truncation error, the randomized method's accuracy, shapes beyond min(shape).",
        note="Trusted: degree specification of backend svd / eigh / qr.",
        design="DESIGN.md §17",
    ),
    "C09": dict(
        technique="dimensional analysis of the decomposition drivers by structural abstract interpretation (symbolic number of modes, per-position core tracking) + rank-clipping lint over the sequential SVD calls",
        text="PARTIAL claim; decides two necessary conditions. (OUTPUT-DEGREE) the tensor represented by the output of TT-SVD, TR-SVD (starting mode 0) and HOOI is homogeneous of degree 1 in the input tensor (decompose c*X: the reconstruction must be c*X), all TT / TR cores but the last and all Tucker factors have degree 0 (orthonormal blocks carry no scale) and the last core / the Tucker core degree 1 -- also when the HOOI loop does not run; (RANK-CLIPPED) every sequential SVD of tensor_train / tensor_ring requests min(rows, columns, requested rank) components and stores that number back into the rank vector, and TR's first SVD is guarded by a rejecting test against min(rows, columns). NOT decided: exactness at sufficient rank, the quasi-optimality bounds, the lower bound by the largest discarded tail.",
        note="Trusted: svd_interface by specification (decided for its own code under C05); initialize_tucker by specification (HOSVD); tensor_ring analysed for mode=0; tensor_train_matrix delegates to tensor_train.",
        design="DESIGN.md §17",
    ),
})

NA = {
}

PENDING = {
    # properties whose static rules are designed (DESIGN.md) but not armed yet
}

ALL = [f"C{i:02d}" for i in range(1, 21)]

# rules added after the fifth seeded round (DESIGN.md §21); appended to the claim text of each property
HISTORY_FREE = " (HISTORY-FREE) no routine of the modules this property is anchored in makes its result depend on earlier calls: a memo table (module-level container written at run time) is keyed by everything its value is computed from -- per facet: value / shape / dtype-and-device of an array -- no key component drops the values of a mapping, a value taken from a memo table or a functools cache is never modified in place, and no module global is rebound at run time (a cache the rule can prove consistent is accepted)."
ZERO_VALUE = " (ZERO-IS-A-VALUE) in the anchored modules a parameter that names an axis, a mode or a position and defaults to None is never tested by its truth value (`if axis:` treats 0 like None)."
SENTINEL = " (SENTINEL-INTACT) in the anchored modules a parameter that is compared with a string sentinel (there or in a routine it is handed to) is not passed through set / list / tuple / sorted while it can still be that string."
MASK_ARGMAX = " (MASK-ARGMAX) in the anchored modules no argmax / argmin is taken over a boolean mask without an any() / all() test of that mask in the same function (the position of the first True is 0 also when nothing is True)."
ORDER_SET = " (ORDER-FROM-SET) in the anchored modules no ordered sequence (list / tuple / comprehension / unpacking / a loop that appends) is read off a set-typed expression except through sorted(...) or an order-free consumer: modes, axes and factors are addressed by position and a set has no order."
EXTRA = {
    "C03": " (CHECKS-INDEPENDENT) in the six validators no rejecting check is the elif / else arm of a test of the factor-loop index against a position unless both arms compare the same index with different constants (first and last position coincide for a one-factor tensor). (BUFFER-CONTEXT) in the factorised-tensor modules a buffer allocated with **context(X) and filled through index_update takes its context from something computed from everything the stored values are computed from (the zero-padded PARAFAC2 tensor, padded TT cores).",
    "C17": " (R7) no name listed in a manager's `_functions` / `_attributes` is bound at module level in that manager's module (the module object is an instance of the manager class: its own namespace shadows the dispatching descriptors).",
    "C08": " (SCALE-FOLLOWS-FACTOR) after N = cp_normalize(N) no factor of N is built into another factorised tensor without N.weights on any branch-consistent path (CMTF's shared factor). (ABSORBED-ONCE) in initialize_cp, on every path on which a user-supplied CP tensor's weights are multiplied into the factors, the object handed back is built afterwards with unit weights. NORMALISE-ON-EXIT also covers the zero-sweep path: a return behind the sweep loop reached without any sweep write (iteration cap 0) passes the normalising call too.",
    "C16": " (SEED-KEPT-AS-GIVEN) a constructor that takes a seed stores it as given and makes no generator from it (a generator kept on the object is advanced by every fit).",
    "C20": " (AXIS-FORWARD) a metric that takes `axis` hands it to every metric of the same module it calls.",
    "C15": " Documented in-place options (cp_mode_dot / tucker_mode_dot copy=False) are analysed again with the option at its safe value (copy=True), under which the argument must not be written.",
    "C01": " (PRIM-IS-NUMPY) the NumPy backend's reshape / moveaxis / transpose are NumPy's own functions (registered by name from numpy, read by a small evaluator of the registration loops) or methods that return exactly np.<name>(their parameters): the trusted base of the layout rules is what it is assumed to be. (AXIS-AS-GIVEN) a layout function that re-binds its ordering parameter corrects it by the tensor order (ndim / len(shape)) only.",
    "C12": " (RANK-ON-DATA) an operator that ranks entries (sort / argsort) to find its threshold or support ranks its own input: the ranked array reaches the tensor parameter through re-arrangements, negation or absolute value only.",
    "C06": " (MASK-FORWARD) a driver that takes a `mask` hands (something computed from) it to the routine that computes its reported error (error_calc), never a constant or the default. (REPORT-PURE) the reported error has no data dependence on a penalty option (sparsity / ridge / regularisation coefficients) other than through the model. (SHORTCUT-PREMISE) every pass of HOOI's sweep stores singular vectors into its mode's factor (no skip before the store), which the norm shortcut of the reported error presupposes. (LAST-MODE, extended) after the guard that un-fixes the last mode the fixed-mode list is only copied or filtered, never re-computed element by element.",
    "C13": " (START-FREE) admm with no constraint and an iteration budget >= 1: the returned primal has no data dependence on the start values x and dual_var on any branch-consistent path. (COMPLEMENT-IN-SYNC) the two complementary masks of active_set_nnls (passive set x > 0, active set x <= 0) are written together in every statement block that writes either; MUST-SOLVE reads the function with its module helpers inlined.",
    "C18": " (REAL-NARROWING) no component handed to a factorised-tensor constructor can be nothing but a real-valued reduction (norm / .real / .imag) of the data: complex input would get real-typed weights / factors. The mask parameter is modelled as the documented array of booleans (weakest array type; with a Python number it becomes a 64-bit array that promotes), options whose default is a Python number as weak Python numbers. A true division with an int64 array (arange) on either side is float64 whatever the other operand is.",
    "C19": " (FILL-COMPLETE) CP_PLSR.fit writes one column of every preallocated loading matrix per pass of its component loop, and that loop has no early exit of its own, so no component is left at its zero initial value. (TRANSFORM-DELEGATES) fit_transform of a regressor that also offers transform returns `.transform(<its own arguments>)` of the fitted object, not the model's own arrays.",
    "C02": " (INDEX-WIDTH) in sample_khatri_rao the mixed-radix accumulation of the sampled row index starts from an integer array with an explicit wide dtype, so the row index cannot inherit a narrow integer type from the caller's index arrays. (CONJ-AGREE) a tenalg routine implemented by both backends conjugates an operand in one implementation if and only if it does in the other.",
    "C09": " (SVD-OF-UNFOLDING) by dimensional analysis every matrix handed to an SVD inside tensor_train / tensor_ring / partial_tucker has degree exactly 1 in the data on every branch (an unfolding, not its Gram matrix). (NO-RECAST) in tensor_train / tensor_ring / partial_tucker no value derived from an SVD is re-typed to the context or dtype of the data argument (the property quantifies over integer tensors, whose floating-point cores such a cast truncates). (SCALE-FREE-TEST) inside TT-SVD, TR-SVD and HOOI no order comparison sets a quantity carrying the data's unit against a fixed number (machine epsilon): which directions are kept must not depend on the scale of the input. (EXACT-SWEEP-SVD) the SVD inside partial_tucker's sweep takes no method from a caller option: exactness at sufficient rank and the quasi-optimality bound rest on orthonormal factors from an exact SVD.",
    "C04": " (GUARD-EXACT) in cp_normalize / tucker_normalize / parafac2_normalise the scale that divides a factor and the scale absorbed into the weights / core are the same value or differ only by a guard where(<scale is exactly zero>, 1, scale); a threshold guard leaves a non-null column un-normalised while its norm is still absorbed.",
    "C05": " (BRANCH-AGREE) the transposed and the direct route of randomized_svd call the range finder and the reduced SVD with the same options (sketch size with oversampling, power iterations, seed, number of triplets). (DIV-GUARDED) in the SVD methods of SVD_FUNS and in make_svd_non_negative every division has a strictly positive denominator: by construction (clipped / floored at a positive constant or machine epsilon, square roots and reshapes of such) or because it sits under `if P > Q` with the denominator a factor of the product P of norms and Q >= 0; singular vectors and NNDSVD columns stay finite for exactly singular input and one-signed singular vectors (found and repaired: fix d4592a7). (SCALE-RETURNED) symeig_svd divides by the very singular values it returns. (REORTH-EACH-STEP) in randomized_range_finder's power iteration no product with A / A^H is applied to a sample that was not re-orthonormalised after the previous one, and the sample carried to the next pass comes out of qr (typestate over the inlined loop body).",
    "C07": " (ACCEPT-EVALUATED) PARAFAC2's line-search step returns the model its error was evaluated on: between the evaluation and the return that hands back (model, error) no part of that model is written. (DERIVED-FRESH) in every iterative driver a local table derived element by element from the model list (cached Gram matrices, norms; plain copies are snapshots) is rebuilt over every position after the model list is re-bound as a whole (orthogonalisation, cp_normalize) and before it is read again. (EXACT-SWEEP-SVD) the SVD inside partial_tucker's sweep takes no method from a caller option (a selectable method includes the randomised, approximate one).",
    "C14": " (PURE-MOVE, extended) parafac's all-fixed shortcut reads fixed_modes before anything filters it. (INIT-AS-GIVEN) on the path initialize_cp / initialize_constrained_parafac / initialize_tucker take for a user-supplied decomposition, no factor is replaced by the output of a transforming routine (proximal operator, projection, SVD, random draw, clipping; absolute value outside the non-negative option) before it is returned. INIT-AS-GIVEN also covers PARAFAC2's initialize_decomposition.",
}


def main():
    base = json.load(open("/root/.vp/BASELINE.json"))
    checks = []
    for pid in ALL:
        if pid not in CLAIMS:
            continue
        c = CLAIMS[pid]
        checks.append(
            {
                "property_id": pid,
                "quick_cmd": f"./check {pid} --tier quick",
                "thorough_cmd": f"./check {pid} --tier thorough",
                "evidence_file": f"/verif/evidence/{pid}.json",
                "replay_cmd_template": "./check --replay {path}",
                "engine": "tlsa",
                "level_claimed": {
                    "category": "other",
                    "text": "Static analysis (no execution). " + c["text"] + EXTRA.get(pid, "") + ("" if pid == "C17" else HISTORY_FREE + MASK_ARGMAX + SENTINEL + ZERO_VALUE + ORDER_SET),
                    "design_ref": c["design"],
                },
                "level_note": c["note"],
                "technique": "static analysis: " + c["technique"],
            }
        )
    na = []
    for pid in ALL:
        if pid in CLAIMS:
            continue
        reason = NA.get(pid) or PENDING.get(pid)
        if reason is None:
            reason = "static rules for this property are designed in DESIGN.md but not armed yet; not claimed until the check is sound on the tree"
        na.append({"property_id": pid, "reason": reason})
    man = {
        "version": 1,
        "setup_cmd": "./check --selfcheck",
        "hooks": {
            "guard": "TENSORLY_VERIF",
            "enable": "none - static analysis reads the source; no hook or instrumentation exists in /repo",
            "baseline_off_cmd": base["cmd"].replace("--junitxml=<file>", "").strip(),
            "source_commits": [],
            "add_only": True,
        },
        "engines": [
            {
                "name": "tlsa",
                "path": "/verif/tlsa",
                "serves_properties": sorted(CLAIMS),
                "kind_free_text": "repository-specific static analyser (stdlib ast only): import/registry resolver, statement CFG with short-circuit expansion, branch-consistent path exploration, abstract interpretation with call-site specialisation",
            }
        ],
        "checks": checks,
        "not_applicable": na,
        "notes": "All checks are static: they parse /repo's current working tree on every run and never import or execute tensorly. Exit 0 = rules hold, 1 = VIOLATION, 2 = ANALYSIS-ERROR (anchor vanished / checker cannot decide). Genuine defects found were repaired with fix: commits in /repo and are listed in known_findings.json as fixed entries.",
    }
    with open(os.path.join(HERE, "MANIFEST.json"), "w") as fh:
        json.dump(man, fh, indent=1)
    try:
        import jsonschema  # only in the tooling venv

        jsonschema.validate(man, json.load(open("/root/.vp/MANIFEST.schema.json")))
        print("manifest valid")
    except ImportError:
        print("manifest written (jsonschema not available in this interpreter)")


if __name__ == "__main__":
    main()
