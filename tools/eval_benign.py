#!/venv/bin/python
"""Run every check against behaviour-preserving refactorings.

usage: tools/eval_benign.py <dir with patch1.diff, patch2.diff, equiv1.py, equiv2.py, meta.json>

For each patch: (1) fresh scratch worktree of /repo HEAD, `git apply`, run the equivalence script
(must print PASS / exit 0: it compares the refactored code with an embedded copy of the original);
(2) apply the patch to /repo itself, run all checks, restore /repo (`git checkout -- .`).
Exit code 1 of a check = FALSE ALARM (the refactoring preserves behaviour); 2 = the check could
not decide (schema fragility).  Prints a JSON record.
"""
import glob
import json
import os
import shutil
import subprocess
import sys

REPO = "/repo"
VERIF = os.path.dirname(os.path.dirname(os.path.abspath(__file__)))
PY = "/venv/bin/python"
ALL = [f"C{i:02d}" for i in range(1, 21)]


def sh(cmd, cwd=None, timeout=1800):
    p = subprocess.run(cmd, shell=True, cwd=cwd, capture_output=True, text=True, timeout=timeout)
    return p.returncode, p.stdout + p.stderr


def main():
    d = os.path.abspath(sys.argv[1])
    name = os.path.basename(d.rstrip("/"))
    rc, out = sh(f"git -C {REPO} status --porcelain")
    if out.strip():
        print("refusing: /repo has uncommitted changes:\n" + out)
        return 2
    recs = []
    for patch in sorted(glob.glob(os.path.join(d, "patch*.diff"))):
        k = os.path.basename(patch)[5:-5]
        rec = {"patch": os.path.basename(patch)}
        wt = f"/tmp/benwt_{name}_{k}_{os.getpid()}"
        sh(f"git -C {REPO} worktree add -q --detach {wt} HEAD")
        try:
            rc, out = sh(f"git apply {patch}", cwd=wt)
            rec["applies"] = rc == 0
            if rc != 0:
                rec["error"] = out[-300:]
                recs.append(rec)
                continue
            eq = os.path.join(d, f"equiv{k}.py")
            if os.path.exists(eq):
                shutil.copy(eq, os.path.join(wt, "_equiv.py"))
                rc, out = sh(f"{PY} -W ignore _equiv.py", cwd=wt, timeout=1200)
                rec["equiv_exit"] = rc
                rec["equiv_tail"] = out.strip().splitlines()[-2:]
            else:
                rec["equiv_exit"] = None
        finally:
            sh(f"git -C {REPO} worktree remove --force {wt}")
            shutil.rmtree(wt, ignore_errors=True)
        rc, out = sh(f"git -C {REPO} apply {patch}")
        if rc != 0:
            rec["repo_apply_error"] = out[-300:]
            recs.append(rec)
            continue
        try:
            rec["checks"] = {}
            for c in ALL:
                rc, out = sh(f"./check {c} --tier quick", cwd=VERIF, timeout=1200)
                if rc != 0:
                    lines = [l for l in out.splitlines() if ("[" in l and "]" in l and not l.startswith(("VIOLATION", "KNOWN", " ", "C"))) or l.startswith("ANALYSIS-ERROR")][:3]
                    rec["checks"][c] = {"exit": rc, "reports": [l[:300] for l in lines]}
        finally:
            sh(f"git -C {REPO} checkout -- .")
        rec["false_alarms"] = [c for c, r in rec["checks"].items() if r["exit"] == 1]
        rec["cannot_decide"] = [c for c, r in rec["checks"].items() if r["exit"] == 2]
        recs.append(rec)
    rc, out = sh(f"git -C {REPO} status --porcelain")
    print(json.dumps({"dir": d, "repo_clean_after": not out.strip(), "patches": recs}, indent=1))
    return 0


if __name__ == "__main__":
    sys.exit(main())
