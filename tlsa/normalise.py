"""Source normalisation applied to every parsed module before any analysis.

lambda lifting   A helper nested in a function that reads locals of the enclosing function
                 (a closure) gets those locals as explicit keyword-only parameters, and every
                 call passes them: `def h(a): return a * scale` ... `h(x)`  becomes
                 `def h(a, *, scale): ...` ... `h(x, scale=scale)`.  A closure reads its free
                 variables when it is *called*, so passing their values at the call is the same
                 program; the analyses then see the data flow through ordinary parameter binding
                 (extracting a local helper is the most common clean-up refactoring, and none of
                 the per-function analyses should change its verdict because of it).
                 Only helpers that are always called directly (never used as a value), take no
                 *args / **kwargs, are not decorated, and do not re-bind the captured name are
                 lifted; everything else is left as it is.

table unrolling  `for k, f in (("a", fa), ("b", fb)): BODY` over a *literal* table of literal rows
                 (at most 8 rows, constants / names only, no break / continue / else) is replaced by
                 `k, f = "a", fa; BODY; k, f = "b", fb; BODY`: the same program, and a table-driven
                 dispatch then reads like the if / elif chain it replaces.  Loops over a flat literal
                 list (the backends' registration loops) are left alone.

counted while    `i = 0; while i < N: BODY; i += 1` (the increment is the last statement of the body, `i`
                 is not written elsewhere in the body, the body has no `continue`, nothing in it rebinds
                 or resizes what N reads, and `i` is not read after the loop) is the loop
                 `for i in range(0, N): BODY`.  Index loops written either way get the same analysis.

append loops     `L = []` directly followed by `for x in IT: L.append(E)` -- optionally guarded by
                 `if c: L.append(E)` or `if c: continue` before the append -- is the comprehension
                 `L = [E for x in IT if ...]`, provided the loop variables are not read after the loop and
                 the body does nothing else.
"""

from __future__ import annotations

import ast
import builtins
from typing import Dict, List, Set

_BUILTINS = set(dir(builtins))


def _own_nodes(fn):
    """nodes of fn's own scope (nested function / class / lambda bodies excluded; their headers included)"""
    out = []
    stack = list(fn.body)
    while stack:
        n = stack.pop()
        out.append(n)
        if isinstance(n, (ast.FunctionDef, ast.AsyncFunctionDef, ast.ClassDef, ast.Lambda)):
            # decorators / defaults belong to the enclosing scope
            for d in getattr(n, "decorator_list", []):
                stack.append(d)
            a = getattr(n, "args", None)
            if a is not None:
                stack.extend(a.defaults)
                stack.extend([d for d in a.kw_defaults if d is not None])
            continue
        for c in ast.iter_child_nodes(n):
            stack.append(c)
    return out


def _bound_names(fn) -> Set[str]:
    """names bound in fn's own scope (parameters, assignment / loop / with / except / import targets, nested defs)"""
    a = fn.args
    names = {x.arg for x in a.args + a.kwonlyargs + a.posonlyargs}
    if a.vararg:
        names.add(a.vararg.arg)
    if a.kwarg:
        names.add(a.kwarg.arg)
    for n in _own_nodes(fn):
        if isinstance(n, ast.Name) and isinstance(n.ctx, (ast.Store, ast.Del)):
            names.add(n.id)
        elif isinstance(n, (ast.FunctionDef, ast.AsyncFunctionDef, ast.ClassDef)):
            names.add(n.name)
        elif isinstance(n, (ast.Import, ast.ImportFrom)):
            for al in n.names:
                names.add((al.asname or al.name).split(".")[0])
        elif isinstance(n, ast.ExceptHandler) and n.name:
            names.add(n.name)
    return names


def _free_reads(fn) -> Set[str]:
    """names read in fn (own scope and nested scopes) that fn does not bind itself"""
    bound = _bound_names(fn)
    reads = set()
    for n in _own_nodes(fn):
        if isinstance(n, ast.Name) and isinstance(n.ctx, ast.Load) and n.id not in bound:
            reads.add(n.id)
        elif isinstance(n, (ast.FunctionDef, ast.AsyncFunctionDef)):
            reads |= {x for x in _free_reads(n) if x not in bound}
        elif isinstance(n, ast.Lambda):
            inner_bound = {x.arg for x in n.args.args + n.args.kwonlyargs + n.args.posonlyargs}
            for x in ast.walk(n.body):
                if isinstance(x, ast.Name) and isinstance(x.ctx, ast.Load) and x.id not in inner_bound and x.id not in bound:
                    reads.add(x.id)
    return reads


def _declares_nonlocal(fn) -> Set[str]:
    out = set()
    for n in _own_nodes(fn):
        if isinstance(n, (ast.Nonlocal, ast.Global)):
            out |= set(n.names)
    return out


def lambda_lift(tree: ast.Module) -> int:
    """in place; returns the number of helpers lifted"""
    lifted = 0
    for outer in [n for n in ast.walk(tree) if isinstance(n, (ast.FunctionDef, ast.AsyncFunctionDef))]:
        outer_bound = _bound_names(outer)
        own = _own_nodes(outer)
        helpers = [n for n in own if isinstance(n, ast.FunctionDef)]
        if not helpers:
            continue
        by_name: Dict[str, List[ast.FunctionDef]] = {}
        for h in helpers:
            by_name.setdefault(h.name, []).append(h)
        for name, defs in by_name.items():
            if len(defs) != 1:
                continue  # defined twice (e.g. under if / else): left alone
            h = defs[0]
            if h.decorator_list or h.args.vararg or h.args.kwarg or _declares_nonlocal(h):
                continue
            # every use of the name in the enclosing scope (and in sibling helpers) is a direct call
            uses = [n for n in ast.walk(outer) if isinstance(n, ast.Name) and n.id == name and isinstance(n.ctx, ast.Load)]
            calls = [c for c in ast.walk(outer) if isinstance(c, ast.Call) and isinstance(c.func, ast.Name) and c.func.id == name]
            if len(uses) != len(calls) or not calls:
                continue
            if any(any(isinstance(a, ast.Starred) for a in c.args) or any(k.arg is None for k in c.keywords) for c in calls):
                continue
            # recursion is left alone
            if any(any(c is x for x in ast.walk(h)) for c in calls):
                continue
            params = {x.arg for x in h.args.args + h.args.kwonlyargs + h.args.posonlyargs}
            captured = sorted(v for v in _free_reads(h) if v in outer_bound and v not in params and v not in _BUILTINS and v != name and v not in by_name)
            if not captured:
                continue
            # calls made from another nested scope would need that scope to capture too: only lift when all
            # calls sit in the enclosing function's own scope
            own_ids = {id(x) for x in own}
            if not all(id(c) in own_ids for c in calls):
                continue
            h._lifted = tuple(captured)
            for v in captured:
                h.args.kwonlyargs.append(ast.arg(arg=v, annotation=None))
                h.args.kw_defaults.append(None)
            for c in calls:
                have = {k.arg for k in c.keywords}
                for v in captured:
                    if v not in have:
                        kw = ast.keyword(arg=v, value=ast.Name(id=v, ctx=ast.Load()))
                        ast.copy_location(kw.value, c)
                        ast.copy_location(kw, c) if hasattr(kw, "lineno") else None
                        c.keywords.append(kw)
            lifted += 1
    if lifted:
        ast.fix_missing_locations(tree)
    return lifted


def unroll_table_loops(tree: ast.Module) -> int:
    import copy

    def literal_row(e, n):
        return isinstance(e, (ast.Tuple, ast.List)) and len(e.elts) == n and all(isinstance(x, (ast.Constant, ast.Name, ast.Attribute)) for x in e.elts)

    count = 0

    class U(ast.NodeTransformer):
        def visit_For(self, node):
            nonlocal count
            self.generic_visit(node)
            it, tg = node.iter, node.target
            if (
                isinstance(it, (ast.Tuple, ast.List))
                and 1 <= len(it.elts) <= 8
                and isinstance(tg, (ast.Tuple, ast.List))
                and len(tg.elts) >= 2
                and all(isinstance(x, ast.Name) for x in tg.elts)
                and all(literal_row(e, len(tg.elts)) for e in it.elts)
                and not node.orelse
                and not any(isinstance(x, (ast.Break, ast.Continue)) for b in node.body for x in ast.walk(b))
            ):
                tnames = {x.id for x in tg.elts}
                if any(isinstance(x, ast.Name) and x.id in tnames for e in it.elts for x in ast.walk(e)):
                    return node
                out = []
                for e in it.elts:
                    a = ast.Assign(targets=[copy.deepcopy(tg)], value=ast.Tuple(elts=[copy.deepcopy(x) for x in e.elts], ctx=ast.Load()), type_comment=None)
                    ast.copy_location(a, e)
                    ast.copy_location(a.value, e)
                    a._unrolled = True
                    out.append(a)
                    out.extend(copy.deepcopy(node.body))
                count += 1
                return out
            return node

    U().visit(tree)
    if count:
        ast.fix_missing_locations(tree)
    return count


def counted_while_to_for(tree: ast.Module) -> int:
    import copy

    count = 0
    MUTATORS = {"append", "pop", "insert", "extend", "remove", "clear", "add", "discard", "update", "popitem", "setdefault", "sort", "reverse"}

    def rewrite_block(block, fn_node):
        nonlocal count
        out = []
        for k, st in enumerate(block):
            # recurse first
            for fld in ("body", "orelse", "finalbody"):
                sub = getattr(st, fld, None)
                if isinstance(sub, list) and sub and isinstance(sub[0], ast.stmt) and not isinstance(st, (ast.FunctionDef, ast.AsyncFunctionDef, ast.ClassDef)):
                    setattr(st, fld, rewrite_block(sub, fn_node))
            for h in getattr(st, "handlers", []) or []:
                h.body = rewrite_block(h.body, fn_node)
            new = None
            if isinstance(st, ast.While) and not st.orelse and st.body:
                t = st.test
                idx = bound = None
                if isinstance(t, ast.Compare) and len(t.ops) == 1:
                    l, r = t.left, t.comparators[0]
                    if isinstance(t.ops[0], ast.Lt) and isinstance(l, ast.Name):
                        idx, bound = l.id, r
                    elif isinstance(t.ops[0], ast.Gt) and isinstance(r, ast.Name):
                        idx, bound = r.id, l
                    elif isinstance(t.ops[0], ast.NotEq) and isinstance(l, ast.Name):
                        idx, bound = l.id, r
                last = st.body[-1]
                inc_ok = False
                if idx is not None:
                    if isinstance(last, ast.AugAssign) and isinstance(last.op, ast.Add) and isinstance(last.target, ast.Name) and last.target.id == idx and isinstance(last.value, ast.Constant) and last.value.value == 1:
                        inc_ok = True
                    elif isinstance(last, ast.Assign) and len(last.targets) == 1 and isinstance(last.targets[0], ast.Name) and last.targets[0].id == idx and isinstance(last.value, ast.BinOp) and isinstance(last.value.op, ast.Add):
                        a, b = last.value.left, last.value.right
                        if (isinstance(a, ast.Name) and a.id == idx and isinstance(b, ast.Constant) and b.value == 1) or (isinstance(b, ast.Name) and b.id == idx and isinstance(a, ast.Constant) and a.value == 1):
                            inc_ok = True
                if inc_ok:
                    body = st.body[:-1]
                    inner = [n for b in body for n in ast.walk(b)]
                    bound_names = {n.id for n in ast.walk(bound) if isinstance(n, ast.Name)}
                    ok = bool(body)
                    ok = ok and not any(isinstance(n, ast.Continue) for n in inner)
                    ok = ok and not any(isinstance(n, ast.Name) and n.id == idx and isinstance(n.ctx, (ast.Store, ast.Del)) for n in inner)
                    ok = ok and not any(isinstance(n, ast.Name) and n.id in bound_names and isinstance(n.ctx, (ast.Store, ast.Del)) for n in inner)
                    ok = ok and not any(isinstance(n, ast.Call) and isinstance(n.func, ast.Attribute) and n.func.attr in MUTATORS and isinstance(n.func.value, ast.Name) and n.func.value.id in bound_names for n in inner)
                    ok = ok and not any(isinstance(n, (ast.FunctionDef, ast.Lambda, ast.Yield, ast.YieldFrom)) for n in inner)
                    ok = ok and isinstance(t.ops[0], (ast.Lt, ast.Gt))  # `!=` only terminates the same way for start <= bound: leave it
                    # the index must not be read after the loop (a for loop leaves N - 1, the while N)
                    if ok and fn_node is not None:
                        inside = {id(n) for n in ast.walk(st)}
                        reads_elsewhere = [n for n in ast.walk(fn_node) if isinstance(n, ast.Name) and n.id == idx and isinstance(n.ctx, ast.Load) and id(n) not in inside and getattr(n, "lineno", 0) > st.lineno]
                        ok = not reads_elsewhere
                    elif fn_node is None:
                        ok = False
                    if ok:
                        start = None
                        if k > 0 and isinstance(block[k - 1], ast.Assign) and len(block[k - 1].targets) == 1 and isinstance(block[k - 1].targets[0], ast.Name) and block[k - 1].targets[0].id == idx and isinstance(block[k - 1].value, ast.Constant) and isinstance(block[k - 1].value.value, int):
                            start = block[k - 1].value.value
                        args = [copy.deepcopy(bound)] if start == 0 else [ast.Constant(start) if start is not None else ast.Name(id=idx, ctx=ast.Load()), copy.deepcopy(bound)]
                        new = ast.For(target=ast.Name(id=idx, ctx=ast.Store()), iter=ast.Call(func=ast.Name(id="range", ctx=ast.Load()), args=args, keywords=[]), body=body, orelse=[], type_comment=None)
                        ast.copy_location(new, st)
                        new._from_while = True
                        count += 1
            out.append(new if new is not None else st)
        return out

    for fn in [n for n in ast.walk(tree) if isinstance(n, (ast.FunctionDef, ast.AsyncFunctionDef))]:
        fn.body = rewrite_block(fn.body, fn)
    if count:
        ast.fix_missing_locations(tree)
    return count


def append_loop_to_comprehension(tree: ast.Module) -> int:
    import copy

    count = 0

    def target_names(t):
        return {n.id for n in ast.walk(t) if isinstance(n, ast.Name)}

    def match_body(body, L):
        """(element, [conditions]) when the body only appends to L"""
        def is_append(st):
            return isinstance(st, ast.Expr) and isinstance(st.value, ast.Call) and isinstance(st.value.func, ast.Attribute) and st.value.func.attr == "append" and isinstance(st.value.func.value, ast.Name) and st.value.func.value.id == L and len(st.value.args) == 1 and not st.value.keywords

        conds = []
        rest = list(body)
        while len(rest) > 1 and isinstance(rest[0], ast.If) and not rest[0].orelse and len(rest[0].body) == 1 and isinstance(rest[0].body[0], ast.Continue):
            conds.append(ast.UnaryOp(op=ast.Not(), operand=copy.deepcopy(rest[0].test)))
            rest = rest[1:]
        if len(rest) == 1 and is_append(rest[0]):
            return rest[0].value.args[0], conds
        if len(rest) == 1 and isinstance(rest[0], ast.If) and not rest[0].orelse and len(rest[0].body) == 1 and is_append(rest[0].body[0]):
            return rest[0].body[0].value.args[0], conds + [copy.deepcopy(rest[0].test)]
        return None

    def simplify_not(c):
        # not (a == b) -> a != b, etc.
        if isinstance(c, ast.UnaryOp) and isinstance(c.op, ast.Not) and isinstance(c.operand, ast.Compare) and len(c.operand.ops) == 1:
            flip = {ast.Eq: ast.NotEq, ast.NotEq: ast.Eq, ast.In: ast.NotIn, ast.NotIn: ast.In, ast.Is: ast.IsNot, ast.IsNot: ast.Is, ast.Lt: ast.GtE, ast.GtE: ast.Lt, ast.Gt: ast.LtE, ast.LtE: ast.Gt}
            op = type(c.operand.ops[0])
            if op in flip and op in (ast.Eq, ast.NotEq, ast.In, ast.NotIn, ast.Is, ast.IsNot):
                return ast.Compare(left=c.operand.left, ops=[flip[op]()], comparators=c.operand.comparators)
        return c

    def rewrite_block(block, fn_node):
        nonlocal count
        out = []
        k = 0
        while k < len(block):
            st = block[k]
            for fld in ("body", "orelse", "finalbody"):
                sub = getattr(st, fld, None)
                if isinstance(sub, list) and sub and isinstance(sub[0], ast.stmt) and not isinstance(st, (ast.FunctionDef, ast.AsyncFunctionDef, ast.ClassDef)):
                    setattr(st, fld, rewrite_block(sub, fn_node))
            for h in getattr(st, "handlers", []) or []:
                h.body = rewrite_block(h.body, fn_node)
            nxt = block[k + 1] if k + 1 < len(block) else None
            done = False
            if (
                isinstance(st, ast.Assign)
                and len(st.targets) == 1
                and isinstance(st.targets[0], ast.Name)
                and ((isinstance(st.value, ast.List) and not st.value.elts) or (isinstance(st.value, ast.Call) and isinstance(st.value.func, ast.Name) and st.value.func.id == "list" and not st.value.args))
                and isinstance(nxt, ast.For)
                and not nxt.orelse
            ):
                L = st.targets[0].id
                m = match_body(nxt.body, L)
                tn = target_names(nxt.target)
                if m is not None and L not in tn and not any(isinstance(n, ast.Name) and n.id == L for n in ast.walk(nxt.iter)) and not any(isinstance(n, ast.Name) and n.id == L for n in ast.walk(m[0])) and not any(isinstance(n, ast.Name) and n.id == L for c in m[1] for n in ast.walk(c)):
                    inside = {id(n) for n in ast.walk(nxt)}
                    later_reads = [n for n in ast.walk(fn_node) if isinstance(n, ast.Name) and n.id in tn and isinstance(n.ctx, ast.Load) and id(n) not in inside and getattr(n, "lineno", 0) > nxt.lineno]
                    # a later read is harmless when the name is re-bound before it; keep it simple: require none
                    if not later_reads:
                        comp = ast.ListComp(elt=copy.deepcopy(m[0]), generators=[ast.comprehension(target=copy.deepcopy(nxt.target), iter=copy.deepcopy(nxt.iter), ifs=[simplify_not(c) for c in m[1]], is_async=0)])
                        new = ast.Assign(targets=[ast.Name(id=L, ctx=ast.Store())], value=comp, type_comment=None)
                        ast.copy_location(new, st)
                        ast.copy_location(comp, nxt)
                        new._from_append_loop = True
                        out.append(new)
                        count += 1
                        k += 2
                        done = True
            if not done:
                out.append(st)
                k += 1
        return out

    for fn in [n for n in ast.walk(tree) if isinstance(n, (ast.FunctionDef, ast.AsyncFunctionDef))]:
        fn.body = rewrite_block(fn.body, fn)
    if count:
        ast.fix_missing_locations(tree)
    return count
