"""Source normalisation applied to every parsed module before any analysis.

lambda lifting   A helper nested in a function that reads locals of the enclosing function
                 (a closure) gets those locals as explicit keyword-only parameters, and every
                 call passes them: `def h(a): return a * scale` ... `h(x)`  becomes
                 `def h(a, *, scale): ...` ... `h(x, scale=scale)`.  A closure reads its free
                 variables when it is *called*, so passing their values at the call is the same
                 program; the analyses then see the data flow through ordinary parameter binding
                 (extracting a local helper is the most common clean-up refactoring, and none of
                 the per-function analyses should change its verdict because of it).
                 Only helpers that are always called directly (never used as a value), take no
                 *args / **kwargs, are not decorated, and do not re-bind the captured name are
                 lifted; everything else is left as it is.

table unrolling  `for k, f in (("a", fa), ("b", fb)): BODY` over a *literal* table of literal rows
                 (at most 8 rows, constants / names only, no break / continue / else) is replaced by
                 `k, f = "a", fa; BODY; k, f = "b", fb; BODY`: the same program, and a table-driven
                 dispatch then reads like the if / elif chain it replaces.  Loops over a flat literal
                 list (the backends' registration loops) are left alone.

counted while    `i = 0; while i < N: BODY; i += 1` (the increment is the last statement of the body, `i`
                 is not written elsewhere in the body, the body has no `continue`, nothing in it rebinds
                 or resizes what N reads, and `i` is not read after the loop) is the loop
                 `for i in range(0, N): BODY`.  Index loops written either way get the same analysis.

append loops     `L = []` directly followed by `for x in IT: L.append(E)` -- optionally guarded by
                 `if c: L.append(E)` or `if c: continue` before the append -- is the comprehension
                 `L = [E for x in IT if ...]`, provided the loop variables are not read after the loop and
                 the body does nothing else.

dict dispatch    `D = {"a": fa, "b": lambda: E}` (a local bound once to a literal with constant keys, never
                 mutated) used as `return D[k](ARGS)` / `T = D[k](ARGS)` / `f = D[k]` ... `return f(ARGS)`
                 is the chain `if k == "a": return fa(ARGS) elif k == "b": return E else: raise KeyError(k)`.

lookup with default   `vars(x)` is `x.__dict__`; `if k in m: return m[k]` followed by `return d` (or the
                 else-branch / negated forms, or `m[k] if k in m else d`) is `m.get(k, d)` when d is a
                 plain name / attribute / constant (evaluating it early changes nothing).

membership search   `for x in S: if x == k: break` with an `else:` suite E (and nothing else in the body, x not
                 read afterwards) is `if k not in S: E`.

keyword splat    `opts = dict(a=x, b=y)` (or `{"a": x, "b": y}`), bound once and never mutated, used as
                 `f(..., **opts)`: the call is `f(..., a=x, b=y)` when the right-hand sides are plain names /
                 attributes / constants that are not re-bound between the definition and the call.

named conditions  `flag = <comparison / isinstance / and-or-not of such>` bound once, over parameters and
                 single-definition locals that are never re-bound, and only ever *read*: every read of `flag`
                 is the condition itself (`unconstrained = n_const is None` ... `if unconstrained:`).
"""

from __future__ import annotations

import ast
import builtins
from typing import Dict, List, Set

_BUILTINS = set(dir(builtins))


def _own_nodes(fn):
    """nodes of fn's own scope (nested function / class / lambda bodies excluded; their headers included)"""
    out = []
    stack = list(fn.body)
    while stack:
        n = stack.pop()
        out.append(n)
        if isinstance(n, (ast.FunctionDef, ast.AsyncFunctionDef, ast.ClassDef, ast.Lambda)):
            # decorators / defaults belong to the enclosing scope
            for d in getattr(n, "decorator_list", []):
                stack.append(d)
            a = getattr(n, "args", None)
            if a is not None:
                stack.extend(a.defaults)
                stack.extend([d for d in a.kw_defaults if d is not None])
            continue
        for c in ast.iter_child_nodes(n):
            stack.append(c)
    return out


def _bound_names(fn) -> Set[str]:
    """names bound in fn's own scope (parameters, assignment / loop / with / except / import targets, nested defs)"""
    a = fn.args
    names = {x.arg for x in a.args + a.kwonlyargs + a.posonlyargs}
    if a.vararg:
        names.add(a.vararg.arg)
    if a.kwarg:
        names.add(a.kwarg.arg)
    for n in _own_nodes(fn):
        if isinstance(n, ast.Name) and isinstance(n.ctx, (ast.Store, ast.Del)):
            names.add(n.id)
        elif isinstance(n, (ast.FunctionDef, ast.AsyncFunctionDef, ast.ClassDef)):
            names.add(n.name)
        elif isinstance(n, (ast.Import, ast.ImportFrom)):
            for al in n.names:
                names.add((al.asname or al.name).split(".")[0])
        elif isinstance(n, ast.ExceptHandler) and n.name:
            names.add(n.name)
    return names


def _free_reads(fn) -> Set[str]:
    """names read in fn (own scope and nested scopes) that fn does not bind itself"""
    bound = _bound_names(fn)
    reads = set()
    for n in _own_nodes(fn):
        if isinstance(n, ast.Name) and isinstance(n.ctx, ast.Load) and n.id not in bound:
            reads.add(n.id)
        elif isinstance(n, (ast.FunctionDef, ast.AsyncFunctionDef)):
            reads |= {x for x in _free_reads(n) if x not in bound}
        elif isinstance(n, ast.Lambda):
            inner_bound = {x.arg for x in n.args.args + n.args.kwonlyargs + n.args.posonlyargs}
            for x in ast.walk(n.body):
                if isinstance(x, ast.Name) and isinstance(x.ctx, ast.Load) and x.id not in inner_bound and x.id not in bound:
                    reads.add(x.id)
    return reads


def _declares_nonlocal(fn) -> Set[str]:
    out = set()
    for n in _own_nodes(fn):
        if isinstance(n, (ast.Nonlocal, ast.Global)):
            out |= set(n.names)
    return out


def lambda_lift(tree: ast.Module) -> int:
    """in place; returns the number of helpers lifted"""
    lifted = 0
    for outer in [n for n in ast.walk(tree) if isinstance(n, (ast.FunctionDef, ast.AsyncFunctionDef))]:
        outer_bound = _bound_names(outer)
        own = _own_nodes(outer)
        helpers = [n for n in own if isinstance(n, ast.FunctionDef)]
        if not helpers:
            continue
        by_name: Dict[str, List[ast.FunctionDef]] = {}
        for h in helpers:
            by_name.setdefault(h.name, []).append(h)
        for name, defs in by_name.items():
            if len(defs) != 1:
                continue  # defined twice (e.g. under if / else): left alone
            h = defs[0]
            if h.decorator_list or h.args.vararg or h.args.kwarg or _declares_nonlocal(h):
                continue
            # every use of the name in the enclosing scope (and in sibling helpers) is a direct call
            uses = [n for n in ast.walk(outer) if isinstance(n, ast.Name) and n.id == name and isinstance(n.ctx, ast.Load)]
            calls = [c for c in ast.walk(outer) if isinstance(c, ast.Call) and isinstance(c.func, ast.Name) and c.func.id == name]
            if len(uses) != len(calls) or not calls:
                continue
            if any(any(isinstance(a, ast.Starred) for a in c.args) or any(k.arg is None for k in c.keywords) for c in calls):
                continue
            # recursion is left alone
            if any(any(c is x for x in ast.walk(h)) for c in calls):
                continue
            params = {x.arg for x in h.args.args + h.args.kwonlyargs + h.args.posonlyargs}
            captured = sorted(v for v in _free_reads(h) if v in outer_bound and v not in params and v not in _BUILTINS and v != name and v not in by_name)
            if not captured:
                continue
            # calls made from another nested scope would need that scope to capture too: only lift when all
            # calls sit in the enclosing function's own scope
            own_ids = {id(x) for x in own}
            if not all(id(c) in own_ids for c in calls):
                continue
            h._lifted = tuple(captured)
            for v in captured:
                h.args.kwonlyargs.append(ast.arg(arg=v, annotation=None))
                h.args.kw_defaults.append(None)
            for c in calls:
                have = {k.arg for k in c.keywords}
                for v in captured:
                    if v not in have:
                        kw = ast.keyword(arg=v, value=ast.Name(id=v, ctx=ast.Load()))
                        ast.copy_location(kw.value, c)
                        ast.copy_location(kw, c) if hasattr(kw, "lineno") else None
                        c.keywords.append(kw)
            lifted += 1
    if lifted:
        ast.fix_missing_locations(tree)
    return lifted


def unroll_table_loops(tree: ast.Module) -> int:
    import copy

    def literal_row(e, n):
        return isinstance(e, (ast.Tuple, ast.List)) and len(e.elts) == n and all(isinstance(x, (ast.Constant, ast.Name, ast.Attribute)) for x in e.elts)

    count = 0
    # a table bound to a local first: `rows = (("a", fa), ("b", fb))` ... `for k, f in rows:`
    named_tables = {}
    for fn in [n for n in ast.walk(tree) if isinstance(n, (ast.FunctionDef, ast.AsyncFunctionDef))]:
        stores = {}
        for n in ast.walk(fn):
            if isinstance(n, ast.Name) and isinstance(n.ctx, (ast.Store, ast.Del)):
                stores[n.id] = stores.get(n.id, 0) + 1
        for st in ast.walk(fn):
            if isinstance(st, ast.Assign) and len(st.targets) == 1 and isinstance(st.targets[0], ast.Name) and stores.get(st.targets[0].id) == 1 and isinstance(st.value, (ast.Tuple, ast.List)) and st.value.elts and all(isinstance(e, (ast.Tuple, ast.List)) for e in st.value.elts):
                nm = st.targets[0].id
                mutated = any(isinstance(c, ast.Call) and isinstance(c.func, ast.Attribute) and isinstance(c.func.value, ast.Name) and c.func.value.id == nm for c in ast.walk(fn))
                if not mutated:
                    named_tables[(id(fn), nm)] = st.value
    owner = {}
    for fn in [n for n in ast.walk(tree) if isinstance(n, (ast.FunctionDef, ast.AsyncFunctionDef))]:
        for n in ast.walk(fn):
            if isinstance(n, ast.For):
                owner[id(n)] = fn  # ast.walk lists enclosing functions first: the innermost one wins

    class U(ast.NodeTransformer):
        def visit_For(self, node):
            nonlocal count
            self.generic_visit(node)
            it, tg = node.iter, node.target
            if isinstance(it, ast.Name):
                fn = owner.get(id(node))
                if fn is not None and (id(fn), it.id) in named_tables:
                    it = named_tables[(id(fn), it.id)]
            # `for m in (0, 2): BODY` over a few integer literals: BODY with the literal in place of m
            if (
                isinstance(it, (ast.Tuple, ast.List))
                and 1 <= len(it.elts) <= 4
                and all(isinstance(e, ast.Constant) and isinstance(e.value, int) and not isinstance(e.value, bool) for e in it.elts)
                and isinstance(tg, ast.Name)
                and not node.orelse
                and not any(isinstance(x, (ast.Break, ast.Continue)) for b in node.body for x in ast.walk(b))
                and not any(isinstance(x, ast.Name) and x.id == tg.id and isinstance(x.ctx, (ast.Store, ast.Del)) for b in node.body for x in ast.walk(b))
                and not any(isinstance(x, (ast.FunctionDef, ast.Lambda)) for b in node.body for x in ast.walk(b))
            ):
                out = []
                for e in it.elts:
                    class S(ast.NodeTransformer):
                        def visit_Name(self, n, _e=e):
                            if n.id == tg.id and isinstance(n.ctx, ast.Load):
                                return ast.copy_location(ast.Constant(_e.value), n)
                            return n

                    out.extend(S().visit(copy.deepcopy(b)) for b in node.body)
                keep = ast.Assign(targets=[ast.Name(id=tg.id, ctx=ast.Store())], value=ast.Constant(it.elts[-1].value), type_comment=None)
                ast.copy_location(keep, node)
                out.append(keep)  # the loop variable keeps its last value
                count += 1
                return out
            # `for data in (X, y): BODY` over a few plain names: BODY with the name in place of the loop variable
            if (
                isinstance(it, (ast.Tuple, ast.List))
                and 2 <= len(it.elts) <= 4
                and all(isinstance(e, ast.Name) for e in it.elts)
                and isinstance(tg, ast.Name)
                and not node.orelse
                and not any(isinstance(x, (ast.Break, ast.Continue)) for b in node.body for x in ast.walk(b))
                and not any(isinstance(x, ast.Name) and (x.id == tg.id or x.id in {e.id for e in it.elts}) and isinstance(x.ctx, (ast.Store, ast.Del)) for b in node.body for x in ast.walk(b))
                and not any(isinstance(x, (ast.FunctionDef, ast.Lambda)) for b in node.body for x in ast.walk(b))
            ):
                fn = owner.get(id(node))
                inside = {id(x) for x in ast.walk(node)}
                read_outside = fn is None or any(isinstance(x, ast.Name) and x.id == tg.id and id(x) not in inside for x in ast.walk(fn))
                if not read_outside:
                    out = []
                    for e in it.elts:
                        class S3(ast.NodeTransformer):
                            def visit_Name(self, n, _e=e):
                                if n.id == tg.id and isinstance(n.ctx, ast.Load):
                                    return ast.copy_location(ast.Name(id=_e.id, ctx=ast.Load()), n)
                                return n

                        out.extend(S3().visit(copy.deepcopy(b)) for b in node.body)
                    count += 1
                    return out
            # a search over a literal table: `for k, f in T: if x == k: A(f); break` + `else: E` is the
            # if / elif chain over the rows with E as its final else
            if (
                isinstance(it, (ast.Tuple, ast.List))
                and 1 <= len(it.elts) <= 8
                and isinstance(tg, (ast.Tuple, ast.List))
                and len(tg.elts) >= 2
                and all(isinstance(x, ast.Name) for x in tg.elts)
                and all(literal_row(e, len(tg.elts)) for e in it.elts)
                and len(node.body) == 1
                and isinstance(node.body[0], ast.If)
                and not node.body[0].orelse
                and node.body[0].body
                and isinstance(node.body[0].body[-1], ast.Break)
                and not any(isinstance(x, (ast.Break, ast.Continue, ast.FunctionDef, ast.Lambda)) for b in node.body[0].body[:-1] for x in ast.walk(b))
                and not any(isinstance(x, (ast.Break, ast.Continue)) for b in node.orelse for x in ast.walk(b))
            ):
                tnames = [x.id for x in tg.elts]
                fn = owner.get(id(node))
                inside = {id(x) for x in ast.walk(node)}
                clash = any(isinstance(x, ast.Name) and x.id in tnames for e in it.elts for x in ast.walk(e))
                stored = any(isinstance(x, ast.Name) and x.id in tnames and isinstance(x.ctx, (ast.Store, ast.Del)) for b in node.body for x in ast.walk(b))
                outside = fn is None or any(isinstance(x, ast.Name) and x.id in tnames and id(x) not in inside for x in ast.walk(fn))
                if not (clash or stored or outside):
                    chain = list(node.orelse)
                    for e in reversed(it.elts):
                        row = dict(zip(tnames, e.elts))

                        class S2(ast.NodeTransformer):
                            def visit_Name(self, n, _row=row):
                                if n.id in _row and isinstance(n.ctx, ast.Load):
                                    return ast.copy_location(copy.deepcopy(_row[n.id]), n)
                                return n

                        arm = ast.If(test=S2().visit(copy.deepcopy(node.body[0].test)), body=[S2().visit(copy.deepcopy(b)) for b in node.body[0].body[:-1]] or [ast.Pass()], orelse=chain)
                        ast.copy_location(arm, node)
                        chain = [arm]
                    count += 1
                    return chain
            if (
                isinstance(it, (ast.Tuple, ast.List))
                and 1 <= len(it.elts) <= 8
                and isinstance(tg, (ast.Tuple, ast.List))
                and len(tg.elts) >= 2
                and all(isinstance(x, ast.Name) for x in tg.elts)
                and all(literal_row(e, len(tg.elts)) for e in it.elts)
                and not node.orelse
                and not any(isinstance(x, (ast.Break, ast.Continue)) for b in node.body for x in ast.walk(b))
            ):
                tnames = {x.id for x in tg.elts}
                if any(isinstance(x, ast.Name) and x.id in tnames for e in it.elts for x in ast.walk(e)):
                    return node
                out = []
                for e in it.elts:
                    a = ast.Assign(targets=[copy.deepcopy(tg)], value=ast.Tuple(elts=[copy.deepcopy(x) for x in e.elts], ctx=ast.Load()), type_comment=None)
                    ast.copy_location(a, e)
                    ast.copy_location(a.value, e)
                    a._unrolled = True
                    out.append(a)
                    out.extend(copy.deepcopy(node.body))
                count += 1
                return out
            return node

    U().visit(tree)
    if count:
        ast.fix_missing_locations(tree)
    return count


def counted_while_to_for(tree: ast.Module) -> int:
    import copy

    count = 0
    MUTATORS = {"append", "pop", "insert", "extend", "remove", "clear", "add", "discard", "update", "popitem", "setdefault", "sort", "reverse"}

    def rewrite_block(block, fn_node):
        nonlocal count
        out = []
        for k, st in enumerate(block):
            # recurse first
            for fld in ("body", "orelse", "finalbody"):
                sub = getattr(st, fld, None)
                if isinstance(sub, list) and sub and isinstance(sub[0], ast.stmt) and not isinstance(st, (ast.FunctionDef, ast.AsyncFunctionDef, ast.ClassDef)):
                    setattr(st, fld, rewrite_block(sub, fn_node))
            for h in getattr(st, "handlers", []) or []:
                h.body = rewrite_block(h.body, fn_node)
            new = None
            if isinstance(st, ast.While) and not st.orelse and st.body:
                t = st.test
                idx = bound = None
                if isinstance(t, ast.Compare) and len(t.ops) == 1:
                    l, r = t.left, t.comparators[0]
                    if isinstance(t.ops[0], ast.Lt) and isinstance(l, ast.Name):
                        idx, bound = l.id, r
                    elif isinstance(t.ops[0], ast.Gt) and isinstance(r, ast.Name):
                        idx, bound = r.id, l
                    elif isinstance(t.ops[0], ast.NotEq) and isinstance(l, ast.Name):
                        idx, bound = l.id, r
                    # counting down: while i >= c: ...; i -= 1
                    down = None
                    if isinstance(t.ops[0], (ast.GtE, ast.Gt)) and isinstance(l, ast.Name):
                        down = (l.id, r, isinstance(t.ops[0], ast.GtE))
                    elif isinstance(t.ops[0], (ast.LtE, ast.Lt)) and isinstance(r, ast.Name):
                        down = (r.id, l, isinstance(t.ops[0], ast.LtE))
                    last_ = st.body[-1]
                    if down is not None and isinstance(last_, ast.AugAssign) and isinstance(last_.op, ast.Sub) and isinstance(last_.target, ast.Name) and last_.target.id == down[0] and isinstance(last_.value, ast.Constant) and last_.value.value == 1:
                        didx, dbound, inclusive = down
                        body = st.body[:-1]
                        inner = [n for b in body for n in ast.walk(b)]
                        bound_names = {n.id for n in ast.walk(dbound) if isinstance(n, ast.Name)}
                        ok = bool(body) and fn_node is not None
                        ok = ok and not any(isinstance(n, ast.Continue) for n in inner)
                        ok = ok and not any(isinstance(n, ast.Name) and (n.id == didx or n.id in bound_names) and isinstance(n.ctx, (ast.Store, ast.Del)) for n in inner)
                        ok = ok and not any(isinstance(n, (ast.FunctionDef, ast.Lambda, ast.Yield, ast.YieldFrom)) for n in inner)
                        if ok:
                            inside = {id(n) for n in ast.walk(st)}
                            ok = not [n for n in ast.walk(fn_node) if isinstance(n, ast.Name) and n.id == didx and isinstance(n.ctx, ast.Load) and id(n) not in inside and getattr(n, "lineno", 0) > st.lineno]
                        if ok:
                            stop = ast.BinOp(left=copy.deepcopy(dbound), op=ast.Sub(), right=ast.Constant(1)) if inclusive else copy.deepcopy(dbound)
                            if inclusive and isinstance(dbound, ast.Constant) and isinstance(dbound.value, int):
                                stop = ast.UnaryOp(op=ast.USub(), operand=ast.Constant(1 - dbound.value)) if dbound.value - 1 < 0 else ast.Constant(dbound.value - 1)
                            new = ast.For(target=ast.Name(id=didx, ctx=ast.Store()), iter=ast.Call(func=ast.Name(id="range", ctx=ast.Load()), args=[ast.Name(id=didx, ctx=ast.Load()), stop, ast.UnaryOp(op=ast.USub(), operand=ast.Constant(1))], keywords=[]), body=body, orelse=[], type_comment=None)
                            ast.copy_location(new, st)
                            new._from_while = True
                            count += 1
                            out.append(new)
                            continue
                last = st.body[-1]
                inc_ok = False
                if idx is not None:
                    if isinstance(last, ast.AugAssign) and isinstance(last.op, ast.Add) and isinstance(last.target, ast.Name) and last.target.id == idx and isinstance(last.value, ast.Constant) and last.value.value == 1:
                        inc_ok = True
                    elif isinstance(last, ast.Assign) and len(last.targets) == 1 and isinstance(last.targets[0], ast.Name) and last.targets[0].id == idx and isinstance(last.value, ast.BinOp) and isinstance(last.value.op, ast.Add):
                        a, b = last.value.left, last.value.right
                        if (isinstance(a, ast.Name) and a.id == idx and isinstance(b, ast.Constant) and b.value == 1) or (isinstance(b, ast.Name) and b.id == idx and isinstance(a, ast.Constant) and a.value == 1):
                            inc_ok = True
                if inc_ok:
                    body = st.body[:-1]
                    inner = [n for b in body for n in ast.walk(b)]
                    bound_names = {n.id for n in ast.walk(bound) if isinstance(n, ast.Name)}
                    ok = bool(body)
                    ok = ok and not any(isinstance(n, ast.Continue) for n in inner)
                    ok = ok and not any(isinstance(n, ast.Name) and n.id == idx and isinstance(n.ctx, (ast.Store, ast.Del)) for n in inner)
                    ok = ok and not any(isinstance(n, ast.Name) and n.id in bound_names and isinstance(n.ctx, (ast.Store, ast.Del)) for n in inner)
                    ok = ok and not any(isinstance(n, ast.Call) and isinstance(n.func, ast.Attribute) and n.func.attr in MUTATORS and isinstance(n.func.value, ast.Name) and n.func.value.id in bound_names for n in inner)
                    ok = ok and not any(isinstance(n, (ast.FunctionDef, ast.Lambda, ast.Yield, ast.YieldFrom)) for n in inner)
                    ok = ok and isinstance(t.ops[0], (ast.Lt, ast.Gt))  # `!=` only terminates the same way for start <= bound: leave it
                    # the index must not be read after the loop (a for loop leaves N - 1, the while N)
                    if ok and fn_node is not None:
                        inside = {id(n) for n in ast.walk(st)}
                        reads_elsewhere = [n for n in ast.walk(fn_node) if isinstance(n, ast.Name) and n.id == idx and isinstance(n.ctx, ast.Load) and id(n) not in inside and getattr(n, "lineno", 0) > st.lineno]
                        ok = not reads_elsewhere
                    elif fn_node is None:
                        ok = False
                    if ok:
                        start = None
                        if k > 0 and isinstance(block[k - 1], ast.Assign) and len(block[k - 1].targets) == 1 and isinstance(block[k - 1].targets[0], ast.Name) and block[k - 1].targets[0].id == idx and isinstance(block[k - 1].value, ast.Constant) and isinstance(block[k - 1].value.value, int):
                            start = block[k - 1].value.value
                        args = [copy.deepcopy(bound)] if start == 0 else [ast.Constant(start) if start is not None else ast.Name(id=idx, ctx=ast.Load()), copy.deepcopy(bound)]
                        new = ast.For(target=ast.Name(id=idx, ctx=ast.Store()), iter=ast.Call(func=ast.Name(id="range", ctx=ast.Load()), args=args, keywords=[]), body=body, orelse=[], type_comment=None)
                        ast.copy_location(new, st)
                        new._from_while = True
                        count += 1
            out.append(new if new is not None else st)
        return out

    for fn in [n for n in ast.walk(tree) if isinstance(n, (ast.FunctionDef, ast.AsyncFunctionDef))]:
        fn.body = rewrite_block(fn.body, fn)
    if count:
        ast.fix_missing_locations(tree)
    return count


def append_loop_to_comprehension(tree: ast.Module) -> int:
    import copy

    count = 0

    def target_names(t):
        return {n.id for n in ast.walk(t) if isinstance(n, ast.Name)}

    def match_body(body, L):
        """(element, [conditions]) when the body only appends to L"""
        def is_append(st):
            return isinstance(st, ast.Expr) and isinstance(st.value, ast.Call) and isinstance(st.value.func, ast.Attribute) and st.value.func.attr == "append" and isinstance(st.value.func.value, ast.Name) and st.value.func.value.id == L and len(st.value.args) == 1 and not st.value.keywords

        conds = []
        rest = list(body)
        while len(rest) > 1 and isinstance(rest[0], ast.If) and not rest[0].orelse and len(rest[0].body) == 1 and isinstance(rest[0].body[0], ast.Continue):
            conds.append(ast.UnaryOp(op=ast.Not(), operand=copy.deepcopy(rest[0].test)))
            rest = rest[1:]
        if len(rest) == 1 and is_append(rest[0]):
            return rest[0].value.args[0], conds
        if len(rest) == 1 and isinstance(rest[0], ast.If) and not rest[0].orelse and len(rest[0].body) == 1 and is_append(rest[0].body[0]):
            return rest[0].body[0].value.args[0], conds + [copy.deepcopy(rest[0].test)]
        return None

    def simplify_not(c):
        # not (a == b) -> a != b, etc.
        if isinstance(c, ast.UnaryOp) and isinstance(c.op, ast.Not) and isinstance(c.operand, ast.Compare) and len(c.operand.ops) == 1:
            flip = {ast.Eq: ast.NotEq, ast.NotEq: ast.Eq, ast.In: ast.NotIn, ast.NotIn: ast.In, ast.Is: ast.IsNot, ast.IsNot: ast.Is, ast.Lt: ast.GtE, ast.GtE: ast.Lt, ast.Gt: ast.LtE, ast.LtE: ast.Gt}
            op = type(c.operand.ops[0])
            if op in flip and op in (ast.Eq, ast.NotEq, ast.In, ast.NotIn, ast.Is, ast.IsNot):
                return ast.Compare(left=c.operand.left, ops=[flip[op]()], comparators=c.operand.comparators)
        return c

    def rewrite_block(block, fn_node):
        nonlocal count
        out = []
        k = 0
        while k < len(block):
            st = block[k]
            for fld in ("body", "orelse", "finalbody"):
                sub = getattr(st, fld, None)
                if isinstance(sub, list) and sub and isinstance(sub[0], ast.stmt) and not isinstance(st, (ast.FunctionDef, ast.AsyncFunctionDef, ast.ClassDef)):
                    setattr(st, fld, rewrite_block(sub, fn_node))
            for h in getattr(st, "handlers", []) or []:
                h.body = rewrite_block(h.body, fn_node)
            nxt = block[k + 1] if k + 1 < len(block) else None
            done = False
            if (
                isinstance(st, ast.Assign)
                and len(st.targets) == 1
                and isinstance(st.targets[0], ast.Name)
                and ((isinstance(st.value, ast.List) and not st.value.elts) or (isinstance(st.value, ast.Call) and isinstance(st.value.func, ast.Name) and st.value.func.id == "list" and not st.value.args))
                and isinstance(nxt, ast.For)
                and not nxt.orelse
            ):
                L = st.targets[0].id
                m = match_body(nxt.body, L)
                tn = target_names(nxt.target)
                if m is not None and L not in tn and not any(isinstance(n, ast.Name) and n.id == L for n in ast.walk(nxt.iter)) and not any(isinstance(n, ast.Name) and n.id == L for n in ast.walk(m[0])) and not any(isinstance(n, ast.Name) and n.id == L for c in m[1] for n in ast.walk(c)):
                    inside = {id(n) for n in ast.walk(nxt)}
                    later_reads = [n for n in ast.walk(fn_node) if isinstance(n, ast.Name) and n.id in tn and isinstance(n.ctx, ast.Load) and id(n) not in inside and getattr(n, "lineno", 0) > nxt.lineno]
                    # a later read is harmless when it sits in a later loop / comprehension that binds the name itself
                    rebinders = [x for x in ast.walk(fn_node) if isinstance(x, (ast.For, ast.comprehension)) and x is not nxt and getattr(x, "lineno", getattr(getattr(x, "target", None), "lineno", 0)) > nxt.lineno]
                    covered = set()
                    for rb in rebinders:
                        bound = target_names(rb.target)
                        scope = rb if isinstance(rb, ast.For) else None
                        if scope is None:
                            # comprehension: reads of its own targets anywhere in the enclosing comprehension expression
                            for comp in ast.walk(fn_node):
                                if isinstance(comp, (ast.ListComp, ast.SetComp, ast.GeneratorExp, ast.DictComp)) and any(g is rb for g in comp.generators):
                                    scope = comp
                        if scope is not None:
                            for x in ast.walk(scope):
                                if isinstance(x, ast.Name) and x.id in bound:
                                    covered.add(id(x))
                    later_reads = [n for n in later_reads if id(n) not in covered]
                    if not later_reads:
                        comp = ast.ListComp(elt=copy.deepcopy(m[0]), generators=[ast.comprehension(target=copy.deepcopy(nxt.target), iter=copy.deepcopy(nxt.iter), ifs=[simplify_not(c) for c in m[1]], is_async=0)])
                        new = ast.Assign(targets=[ast.Name(id=L, ctx=ast.Store())], value=comp, type_comment=None)
                        ast.copy_location(new, st)
                        ast.copy_location(comp, nxt)
                        new._from_append_loop = True
                        out.append(new)
                        count += 1
                        k += 2
                        done = True
            if not done:
                out.append(st)
                k += 1
        return out

    for fn in [n for n in ast.walk(tree) if isinstance(n, (ast.FunctionDef, ast.AsyncFunctionDef))]:
        fn.body = rewrite_block(fn.body, fn)
    if count:
        ast.fix_missing_locations(tree)
    return count


def expand_dict_dispatch(tree: ast.Module) -> int:
    import copy

    count = 0

    def process(fn):
        nonlocal count
        stores = {}
        for n in ast.walk(fn):
            if isinstance(n, ast.Name) and isinstance(n.ctx, (ast.Store, ast.Del)):
                stores[n.id] = stores.get(n.id, 0) + 1
        tables = {}
        for st in ast.walk(fn):
            if isinstance(st, ast.Assign) and len(st.targets) == 1 and isinstance(st.targets[0], ast.Name) and stores.get(st.targets[0].id) == 1 and isinstance(st.value, ast.Dict) and st.value.keys and all(isinstance(k, ast.Constant) and isinstance(k.value, (str, int)) for k in st.value.keys) and all(isinstance(v, (ast.Name, ast.Attribute, ast.Lambda)) for v in st.value.values):
                nm = st.targets[0].id
                mutated = any(isinstance(c, ast.Call) and isinstance(c.func, ast.Attribute) and isinstance(c.func.value, ast.Name) and c.func.value.id == nm and c.func.attr not in ("get", "keys", "items", "values") for c in ast.walk(fn))
                stored_into = any(isinstance(x, ast.Subscript) and isinstance(x.ctx, (ast.Store, ast.Del)) and isinstance(x.value, ast.Name) and x.value.id == nm for x in ast.walk(fn))
                if not mutated and not stored_into:
                    tables[nm] = st.value
        if not tables:
            return
        # f = D[k] handles: single definition, used only as a callee
        handles = {}
        for st in ast.walk(fn):
            if isinstance(st, ast.Assign) and len(st.targets) == 1 and isinstance(st.targets[0], ast.Name) and stores.get(st.targets[0].id) == 1 and isinstance(st.value, ast.Subscript) and isinstance(st.value.value, ast.Name) and st.value.value.id in tables:
                h = st.targets[0].id
                loads = [n for n in ast.walk(fn) if isinstance(n, ast.Name) and n.id == h and isinstance(n.ctx, ast.Load)]
                callee_uses = [c for c in ast.walk(fn) if isinstance(c, ast.Call) and isinstance(c.func, ast.Name) and c.func.id == h]
                if len(loads) == 1 and len(callee_uses) == 1:
                    handles[h] = (st, st.value)

        def chain(dname, key, call, make):
            d = tables[dname]
            branches = []
            for k, v in zip(d.keys, d.values):
                if isinstance(v, ast.Lambda):
                    a = v.args
                    if a.kwonlyargs or a.vararg or a.kwarg or a.posonlyargs or call.keywords or a.defaults:
                        return None
                    if len(a.args) != len(call.args):
                        return None
                    simple = lambda e: isinstance(e, (ast.Name, ast.Constant)) or (isinstance(e, ast.Attribute) and simple(e.value))
                    if not all(simple(x) for x in call.args):
                        return None
                    sub = {p_.arg: x for p_, x in zip(a.args, call.args)}
                    if any(isinstance(x, (ast.Lambda, ast.NamedExpr)) for x in ast.walk(v.body)):
                        return None

                    class L(ast.NodeTransformer):
                        def visit_Name(self, n, _sub=sub):
                            if n.id in _sub and isinstance(n.ctx, ast.Load):
                                return ast.copy_location(copy.deepcopy(_sub[n.id]), n)
                            return n

                    val = L().visit(copy.deepcopy(v.body))  # (lambda t: E)(x)  ->  E[t := x]
                else:
                    val = ast.Call(func=copy.deepcopy(v), args=copy.deepcopy(call.args), keywords=copy.deepcopy(call.keywords))
                test = ast.Compare(left=copy.deepcopy(key), ops=[ast.Eq()], comparators=[copy.deepcopy(k)])
                branches.append((test, make(val)))
            tail = [ast.Raise(exc=ast.Call(func=ast.Name(id="KeyError", ctx=ast.Load()), args=[copy.deepcopy(key)], keywords=[]), cause=None)]
            node = None
            for test, body in reversed(branches):
                node = ast.If(test=test, body=[body], orelse=[node] if node is not None else tail)
            return node

        def rewrite_block(block):
            nonlocal count
            out = []
            for st in block:
                for fld in ("body", "orelse", "finalbody"):
                    sub = getattr(st, fld, None)
                    if isinstance(sub, list) and sub and isinstance(sub[0], ast.stmt) and not isinstance(st, (ast.FunctionDef, ast.AsyncFunctionDef, ast.ClassDef)):
                        setattr(st, fld, rewrite_block(sub))
                for h in getattr(st, "handlers", []) or []:
                    h.body = rewrite_block(h.body)
                # drop `f = D[k]` of a handle that is expanded at its call
                if isinstance(st, ast.Assign) and len(st.targets) == 1 and isinstance(st.targets[0], ast.Name) and st.targets[0].id in handles and handles[st.targets[0].id][0] is st:
                    continue
                call = make = None
                if isinstance(st, ast.Return) and isinstance(st.value, ast.Call):
                    call, make = st.value, (lambda v, st=st: ast.copy_location(ast.Return(value=v), st))
                elif isinstance(st, ast.Assign) and len(st.targets) == 1 and isinstance(st.value, ast.Call):
                    call, make = st.value, (lambda v, st=st: ast.copy_location(ast.Assign(targets=[copy.deepcopy(st.targets[0])], value=v, type_comment=None), st))
                elif isinstance(st, ast.Expr) and isinstance(st.value, ast.Call):
                    call, make = st.value, (lambda v, st=st: ast.copy_location(ast.Expr(value=v), st))
                new = None
                if call is not None:
                    f_ = call.func
                    if isinstance(f_, ast.Subscript) and isinstance(f_.value, ast.Name) and f_.value.id in tables:
                        new = chain(f_.value.id, f_.slice, call, make)
                    elif isinstance(f_, ast.Name) and f_.id in handles:
                        sub = handles[f_.id][1]
                        new = chain(sub.value.id, sub.slice, call, make)
                if new is not None:
                    ast.copy_location(new, st)
                    ast.fix_missing_locations(new)
                    new._from_dict_dispatch = True
                    out.append(new)
                    count += 1
                else:
                    if isinstance(st, ast.Assign) and len(st.targets) == 1 and isinstance(st.targets[0], ast.Name) and st.targets[0].id in handles:
                        pass
                    out.append(st)
            return out

        before = count
        new_body = rewrite_block(fn.body)
        # every handle must have been expanded, otherwise keep the function as it was
        fn.body = new_body
        still = [h for h in handles if any(isinstance(c, ast.Call) and isinstance(c.func, ast.Name) and c.func.id == h for c in ast.walk(fn))]
        if still:
            # put the dropped definitions back in front (rare: the call sat in an expression we do not rewrite)
            for h in still:
                st = handles[h][0]
                fn.body.insert(0, st)

    for fn in [n for n in ast.walk(tree) if isinstance(n, (ast.FunctionDef, ast.AsyncFunctionDef))]:
        process(fn)
    if count:
        ast.fix_missing_locations(tree)
    return count


def fold_dict_lookup(tree: ast.Module) -> int:
    import copy

    count = 0

    def plain(e):
        if isinstance(e, (ast.Name, ast.Constant)):
            return True
        return isinstance(e, ast.Attribute) and plain(e.value)

    def same(a, b):
        return ast.dump(a) == ast.dump(b)

    def membership(t):
        """(k, m, positive) for `k in m` / `k not in m` / `not (k in m)`"""
        neg = False
        while isinstance(t, ast.UnaryOp) and isinstance(t.op, ast.Not):
            t, neg = t.operand, not neg
        if isinstance(t, ast.Compare) and len(t.ops) == 1 and isinstance(t.ops[0], (ast.In, ast.NotIn)):
            pos = isinstance(t.ops[0], ast.In) != neg
            return t.left, t.comparators[0], pos
        return None

    def lookup_of(e, k, m):
        return isinstance(e, ast.Subscript) and same(e.value, m) and same(e.slice, k)

    def get_call(k, m, d, at):
        c = ast.Call(func=ast.Attribute(value=copy.deepcopy(m), attr="get", ctx=ast.Load()), args=[copy.deepcopy(k), copy.deepcopy(d)], keywords=[])
        return ast.copy_location(c, at)

    class V(ast.NodeTransformer):
        def visit_Call(self, n):
            nonlocal count
            self.generic_visit(n)
            if isinstance(n.func, ast.Name) and n.func.id == "vars" and len(n.args) == 1 and not n.keywords:
                count += 1
                return ast.copy_location(ast.Attribute(value=n.args[0], attr="__dict__", ctx=ast.Load()), n)
            return n

        def visit_IfExp(self, n):
            nonlocal count
            self.generic_visit(n)
            mm = membership(n.test)
            if mm is not None:
                k, m, pos = mm
                a, b = (n.body, n.orelse) if pos else (n.orelse, n.body)
                if lookup_of(a, k, m) and plain(b) and plain(m):
                    count += 1
                    return get_call(k, m, b, n)
            return n

    V().visit(tree)

    def rewrite_block(block):
        nonlocal count
        out = []
        i = 0
        while i < len(block):
            st = block[i]
            for fld in ("body", "orelse", "finalbody"):
                sub = getattr(st, fld, None)
                if isinstance(sub, list) and sub and isinstance(sub[0], ast.stmt):
                    setattr(st, fld, rewrite_block(sub))
            for h in getattr(st, "handlers", []) or []:
                h.body = rewrite_block(h.body)
            new = None
            used = 1
            if isinstance(st, ast.If) and len(st.body) == 1 and isinstance(st.body[0], ast.Return) and st.body[0].value is not None:
                mm = membership(st.test)
                nxt = block[i + 1] if i + 1 < len(block) else None
                other = None
                if len(st.orelse) == 1 and isinstance(st.orelse[0], ast.Return) and st.orelse[0].value is not None:
                    other = st.orelse[0].value
                elif not st.orelse and isinstance(nxt, ast.Return) and nxt.value is not None:
                    other = nxt.value
                    used = 2
                if mm is not None and other is not None:
                    k, m, pos = mm
                    hit, miss = (st.body[0].value, other) if pos else (other, st.body[0].value)
                    if lookup_of(hit, k, m) and plain(miss) and plain(m):
                        new = ast.copy_location(ast.Return(value=get_call(k, m, miss, st)), st)
            if new is not None:
                ast.fix_missing_locations(new)
                out.append(new)
                count += 1
                i += used
            else:
                out.append(st)
                i += 1
        return out

    for fn in [n for n in ast.walk(tree) if isinstance(n, (ast.FunctionDef, ast.AsyncFunctionDef))]:
        fn.body = rewrite_block(fn.body)
    if count:
        ast.fix_missing_locations(tree)
    return count


def search_loop_to_membership(tree: ast.Module) -> int:
    import copy

    count = 0

    def rewrite_block(block, fn_node):
        nonlocal count
        out = []
        for st in block:
            for fld in ("body", "orelse", "finalbody"):
                sub = getattr(st, fld, None)
                if isinstance(sub, list) and sub and isinstance(sub[0], ast.stmt) and not isinstance(st, (ast.FunctionDef, ast.AsyncFunctionDef, ast.ClassDef)):
                    setattr(st, fld, rewrite_block(sub, fn_node))
            for h in getattr(st, "handlers", []) or []:
                h.body = rewrite_block(h.body, fn_node)
            new = None
            if isinstance(st, ast.For) and st.orelse and isinstance(st.target, ast.Name) and len(st.body) == 1 and isinstance(st.body[0], ast.If) and not st.body[0].orelse and len(st.body[0].body) == 1 and isinstance(st.body[0].body[0], ast.Break):
                t = st.body[0].test
                x = st.target.id
                if isinstance(t, ast.Compare) and len(t.ops) == 1 and isinstance(t.ops[0], ast.Eq):
                    l, r = t.left, t.comparators[0]
                    key = r if (isinstance(l, ast.Name) and l.id == x) else (l if (isinstance(r, ast.Name) and r.id == x) else None)
                    if key is not None and not any(isinstance(n, ast.Name) and n.id == x for n in ast.walk(key)):
                        inside = {id(n) for n in ast.walk(st)}
                        later = [n for n in ast.walk(fn_node) if isinstance(n, ast.Name) and n.id == x and isinstance(n.ctx, ast.Load) and id(n) not in inside and getattr(n, "lineno", 0) > st.lineno]
                        if not later:
                            test = ast.Compare(left=copy.deepcopy(key), ops=[ast.NotIn()], comparators=[copy.deepcopy(st.iter)])
                            new = ast.If(test=test, body=st.orelse, orelse=[])
                            ast.copy_location(new, st)
                            ast.fix_missing_locations(new)
                            count += 1
            out.append(new if new is not None else st)
        return out

    for fn in [n for n in ast.walk(tree) if isinstance(n, (ast.FunctionDef, ast.AsyncFunctionDef))]:
        fn.body = rewrite_block(fn.body, fn)
    if count:
        ast.fix_missing_locations(tree)
    return count


def expand_keyword_splat(tree: ast.Module) -> int:
    import copy

    count = 0

    def plain(e):
        if isinstance(e, (ast.Name, ast.Constant)):
            return True
        return isinstance(e, ast.Attribute) and plain(e.value)

    for fn in [n for n in ast.walk(tree) if isinstance(n, (ast.FunctionDef, ast.AsyncFunctionDef))]:
        stores = {}
        for n in ast.walk(fn):
            if isinstance(n, ast.Name) and isinstance(n.ctx, (ast.Store, ast.Del)):
                stores[n.id] = stores.get(n.id, 0) + 1
        params = {a.arg for a in fn.args.args + fn.args.kwonlyargs + fn.args.posonlyargs}
        tables = {}
        for st in ast.walk(fn):
            if not (isinstance(st, ast.Assign) and len(st.targets) == 1 and isinstance(st.targets[0], ast.Name) and stores.get(st.targets[0].id) == 1 and st.targets[0].id not in params):
                continue
            v = st.value
            pairs = None
            if isinstance(v, ast.Call) and isinstance(v.func, ast.Name) and v.func.id == "dict" and not v.args and v.keywords and all(k.arg for k in v.keywords):
                pairs = [(k.arg, k.value) for k in v.keywords]
            elif isinstance(v, ast.Dict) and v.keys and all(isinstance(k, ast.Constant) and isinstance(k.value, str) and k.value.isidentifier() for k in v.keys):
                pairs = [(k.value, val) for k, val in zip(v.keys, v.values)]
            if pairs is None or not all(plain(val) for _, val in pairs):
                continue
            nm = st.targets[0].id
            # never mutated / aliased: only used as **nm
            uses = [n for n in ast.walk(fn) if isinstance(n, ast.Name) and n.id == nm and isinstance(n.ctx, ast.Load)]
            splats = [k.value for c in ast.walk(fn) if isinstance(c, ast.Call) for k in c.keywords if k.arg is None and isinstance(k.value, ast.Name) and k.value.id == nm]
            if not splats or len(uses) != len(splats):
                continue
            # the values must not be re-bound after the definition (parameters and single-definition locals only)
            roots = set()
            for _, val in pairs:
                r = val
                while isinstance(r, ast.Attribute):
                    r = r.value
                if isinstance(r, ast.Name):
                    roots.add(r.id)
            if any(stores.get(r, 0) > (0 if r in params else 1) for r in roots):
                continue
            tables[nm] = pairs
        if not tables:
            continue
        for c in ast.walk(fn):
            if not isinstance(c, ast.Call):
                continue
            new_kw = []
            changed = False
            for k in c.keywords:
                if k.arg is None and isinstance(k.value, ast.Name) and k.value.id in tables:
                    given = {x.arg for x in c.keywords if x.arg}
                    for name, val in tables[k.value.id]:
                        if name not in given:
                            new_kw.append(ast.copy_location(ast.keyword(arg=name, value=copy.deepcopy(val)), k))
                    changed = True
                else:
                    new_kw.append(k)
            if changed:
                c.keywords = new_kw
                count += 1
    if count:
        ast.fix_missing_locations(tree)
    return count


def inline_named_conditions(tree: ast.Module) -> int:
    import copy

    count = 0

    def is_condition(e):
        if isinstance(e, ast.Compare):
            return all(is_operand(x) for x in [e.left] + e.comparators)
        if isinstance(e, ast.BoolOp):
            return all(is_condition(v) or is_operand(v) for v in e.values) and any(is_condition(v) for v in e.values)
        if isinstance(e, ast.UnaryOp) and isinstance(e.op, ast.Not):
            return is_condition(e.operand)
        if isinstance(e, ast.Call) and isinstance(e.func, ast.Name) and e.func.id in ("isinstance", "callable") and not e.keywords:
            return all(is_operand(a) or isinstance(a, ast.Tuple) for a in e.args)
        return False

    def is_operand(e):
        if isinstance(e, (ast.Name, ast.Constant)):
            return True
        if isinstance(e, ast.Attribute):
            return is_operand(e.value)
        if isinstance(e, ast.Tuple):
            return all(is_operand(x) for x in e.elts)
        return False

    for fn in [n for n in ast.walk(tree) if isinstance(n, (ast.FunctionDef, ast.AsyncFunctionDef))]:
        stores = {}
        for n in ast.walk(fn):
            if isinstance(n, ast.Name) and isinstance(n.ctx, (ast.Store, ast.Del)):
                stores[n.id] = stores.get(n.id, 0) + 1
        params = {a.arg for a in fn.args.args + fn.args.kwonlyargs + fn.args.posonlyargs}
        flags = {}
        for st in fn.body if True else []:
            pass
        for st in ast.walk(fn):
            if isinstance(st, ast.Assign) and len(st.targets) == 1 and isinstance(st.targets[0], ast.Name) and stores.get(st.targets[0].id) == 1 and st.targets[0].id not in params and is_condition(st.value):
                roots = {n.id for n in ast.walk(st.value) if isinstance(n, ast.Name)}
                roots -= {"isinstance", "callable", "list", "tuple", "dict", "int", "float", "str", "bool", "set", "None", "True", "False"}
                if all((r in params and stores.get(r, 0) == 0) for r in roots if r in params or r in stores) and not any(r not in params and r in stores for r in roots):
                    flags[st.targets[0].id] = st
        if not flags:
            continue
        defs = {id(st.targets[0]) for st in flags.values()}

        class T(ast.NodeTransformer):
            def visit_Name(self, n):
                nonlocal count
                if isinstance(n.ctx, ast.Load) and n.id in flags and id(n) not in defs:
                    count += 1
                    return ast.copy_location(copy.deepcopy(flags[n.id].value), n)
                return n

            def visit_FunctionDef(self, n):
                if n is fn:
                    self.generic_visit(n)
                return n  # nested scopes keep their own view

            def visit_Lambda(self, n):
                return n

        T().visit(fn)
    if count:
        ast.fix_missing_locations(tree)
    return count


# ---------------------------------------------------------------------------------
# t = f(...); a = t.weights; b = t.factors   ->   a, b = f(...)
# ---------------------------------------------------------------------------------
# Every factorised-tensor class of the repository unpacks in the order of these attribute tuples (the
# wrapper rules of C03 check the constructors); a temporary that is read only through all of them,
# straight after the call, is the tuple assignment written out.
_FIELD_ORDERS = [("weights", "factors"), ("core", "factors"), ("weights", "factors", "projections")]


def unpack_by_attribute(tree: ast.Module) -> int:
    count = 0
    for fn in [n for n in ast.walk(tree) if isinstance(n, (ast.FunctionDef, ast.AsyncFunctionDef))]:
        uses = {}
        for n in ast.walk(fn):
            if isinstance(n, ast.Name):
                uses[n.id] = uses.get(n.id, 0) + 1
        for holder in ast.walk(fn):
            for fld in ("body", "orelse", "finalbody"):
                blk = getattr(holder, fld, None)
                if not (isinstance(blk, list) and blk and isinstance(blk[0], ast.stmt)):
                    continue
                i = 0
                while i < len(blk):
                    st = blk[i]
                    if isinstance(st, ast.Assign) and len(st.targets) == 1 and isinstance(st.targets[0], ast.Name) and isinstance(st.value, ast.Call):
                        t = st.targets[0].id
                        reads = []
                        j = i + 1
                        while j < len(blk):
                            r = blk[j]
                            if isinstance(r, ast.Assign) and len(r.targets) == 1 and isinstance(r.targets[0], ast.Name) and isinstance(r.value, ast.Attribute) and isinstance(r.value.value, ast.Name) and r.value.value.id == t and r.targets[0].id != t:
                                reads.append((r.value.attr, r.targets[0].id))
                                j += 1
                            else:
                                break
                        attrs = tuple(a for a, _ in reads)
                        order = next((o for o in _FIELD_ORDERS if sorted(o) == sorted(attrs)), None)
                        if order is not None and len(set(attrs)) == len(attrs) and uses.get(t, 0) == 1 + len(reads) and len({n for _, n in reads}) == len(reads):
                            by = dict(reads)
                            new = ast.Assign(targets=[ast.Tuple(elts=[ast.Name(id=by[a], ctx=ast.Store()) for a in order], ctx=ast.Store())], value=st.value, type_comment=None)
                            ast.copy_location(new, st)
                            ast.fix_missing_locations(new)
                            blk[i : j] = [new]
                            count += 1
                    i += 1
    return count


# ---------------------------------------------------------------------------------
# "look up, else default" written as control flow  ->  the lookup expression
# ---------------------------------------------------------------------------------
#   try: t = E.attr / except AttributeError: t = D          ->  t = getattr(E, "attr", D)
#   vars(E)                                                ->  E.__dict__
#   if "k" not in S: return D / return S["k"]              ->  return S.get("k", D)
#   if "k" in S: t = S["k"] / else: t = D                  ->  t = S.get("k", D)
#   S["k"] if "k" in S else D                              ->  S.get("k", D)
# (string keys only: for a string key `in` and `[...]` can only be the mapping protocol.  E is a plain
# name or attribute chain; the first form reads an AttributeError raised by E itself as "slot missing"
# too, which the expression form does not -- the handle expressions this is applied to always exist.)
def lookup_else_default(tree: ast.Module) -> int:
    import copy

    count = 0

    def handle(e):
        return isinstance(e, ast.Name) or (isinstance(e, ast.Attribute) and handle(e.value))

    def str_key(e):
        return isinstance(e, ast.Constant) and isinstance(e.value, str)

    def member(t):
        """(S, K, positive) for `K in S` / `K not in S`"""
        neg = False
        while isinstance(t, ast.UnaryOp) and isinstance(t.op, ast.Not):
            t, neg = t.operand, not neg
        if isinstance(t, ast.Compare) and len(t.ops) == 1 and isinstance(t.ops[0], (ast.In, ast.NotIn)) and str_key(t.left) and handle(t.comparators[0]):
            return t.comparators[0], t.left, isinstance(t.ops[0], ast.In) != neg
        return None

    def is_sub(e, S, K):
        return isinstance(e, ast.Subscript) and ast.dump(e.value) == ast.dump(S) and str_key(e.slice) and e.slice.value == K.value

    def get(S, K, D, at):
        c = ast.Call(func=ast.Attribute(value=copy.deepcopy(S), attr="get", ctx=ast.Load()), args=[copy.deepcopy(K), copy.deepcopy(D)], keywords=[])
        return ast.copy_location(c, at)

    class E(ast.NodeTransformer):
        def visit_Call(self, n):
            nonlocal count
            self.generic_visit(n)
            if isinstance(n.func, ast.Name) and n.func.id == "vars" and len(n.args) == 1 and not n.keywords and handle(n.args[0]):
                count += 1
                return ast.copy_location(ast.Attribute(value=n.args[0], attr="__dict__", ctx=ast.Load()), n)
            return n

        def visit_IfExp(self, n):
            nonlocal count
            self.generic_visit(n)
            m = member(n.test)
            if m is not None:
                S, K, pos = m
                hit, miss = (n.body, n.orelse) if pos else (n.orelse, n.body)
                if is_sub(hit, S, K):
                    count += 1
                    return get(S, K, miss, n)
            return n

    E().visit(tree)

    def rewrite(block):
        nonlocal count
        out = []
        i = 0
        while i < len(block):
            st = block[i]
            for fld in ("body", "orelse", "finalbody"):
                sub = getattr(st, fld, None)
                if isinstance(sub, list) and sub and isinstance(sub[0], ast.stmt):
                    setattr(st, fld, rewrite(sub))
            for h in getattr(st, "handlers", []) or []:
                h.body = rewrite(h.body)
            new = None
            # try: t = E.attr / except AttributeError: t = D
            if isinstance(st, ast.Try) and len(st.body) == 1 and len(st.handlers) == 1 and not st.orelse and not st.finalbody:
                b, h = st.body[0], st.handlers[0]
                if (
                    isinstance(b, ast.Assign) and len(b.targets) == 1 and isinstance(b.targets[0], ast.Name) and isinstance(b.value, ast.Attribute) and handle(b.value.value)
                    and isinstance(h.type, ast.Name) and h.type.id == "AttributeError" and h.name is None and len(h.body) == 1
                    and isinstance(h.body[0], ast.Assign) and len(h.body[0].targets) == 1 and isinstance(h.body[0].targets[0], ast.Name) and h.body[0].targets[0].id == b.targets[0].id
                ):
                    v = ast.Call(func=ast.Name(id="getattr", ctx=ast.Load()), args=[b.value.value, ast.Constant(b.value.attr), h.body[0].value], keywords=[])
                    new = [ast.Assign(targets=[b.targets[0]], value=v, type_comment=None)]
                elif (
                    isinstance(b, ast.Return) and isinstance(b.value, ast.Attribute) and handle(b.value.value)
                    and isinstance(h.type, ast.Name) and h.type.id == "AttributeError" and h.name is None and len(h.body) == 1 and isinstance(h.body[0], ast.Return) and h.body[0].value is not None
                ):
                    v = ast.Call(func=ast.Name(id="getattr", ctx=ast.Load()), args=[b.value.value, ast.Constant(b.value.attr), h.body[0].value], keywords=[])
                    new = [ast.Return(value=v)]
            # if "k" [not] in S: ... (two-armed, or a guard clause followed by the other arm)
            if new is None and isinstance(st, ast.If):
                m = member(st.test)
                if m is not None:
                    S, K, pos = m
                    arms = None
                    used = 1
                    if len(st.body) == 1 and len(st.orelse) == 1:
                        arms = (st.body[0], st.orelse[0])
                    elif len(st.body) == 1 and not st.orelse and isinstance(st.body[0], ast.Return) and i + 1 < len(block) and isinstance(block[i + 1], ast.Return):
                        arms = (st.body[0], block[i + 1])
                        used = 2
                    if arms is not None:
                        hit, miss = arms if pos else (arms[1], arms[0])
                        if isinstance(hit, ast.Return) and isinstance(miss, ast.Return) and hit.value is not None and miss.value is not None and is_sub(hit.value, S, K):
                            new = [ast.Return(value=get(S, K, miss.value, st))]
                        elif (
                            used == 1 and isinstance(hit, ast.Assign) and isinstance(miss, ast.Assign) and len(hit.targets) == 1 and len(miss.targets) == 1
                            and isinstance(hit.targets[0], ast.Name) and isinstance(miss.targets[0], ast.Name) and hit.targets[0].id == miss.targets[0].id and is_sub(hit.value, S, K)
                        ):
                            new = [ast.Assign(targets=[hit.targets[0]], value=get(S, K, miss.value, st), type_comment=None)]
                        if new is not None and used == 2:
                            i += 1
            if new is not None:
                for n_ in new:
                    ast.copy_location(n_, st)
                    ast.fix_missing_locations(n_)
                out.extend(new)
                count += 1
            else:
                out.append(st)
            i += 1
        return out

    for fn in [n for n in ast.walk(tree) if isinstance(n, (ast.FunctionDef, ast.AsyncFunctionDef))]:
        fn.body = rewrite(fn.body)
    if count:
        ast.fix_missing_locations(tree)
    return count


# ---------------------------------------------------------------------------------
# D = {}; for k, v in IT: D[k] = v        ->  D = dict(IT)
# D = {}; for T in IT: D[K] = V           ->  D = {K: V for T in IT}
# ---------------------------------------------------------------------------------
def fill_loop_to_dict(tree: ast.Module) -> int:
    count = 0

    def rewrite(block):
        nonlocal count
        out = []
        i = 0
        while i < len(block):
            st = block[i]
            for fld in ("body", "orelse", "finalbody"):
                sub = getattr(st, fld, None)
                if isinstance(sub, list) and sub and isinstance(sub[0], ast.stmt):
                    setattr(st, fld, rewrite(sub))
            for h in getattr(st, "handlers", []) or []:
                h.body = rewrite(h.body)
            nxt = block[i + 1] if i + 1 < len(block) else None
            if (
                isinstance(st, ast.Assign) and len(st.targets) == 1 and isinstance(st.targets[0], ast.Name)
                and ((isinstance(st.value, ast.Dict) and not st.value.keys) or (isinstance(st.value, ast.Call) and isinstance(st.value.func, ast.Name) and st.value.func.id == "dict" and not st.value.args and not st.value.keywords))
                and isinstance(nxt, ast.For) and not nxt.orelse and len(nxt.body) == 1
            ):
                D = st.targets[0].id
                b = nxt.body[0]
                if isinstance(b, ast.Assign) and len(b.targets) == 1 and isinstance(b.targets[0], ast.Subscript) and isinstance(b.targets[0].value, ast.Name) and b.targets[0].value.id == D:
                    K, V = b.targets[0].slice, b.value
                    reads_D = any(isinstance(x, ast.Name) and x.id == D for e in (K, V, nxt.iter) for x in ast.walk(e))
                    tnames = [x.id for x in ast.walk(nxt.target) if isinstance(x, ast.Name)]
                    if not reads_D and all(isinstance(x, (ast.Name, ast.Tuple, ast.List)) for x in ast.walk(nxt.target) if isinstance(x, ast.expr)) and not any(isinstance(x, (ast.Yield, ast.YieldFrom, ast.Await, ast.NamedExpr)) for e in (K, V) for x in ast.walk(e)):
                        if isinstance(nxt.target, ast.Tuple) and len(nxt.target.elts) == 2 and isinstance(K, ast.Name) and isinstance(V, ast.Name) and [K.id, V.id] == tnames:
                            val = ast.Call(func=ast.Name(id="dict", ctx=ast.Load()), args=[nxt.iter], keywords=[])
                        else:
                            tgt = ast.parse(ast.unparse(nxt.target)).body[0].value  # fresh nodes
                            for x in ast.walk(tgt):
                                if isinstance(x, (ast.Name, ast.Tuple, ast.List)):
                                    x.ctx = ast.Store()
                            val = ast.DictComp(key=K, value=V, generators=[ast.comprehension(target=tgt, iter=nxt.iter, ifs=[], is_async=0)])
                        new = ast.Assign(targets=[st.targets[0]], value=val, type_comment=None)
                        ast.copy_location(new, nxt)
                        ast.fix_missing_locations(new)
                        out.append(new)
                        count += 1
                        i += 2
                        continue
            out.append(st)
            i += 1
        return out

    for fn in [n for n in ast.walk(tree) if isinstance(n, (ast.FunctionDef, ast.AsyncFunctionDef))]:
        fn.body = rewrite(fn.body)
    if count:
        ast.fix_missing_locations(tree)
    return count


# ---------------------------------------------------------------------------------
# a, b = (f(x) for x in (p, q))     ->     a = f(p); b = f(q)
# ---------------------------------------------------------------------------------
def unpack_literal_comprehension(tree: ast.Module) -> int:
    import copy

    count = 0

    def simple(e):
        return isinstance(e, (ast.Name, ast.Constant)) or (isinstance(e, ast.Attribute) and simple(e.value))

    def rewrite(block):
        nonlocal count
        out = []
        for st in block:
            for fld in ("body", "orelse", "finalbody"):
                sub = getattr(st, fld, None)
                if isinstance(sub, list) and sub and isinstance(sub[0], ast.stmt):
                    setattr(st, fld, rewrite(sub))
            for h in getattr(st, "handlers", []) or []:
                h.body = rewrite(h.body)
            new = None
            if isinstance(st, ast.Assign) and len(st.targets) == 1 and isinstance(st.targets[0], (ast.Tuple, ast.List)) and all(isinstance(t, ast.Name) for t in st.targets[0].elts) and isinstance(st.value, (ast.GeneratorExp, ast.ListComp)) and len(st.value.generators) == 1:
                gen = st.value.generators[0]
                tnames = [t.id for t in st.targets[0].elts]
                if not gen.ifs and not gen.is_async and isinstance(gen.target, ast.Name) and isinstance(gen.iter, (ast.Tuple, ast.List)) and len(gen.iter.elts) == len(tnames) and all(simple(e) for e in gen.iter.elts) and len(set(tnames)) == len(tnames):
                    v = gen.target.id
                    elt_names = {x.id for x in ast.walk(st.value.elt) if isinstance(x, ast.Name)} - {v}
                    clash = bool(elt_names & set(tnames))
                    for i, e in enumerate(gen.iter.elts):
                        for x in ast.walk(e):
                            if isinstance(x, ast.Name) and x.id in tnames and tnames.index(x.id) < i:
                                clash = True  # a later element reads a target that the split form has already re-bound
                    if not clash and not any(isinstance(x, (ast.Lambda, ast.NamedExpr, ast.Yield, ast.Await)) for x in ast.walk(st.value.elt)):
                        new = []
                        for t, e in zip(st.targets[0].elts, gen.iter.elts):

                            class S(ast.NodeTransformer):
                                def visit_Name(self, n, _e=e):
                                    if n.id == v and isinstance(n.ctx, ast.Load):
                                        return ast.copy_location(copy.deepcopy(_e), n)
                                    return n

                            a = ast.Assign(targets=[ast.Name(id=t.id, ctx=ast.Store())], value=S().visit(copy.deepcopy(st.value.elt)), type_comment=None)
                            ast.copy_location(a, st)
                            ast.fix_missing_locations(a)
                            new.append(a)
                        count += 1
            out.extend(new if new is not None else [st])
        return out

    for fn in [n for n in ast.walk(tree) if isinstance(n, (ast.FunctionDef, ast.AsyncFunctionDef))]:
        fn.body = rewrite(fn.body)
    if count:
        ast.fix_missing_locations(tree)
    return count


# ---------------------------------------------------------------------------------
# g = A if c else B; ...; x = g(args)      ->      if c: x = A(args) else: x = B(args)
# ---------------------------------------------------------------------------------
def select_callable(tree: ast.Module) -> int:
    """a local bound once to one of two functions by a conditional expression, and only ever called: each call
    statement becomes the two-armed `if` on the same condition (whose operands are written at most once, before
    the selection), so that call resolution, specialisation and the path explorer see the two callees"""
    import copy

    count = 0
    for fn in [n for n in ast.walk(tree) if isinstance(n, (ast.FunctionDef, ast.AsyncFunctionDef))]:
        stores, loads = {}, {}
        for n in ast.walk(fn):
            if isinstance(n, ast.Name):
                d = stores if isinstance(n.ctx, (ast.Store, ast.Del)) else loads
                d[n.id] = d.get(n.id, 0) + 1
        params = {a.arg for a in fn.args.posonlyargs + fn.args.args + fn.args.kwonlyargs}
        sel = {}
        for st in ast.walk(fn):
            if isinstance(st, ast.Assign) and len(st.targets) == 1 and isinstance(st.targets[0], ast.Name) and isinstance(st.value, ast.IfExp) and isinstance(st.value.body, ast.Name) and isinstance(st.value.orelse, ast.Name):
                g = st.targets[0].id
                cond_names = {x.id for x in ast.walk(st.value.test) if isinstance(x, ast.Name)}
                if stores.get(g) == 1 and g not in params and all(stores.get(c, 0) <= (0 if c in params else 1) for c in cond_names) and not any(isinstance(x, ast.Call) for x in ast.walk(st.value.test)):
                    sel[g] = st
        if not sel:
            continue
        # every use of g is the callee of a call that is the whole value of a simple statement
        call_stmts = {g: [] for g in sel}
        used = {g: 0 for g in sel}

        def scan(block):
            for st in block:
                for fld in ("body", "orelse", "finalbody"):
                    sub = getattr(st, fld, None)
                    if isinstance(sub, list) and sub and isinstance(sub[0], ast.stmt) and not isinstance(st, (ast.FunctionDef, ast.AsyncFunctionDef, ast.ClassDef)):
                        scan(sub)
                for h in getattr(st, "handlers", []) or []:
                    scan(h.body)
                v = getattr(st, "value", None)
                if isinstance(st, (ast.Assign, ast.Expr, ast.Return)) and isinstance(v, ast.Call) and isinstance(v.func, ast.Name) and v.func.id in sel:
                    inner = sum(1 for x in ast.walk(st) if isinstance(x, ast.Name) and x.id == v.func.id and isinstance(x.ctx, ast.Load))
                    if inner == 1:
                        call_stmts[v.func.id].append(st)
                        used[v.func.id] += 1

        scan(fn.body)
        ok = {g for g in sel if used[g] == loads.get(g, 0) and used[g] > 0}
        if not ok:
            continue

        def rewrite(block):
            nonlocal count
            out = []
            for st in block:
                for fld in ("body", "orelse", "finalbody"):
                    sub = getattr(st, fld, None)
                    if isinstance(sub, list) and sub and isinstance(sub[0], ast.stmt) and not isinstance(st, (ast.FunctionDef, ast.AsyncFunctionDef, ast.ClassDef)):
                        setattr(st, fld, rewrite(sub))
                for h in getattr(st, "handlers", []) or []:
                    h.body = rewrite(h.body)
                if any(st is sel[g] for g in ok):
                    continue  # the selection itself: every use is rewritten
                hit = next((g for g in ok if any(st is c for c in call_stmts[g])), None)
                if hit is not None:
                    ife = sel[hit].value
                    arms = []
                    for callee in (ife.body, ife.orelse):
                        s2 = copy.deepcopy(st)
                        s2.value.func = ast.copy_location(ast.Name(id=callee.id, ctx=ast.Load()), st.value.func)
                        arms.append(s2)
                    new = ast.If(test=copy.deepcopy(ife.test), body=[arms[0]], orelse=[arms[1]])
                    ast.copy_location(new, st)
                    ast.fix_missing_locations(new)
                    out.append(new)
                    count += 1
                    continue
                out.append(st)
            return out

        fn.body = rewrite(fn.body)
    if count:
        ast.fix_missing_locations(tree)
    return count


# ---------------------------------------------------------------------------------
# D = {n: getattr(o, n) for n in ("a", "b")}; D["c"] = v      ->      D = dict(a=o.a, b=o.b, c=v)
# ---------------------------------------------------------------------------------
def build_literal_dict(tree: ast.Module) -> int:
    """a dict comprehension over a literal sequence of identifier strings (also the concatenation of locals
    bound once to such sequences) whose key is the loop variable becomes the dict(...) call it spells out;
    constant-key stores that follow it directly are folded in"""
    import copy
    import keyword

    count = 0

    for fn in [n for n in ast.walk(tree) if isinstance(n, (ast.FunctionDef, ast.AsyncFunctionDef))]:
        stores = {}
        for n in ast.walk(fn):
            if isinstance(n, ast.Name) and isinstance(n.ctx, (ast.Store, ast.Del)):
                stores[n.id] = stores.get(n.id, 0) + 1
        consts = {}
        for st in ast.walk(fn):
            if isinstance(st, ast.Assign) and len(st.targets) == 1 and isinstance(st.targets[0], ast.Name) and stores.get(st.targets[0].id) == 1 and isinstance(st.value, (ast.Tuple, ast.List)) and st.value.elts and all(isinstance(e, ast.Constant) and isinstance(e.value, str) for e in st.value.elts):
                consts[st.targets[0].id] = [e.value for e in st.value.elts]

        def names_of(e):
            if isinstance(e, (ast.Tuple, ast.List)) and all(isinstance(x, ast.Constant) and isinstance(x.value, str) for x in e.elts):
                return [x.value for x in e.elts]
            if isinstance(e, ast.Name) and e.id in consts:
                return list(consts[e.id])
            if isinstance(e, ast.BinOp) and isinstance(e.op, ast.Add):
                l, r = names_of(e.left), names_of(e.right)
                return None if l is None or r is None else l + r
            return None

        def rewrite(block):
            nonlocal count
            out = []
            i = 0
            while i < len(block):
                st = block[i]
                for fld in ("body", "orelse", "finalbody"):
                    sub = getattr(st, fld, None)
                    if isinstance(sub, list) and sub and isinstance(sub[0], ast.stmt) and not isinstance(st, (ast.FunctionDef, ast.AsyncFunctionDef, ast.ClassDef)):
                        setattr(st, fld, rewrite(sub))
                for h in getattr(st, "handlers", []) or []:
                    h.body = rewrite(h.body)
                if isinstance(st, ast.Assign) and len(st.targets) == 1 and isinstance(st.targets[0], ast.Name) and isinstance(st.value, ast.DictComp) and len(st.value.generators) == 1:
                    g = st.value.generators[0]
                    keys = names_of(g.iter)
                    if keys is not None and not g.ifs and isinstance(g.target, ast.Name) and isinstance(st.value.key, ast.Name) and st.value.key.id == g.target.id and len(set(keys)) == len(keys) and all(k.isidentifier() and not keyword.iskeyword(k) for k in keys):
                        v = g.target.id
                        kws = []
                        ok = True
                        for k in keys:

                            class S(ast.NodeTransformer):
                                def visit_Call(self, c, _k=k):
                                    self.generic_visit(c)
                                    if isinstance(c.func, ast.Name) and c.func.id == "getattr" and len(c.args) == 2 and isinstance(c.args[1], ast.Constant) and c.args[1].value == _k:
                                        return ast.copy_location(ast.Attribute(value=c.args[0], attr=_k, ctx=ast.Load()), c)
                                    return c

                                def visit_Name(self, n, _k=k):
                                    if n.id == v and isinstance(n.ctx, ast.Load):
                                        return ast.copy_location(ast.Constant(_k), n)
                                    return n

                            kws.append(ast.keyword(arg=k, value=S().visit(copy.deepcopy(st.value.value))))
                        D = st.targets[0].id
                        j = i + 1
                        while j < len(block):
                            nx = block[j]
                            if isinstance(nx, ast.Assign) and len(nx.targets) == 1 and isinstance(nx.targets[0], ast.Subscript) and isinstance(nx.targets[0].value, ast.Name) and nx.targets[0].value.id == D and isinstance(nx.targets[0].slice, ast.Constant) and isinstance(nx.targets[0].slice.value, str) and nx.targets[0].slice.value.isidentifier() and not any(isinstance(x, ast.Name) and x.id == D for x in ast.walk(nx.value)):
                                kk = nx.targets[0].slice.value
                                kws = [k_ for k_ in kws if k_.arg != kk] + [ast.keyword(arg=kk, value=nx.value)]
                                j += 1
                            else:
                                break
                        new = ast.Assign(targets=[st.targets[0]], value=ast.Call(func=ast.Name(id="dict", ctx=ast.Load()), args=[], keywords=kws), type_comment=None)
                        ast.copy_location(new, st)
                        ast.fix_missing_locations(new)
                        out.append(new)
                        count += 1
                        i = j
                        continue
                out.append(st)
                i += 1
            return out

        fn.body = rewrite(fn.body)
    if count:
        ast.fix_missing_locations(tree)
    return count


# ---------------------------------------------------------------------------------
# filter(lambda x: C, IT)  ->  (x for x in IT if C)        map(lambda x: E, IT)  ->  (E for x in IT)
# ---------------------------------------------------------------------------------
def filter_map_to_comprehension(tree: ast.Module) -> int:
    """only where the result is consumed at once: the sole argument of list / tuple / set / sorted / sum / any / all
    / max / min / frozenset, or the iterable of a for loop (a generator expression is evaluated lazily in the
    same order as filter / map)"""
    import copy

    count = 0
    CONSUMERS = {"list", "tuple", "set", "sorted", "sum", "any", "all", "max", "min", "frozenset"}

    def convert(c):
        if not (isinstance(c, ast.Call) and isinstance(c.func, ast.Name) and c.func.id in ("filter", "map") and len(c.args) == 2 and not c.keywords):
            return None
        lam, it = c.args
        if c.func.id == "map" and (isinstance(lam, ast.Name) or (isinstance(lam, ast.Attribute) and isinstance(lam.value, ast.Name))):
            # map(f, IT) with a named routine: (f(x) for x in IT)
            v = "_mapped_item"
            call = ast.Call(func=copy.deepcopy(lam), args=[ast.Name(id=v, ctx=ast.Load())], keywords=[])
            gen = ast.GeneratorExp(elt=call, generators=[ast.comprehension(target=ast.Name(id=v, ctx=ast.Store()), iter=it, ifs=[], is_async=0)])
            return ast.copy_location(gen, c)
        if not isinstance(lam, ast.Lambda):
            return None
        a = lam.args
        if len(a.args) != 1 or a.posonlyargs or a.kwonlyargs or a.vararg or a.kwarg or a.defaults:
            return None
        if any(isinstance(x, (ast.Lambda, ast.NamedExpr, ast.Yield, ast.Await)) for x in ast.walk(lam.body)):
            return None
        v = a.args[0].arg
        tgt = ast.Name(id=v, ctx=ast.Store())
        if c.func.id == "filter":
            gen = ast.GeneratorExp(elt=ast.Name(id=v, ctx=ast.Load()), generators=[ast.comprehension(target=tgt, iter=it, ifs=[copy.deepcopy(lam.body)], is_async=0)])
        else:
            gen = ast.GeneratorExp(elt=copy.deepcopy(lam.body), generators=[ast.comprehension(target=tgt, iter=it, ifs=[], is_async=0)])
        return ast.copy_location(gen, c)

    class T(ast.NodeTransformer):
        def visit_Call(self, c):
            nonlocal count
            self.generic_visit(c)
            if isinstance(c.func, ast.Name) and c.func.id in CONSUMERS and len(c.args) == 1 and not c.keywords:
                g = convert(c.args[0])
                if g is not None:
                    count += 1
                    if c.func.id == "list":
                        return ast.copy_location(ast.ListComp(elt=g.elt, generators=g.generators), c)
                    c.args = [g]
            return c

        def visit_For(self, n):
            nonlocal count
            self.generic_visit(n)
            g = convert(n.iter)
            if g is not None:
                count += 1
                n.iter = g
            return n

    T().visit(tree)
    if count:
        ast.fix_missing_locations(tree)
    return count


# ---------------------------------------------------------------------------------
# L.append(E); x = L[-1]      ->      x = E; L.append(x)
# ---------------------------------------------------------------------------------
def append_readback(tree: ast.Module) -> int:
    count = 0

    def rewrite(block):
        nonlocal count
        out = []
        i = 0
        while i < len(block):
            st = block[i]
            for fld in ("body", "orelse", "finalbody"):
                sub = getattr(st, fld, None)
                if isinstance(sub, list) and sub and isinstance(sub[0], ast.stmt):
                    setattr(st, fld, rewrite(sub))
            for h in getattr(st, "handlers", []) or []:
                h.body = rewrite(h.body)
            nxt = block[i + 1] if i + 1 < len(block) else None
            if (
                isinstance(st, ast.Expr) and isinstance(st.value, ast.Call) and isinstance(st.value.func, ast.Attribute) and st.value.func.attr == "append"
                and isinstance(st.value.func.value, ast.Name) and len(st.value.args) == 1 and not st.value.keywords
                and isinstance(nxt, ast.Assign) and len(nxt.targets) == 1 and isinstance(nxt.targets[0], ast.Name)
                and isinstance(nxt.value, ast.Subscript) and isinstance(nxt.value.value, ast.Name) and nxt.value.value.id == st.value.func.value.id
                and isinstance(nxt.value.slice, ast.UnaryOp) and isinstance(nxt.value.slice.op, ast.USub) and isinstance(nxt.value.slice.operand, ast.Constant) and nxt.value.slice.operand.value == 1
                and nxt.targets[0].id != st.value.func.value.id
            ):
                x = nxt.targets[0].id
                a = ast.Assign(targets=[ast.Name(id=x, ctx=ast.Store())], value=st.value.args[0], type_comment=None)
                b = ast.Expr(value=ast.Call(func=st.value.func, args=[ast.Name(id=x, ctx=ast.Load())], keywords=[]))
                ast.copy_location(a, st)
                ast.copy_location(b, nxt)
                ast.fix_missing_locations(a)
                ast.fix_missing_locations(b)
                out.extend([a, b])
                count += 1
                i += 2
                continue
            out.append(st)
            i += 1
        return out

    for fn in [n for n in ast.walk(tree) if isinstance(n, (ast.FunctionDef, ast.AsyncFunctionDef))]:
        fn.body = rewrite(fn.body)
    if count:
        ast.fix_missing_locations(tree)
    return count
