"""Abstract interpretation core (DESIGN §2.5).

A forward worklist solver over the statement CFG, parameterised by a *domain* that gives
meaning to leaf values (arrays / scalars) and to primitive operations.  Containers, wrapper
objects, tuples, constants and function values are modelled generically, user classes are
interpreted from their own source (``__init__``, ``__getitem__``, ``__iter__``), callees are
analysed on demand with the abstract arguments of the call site (memoised per
``(function, abstract arguments)`` -- this is the call-site specialisation: literal
``True/False/None``/strings/ints arrive as ``Const`` values and prune the callee's branches).

Values are immutable and hashable:

    Leaf(d)                 an array / scalar with domain datum ``d``
    Const(c)                a Python literal
    Tup(elts)               fixed-length tuple
    Lst(ident, default, over)   list: container datum, summarised element, constant-index overrides
    Dct(ident, value)       dict with summarised value
    Obj(cls, ident, fields) instance of a repository class
    Fn(qname)               a repository function
    Sym(d)                  value of unknown shape: everything reachable from it has datum ``d``
"""

from __future__ import annotations

import ast
from dataclasses import dataclass
from typing import Dict, List, Optional, Tuple

from .cfg import CFG, build_cfg
from .explore import _UNKNOWN, Kind, eval_atom, is_kind, mk_kind
from .model import AnalysisError, CallTarget, ClassInfo, FunctionInfo, Repo, bind_call

import os

_TRACE = os.environ.get("TLSA_TRACE")
MAX_DEPTH = 5
MAX_OVER = 8


class V:
    __slots__ = ()


@dataclass(frozen=True)
class Leaf(V):
    d: object


@dataclass(frozen=True)
class Const(V):
    c: object


@dataclass(frozen=True)
class Tup(V):
    elts: tuple


@dataclass(frozen=True)
class Lst(V):
    ident: object
    default: object  # V or None (empty list so far)
    over: tuple = ()  # ((index, V), ...) sorted


@dataclass(frozen=True)
class Dct(V):
    ident: object
    value: object  # V or None


@dataclass(frozen=True)
class Obj(V):
    cls: str
    ident: object
    fields: tuple  # ((name, V), ...) sorted

    def get(self, name):
        for k, v in self.fields:
            if k == name:
                return v
        return None

    def set(self, name, val):
        d = dict(self.fields)
        d[name] = val
        return Obj(self.cls, self.ident, tuple(sorted(d.items(), key=lambda kv: kv[0])))


@dataclass(frozen=True)
class Fn(V):
    qname: str


@dataclass(frozen=True)
class Sym(V):
    d: object
    c: object = None  # datum of the *container identity* alternatives (None: same as d)

    @property
    def cd(self):
        return self.d if self.c is None else self.c


@dataclass(frozen=True)
class Mod(V):
    """A module / namespace object (numpy, tl, ...) -- only for attribute chains."""

    name: str


NONE = Const(None)


class Domain:
    """Base class: a domain supplies the lattice of leaf data and primitive semantics."""

    name = "base"

    # lattice -------------------------------------------------------------------------
    def bottom(self):
        raise NotImplementedError

    def join_d(self, a, b):
        raise NotImplementedError

    def const_d(self, c):
        """datum of a Python literal used as a leaf"""
        return self.bottom()

    def fresh_d(self, node=None):
        """datum of a freshly computed array"""
        return self.bottom()

    def unknown_d(self):
        return self.bottom()

    # semantics (return V or None for 'use the default') ---------------------------------
    def binop(self, op, a: V, b: V, node, it) -> V:
        return Leaf(self.join_d(it.datum(a), it.datum(b)))

    def unop(self, op, a: V, node, it) -> V:
        return Leaf(it.datum(a))

    def compare(self, a: V, b: V, node, it) -> V:
        return Leaf(self.fresh_d(node))

    def prim(self, name, args: List[V], kwargs: Dict[str, V], node, it) -> Optional[V]:
        return None

    def ext(self, dotted, args, kwargs, node, it) -> Optional[V]:
        return None

    def method(self, name, recv: V, args, kwargs, node, it) -> Optional[V]:
        return None

    def subscript(self, base: V, index: V, node, it) -> Optional[V]:
        return None

    def attribute(self, base: V, attr: str, node, it) -> Optional[V]:
        return None

    def store_sub(self, base: V, index: V, value: V, node, it) -> Optional[V]:
        """``base[index] = value`` -> new value of base"""
        return None

    def store_attr(self, base: V, attr: str, value: V, node, it) -> Optional[V]:
        return None

    def augassign(self, target: V, op, value: V, node, it) -> Optional[V]:
        return None

    def unknown_call(self, name, args, kwargs, node, it) -> V:
        d = self.bottom()
        for a in list(args) + list(kwargs.values()):
            d = self.join_d(d, it.datum(a))
        return Sym(d)

    def container_ident(self, node, it):
        """datum for the identity of a freshly created container / object"""
        return None

    def join_ident(self, a, b):
        if a is None:
            return b
        if b is None:
            return a
        return self.join_d(a, b)

    def mutate_container(self, cont: V, how: str, node, it):
        """hook: container ``cont`` is mutated (append / store / ...)"""
        return None

    def on_return(self, f, value: V, node, it):
        return None

    def on_call(self, f, call, ct: CallTarget, binding, it):
        """hook before a repo call; may return a V to short-circuit"""
        return None


class Frame:
    """One activation: function + effect log"""

    def __init__(self, f: FunctionInfo, depth: int):
        self.f = f
        self.depth = depth
        self.effects = set()
        self.yields: List[V] = []


class Interp:
    def __init__(self, repo: Repo, dom: Domain, max_call_depth=14):
        self.repo = repo
        self.dom = dom
        self.memo: Dict[tuple, tuple] = {}
        self.in_progress: Dict[tuple, tuple] = {}
        self.cfgs: Dict[str, CFG] = {}
        self.max_call_depth = max_call_depth
        self.stack: List[Frame] = []
        self.calls_resolved = 0
        self.calls_unresolved = 0
        self.functions_analysed = set()
        self.node_visits = 0
        self.unmodelled = {}
        self.summaries = 0
        self._closure_env = {}
        self.decide_hook = None
        self.min_one_iter = None  # hook(f, for_stmt) -> bool: the loop body runs at least once

    # ------------------------------------------------------------------------------
    # lattice on values
    # ------------------------------------------------------------------------------
    def datum(self, v) -> object:
        """join of every datum inside ``v`` (coercion of a structure to a leaf datum)"""
        dom = self.dom
        if v is None:
            return dom.bottom()
        if isinstance(v, Leaf) or isinstance(v, Sym):
            return v.d
        if isinstance(v, Const):
            return dom.const_d(v.c)
        if isinstance(v, Tup):
            d = dom.bottom()
            for e in v.elts:
                d = dom.join_d(d, self.datum(e))
            return d
        if isinstance(v, Lst):
            d = self.datum(v.default) if v.default is not None else dom.bottom()
            for _, e in v.over:
                d = dom.join_d(d, self.datum(e))
            return d
        if isinstance(v, Dct):
            return self.datum(v.value) if v.value is not None else dom.bottom()
        if isinstance(v, Obj):
            d = dom.bottom()
            for _, e in v.fields:
                d = dom.join_d(d, self.datum(e))
            return d
        return dom.bottom()

    def depth(self, v) -> int:
        if isinstance(v, Tup):
            return 1 + max([self.depth(e) for e in v.elts] or [0])
        if isinstance(v, Lst):
            return 1 + max([self.depth(v.default)] + [self.depth(e) for _, e in v.over])
        if isinstance(v, Dct):
            return 1 + self.depth(v.value)
        if isinstance(v, Obj):
            return 1 + max([self.depth(e) for _, e in v.fields] or [0])
        return 0

    def ident_of(self, v):
        if isinstance(v, (Lst, Dct, Obj)):
            return v.ident
        return None

    def all_idents(self, v):
        """join of container identities reachable in v (for Sym coercion)"""
        return None

    def to_sym(self, v) -> V:
        if isinstance(v, Sym):
            return v
        d = self.datum(v)
        i = self._idents(v)
        return Sym(d, i if i is not None else self.dom.bottom())

    def _idents(self, v):
        dom = self.dom
        out = None
        if isinstance(v, (Lst, Dct, Obj)):
            out = v.ident
        kids = []
        if isinstance(v, Tup):
            kids = v.elts
        elif isinstance(v, Lst):
            kids = [v.default] + [e for _, e in v.over]
        elif isinstance(v, Dct):
            kids = [v.value]
        elif isinstance(v, Obj):
            kids = [e for _, e in v.fields]
        for k in kids:
            if k is not None:
                out = dom.join_ident(out, self._idents(k))
        return out

    def join(self, a, b):
        if a is None:
            return b
        if b is None:
            return a
        if a == b:
            return a
        dom = self.dom
        jv = getattr(dom, "join_values", None)
        if jv is not None:
            r = jv(a, b, self)
            if r is not None:
                return r
        if isinstance(a, Sym) or isinstance(b, Sym):
            sa, sb = self.to_sym(a), self.to_sym(b)
            return self._join_sym(sa, sb)
        if isinstance(a, Const) and isinstance(b, Const):
            return Leaf(dom.join_d(dom.const_d(a.c), dom.const_d(b.c)))
        if isinstance(a, (Leaf, Const)) and isinstance(b, (Leaf, Const)):
            return Leaf(dom.join_d(self.datum(a), self.datum(b)))
        if isinstance(a, Tup) and isinstance(b, Tup) and len(a.elts) == len(b.elts):
            return Tup(tuple(self.join(x, y) for x, y in zip(a.elts, b.elts)))
        if isinstance(a, (Tup, Lst)) and isinstance(b, (Tup, Lst)):
            la, lb = self.as_list(a), self.as_list(b)
            over = {}
            da, db = dict(la.over), dict(lb.over)
            for k in set(da) | set(db):
                over[k] = self.join(da.get(k, la.default), db.get(k, lb.default))
            return self.mk_list(dom.join_ident(la.ident, lb.ident), self.join(la.default, lb.default), over)
        if isinstance(a, Dct) and isinstance(b, Dct):
            return Dct(dom.join_ident(a.ident, b.ident), self.join(a.value, b.value))
        if isinstance(a, Obj) and isinstance(b, Obj) and a.cls == b.cls:
            fa, fb = dict(a.fields), dict(b.fields)
            out = {}
            for k in set(fa) | set(fb):
                out[k] = self.join(fa.get(k), fb.get(k))
            return Obj(a.cls, dom.join_ident(a.ident, b.ident), tuple(sorted(out.items(), key=lambda kv: kv[0])))
        if isinstance(a, Fn) and isinstance(b, Fn):
            return Sym(dom.bottom())
        if isinstance(a, Const) and a.c is None:
            return b  # Optional[...]: keep the informative side (None carries no datum)
        if isinstance(b, Const) and b.c is None:
            return a
        sa, sb = self.to_sym(a), self.to_sym(b)
        return self._join_sym(sa, sb)

    def _join_sym(self, sa: Sym, sb: Sym) -> Sym:
        dom = self.dom
        d = dom.join_d(sa.d, sb.d)
        if sa.c is None and sb.c is None:
            return Sym(d)
        c = dom.join_d(sa.cd, sb.cd)
        return Sym(d, None if c == d else c)

    def as_list(self, v) -> Lst:
        if isinstance(v, Lst):
            return v
        if isinstance(v, Tup):
            d = None
            for e in v.elts:
                d = self.join(d, e)
            over = {i: e for i, e in enumerate(v.elts) if i < MAX_OVER}
            return self.mk_list(None, d, over)
        return Lst(None, self.elem_of(v), ())

    def mk_list(self, ident, default, over: dict) -> Lst:
        items = tuple(sorted(((k, v) for k, v in over.items() if v is not None and v != default), key=lambda kv: kv[0]))[:MAX_OVER]
        return Lst(ident, default, items)

    def norm(self, v):
        if v is not None and self.depth(v) > MAX_DEPTH:
            return self.to_sym(v)
        return v

    def elem_of(self, v, index: Optional[V] = None, node=None) -> V:
        """value of ``v[index]`` / of an element when iterating ``v``"""
        dom = self.dom
        if v is None:
            return Sym(dom.bottom())
        if isinstance(v, Tup):
            if isinstance(index, Const) and isinstance(index.c, int) and -len(v.elts) <= index.c < len(v.elts):
                return v.elts[index.c]
            if isinstance(index, Const) and isinstance(index.c, Kind):
                return v
            out = None
            for e in v.elts:
                out = self.join(out, e)
            return out if out is not None else Sym(dom.bottom())
        if isinstance(v, Lst):
            if isinstance(index, Const) and isinstance(index.c, int):
                for k, e in v.over:
                    if k == index.c:
                        return e
                if v.default is not None:
                    return v.default
            out = v.default
            for _, e in v.over:
                out = self.join(out, e)
            return out if out is not None else Sym(dom.bottom())
        if isinstance(v, Dct):
            return v.value if v.value is not None else Sym(dom.bottom())
        if isinstance(v, Sym):
            r = dom.subscript(v, index, node, self) if index is not None else None
            return r if r is not None else (Sym(v.d) if v.c is not None else v)
        if isinstance(v, Leaf):
            r = dom.subscript(v, index, node, self)
            return r if r is not None else v
        if isinstance(v, Const):
            if isinstance(v.c, (str, tuple)):
                return Leaf(dom.const_d(0))
            return Leaf(dom.const_d(v.c))
        if isinstance(v, Obj):
            return self.call_method(v, "__getitem__", [index if index is not None else Sym(dom.bottom())], {}, node)[0]
        return Sym(self.datum(v))

    def iter_elem(self, v, node=None) -> V:
        if isinstance(v, Obj):
            r = self.iterate_obj(v, node)
            if isinstance(r, Tup):
                return self.elem_of(r)
            return self.elem_of(r)
        return self.elem_of(v, None, node)

    def iterate_obj(self, v: Obj, node):
        ci = self.repo.classes.get(v.cls)
        if ci is not None:
            m = ci.find_method("__iter__")
            if m is not None:
                res = self.call_function(m, {m.pos_params[0]: v}, node)
                if res.yields:
                    ys = res.yields
                    if res.straight and len(ys) <= 4:
                        return Tup(tuple(ys))
                    out = None
                    for y in ys:
                        out = self.join(out, y)
                    return Lst(None, out, ())
        return Lst(None, Sym(self.datum(v)), ())

    def unpack(self, v, n: int, node=None, star_at: Optional[int] = None) -> List[V]:
        if isinstance(v, Obj):
            v = self.iterate_obj(v, node)
        if isinstance(v, Tup) and star_at is None and len(v.elts) == n:
            return list(v.elts)
        if isinstance(v, Lst):
            return [self.elem_of(v, Const(i), node) for i in range(n)]
        e = self.elem_of(v, None, node)
        return [e for _ in range(n)]

    # ------------------------------------------------------------------------------
    # function analysis
    # ------------------------------------------------------------------------------
    def cfg_of(self, f: FunctionInfo) -> CFG:
        g = self.cfgs.get(f.qname)
        if g is None:
            g = build_cfg(f.node, f.qname, drop_verbose=True)
            self.cfgs[f.qname] = g
        return g

    class Result:
        __slots__ = ("ret", "self_out", "effects", "yields", "straight", "params_out")

        def __init__(self):
            self.ret = None
            self.self_out = None
            self.effects = frozenset()
            self.yields = []
            self.straight = True
            self.params_out = {}

    def call_function(self, f: FunctionInfo, args: Dict[str, V], node=None) -> "Interp.Result":
        key = (f.qname, tuple(sorted(args.items(), key=lambda kv: kv[0])))
        try:
            hash(key)
        except TypeError:
            raise AnalysisError(f"unhashable abstract arguments for {f.qname}")
        r = self.memo.get(key)
        if r is not None:
            return r
        if key in self.in_progress:
            return self.in_progress[key]
        if len(self.stack) >= self.max_call_depth:
            r = Interp.Result()
            d = self.dom.bottom()
            for a in args.values():
                d = self.dom.join_d(d, self.datum(a))
            r.ret = Sym(d)
            return r
        cur = Interp.Result()
        self.in_progress[key] = cur
        try:
            for _ in range(4):  # fixpoint for (rare) recursion
                new = self._analyse(f, args)
                stable = new.ret == cur.ret and new.effects == cur.effects and new.self_out == cur.self_out
                cur.ret, cur.self_out, cur.effects, cur.yields, cur.straight, cur.params_out = new.ret, new.self_out, new.effects, new.yields, new.straight, new.params_out
                if stable:
                    break
        finally:
            del self.in_progress[key]
        self.memo[key] = cur
        self.summaries += 1
        return cur

    def _analyse(self, f: FunctionInfo, args: Dict[str, V]) -> "Interp.Result":
        self.functions_analysed.add(f.qname)
        g = self.cfg_of(f)
        frame = Frame(f, len(self.stack))
        self.stack.append(frame)
        try:
            env0 = dict(args)
            # closures: free variables are read from the definition-time environment
            inn: Dict[int, dict] = {g.entry.id: env0}
            back: Dict[int, dict] = {}  # for-head id -> join of states arriving from the loop body
            work = [g.entry.id]
            inwork = {g.entry.id}
            res = Interp.Result()
            rets = None
            self_name = f.self_name
            self_out = None
            exits_env = None
            steps = 0
            while work:
                nid = work.pop()
                inwork.discard(nid)
                node = g.nodes[nid]
                env = inn[nid]
                steps += 1
                self.node_visits += 1
                if steps > 60000:
                    raise AnalysisError(f"abstract interpretation of {f.qname} does not stabilise")
                if node.kind in ("exit", "raise_exit"):
                    continue
                out_env = dict(env)
                forced = None
                if node.kind == "test":
                    v = self.eval(node.ast, out_env, f)
                    c = self.truth(v)
                    if c is None and self.decide_hook is not None:
                        self.cur_function = f
                        c = self.decide_hook(node.ast, self)
                    if c is not None:
                        forced = c
                elif node.kind == "stmt":
                    self.exec_stmt(node.ast, out_env, f, frame, opaque=(node.note == "opaque"))
                elif node.kind == "for":
                    iter_val = self.eval(node.ast.iter, out_env, f)
                elif node.kind == "with":
                    for it in node.ast.items:
                        cv = self.eval(it.context_expr, out_env, f)
                        if it.optional_vars is not None:
                            self.assign(it.optional_vars, Sym(self.datum(cv)), out_env, f, node.ast)
                elif node.kind == "return":
                    if _TRACE and _TRACE == f.name:
                        print(f"TRACE {f.qname} return@{node.lineno}:")
                        for k_, v_ in sorted(out_env.items()):
                            print("    ", k_, "=", v_)
                    val = self.eval(node.ast.value, out_env, f) if node.ast.value is not None else NONE
                    self.dom.on_return(f, val, node.ast, self)
                    rets = self.join(rets, val) if rets is not None else val
                    if self_name and self_name in out_env:
                        self_out = self.join(self_out, out_env[self_name])
                    for p in f.all_params:
                        if p in out_env:
                            res.params_out[p] = self.join(res.params_out.get(p), out_env[p])
                elif node.kind == "raise":
                    if node.ast.exc is not None:
                        self.eval(node.ast.exc, out_env, f)
                for j, lab in g.succ[nid]:
                    tgt = g.nodes[j]
                    if lab == "exc":
                        e2 = env  # pre-state
                    elif lab == "raise":
                        e2 = out_env
                    else:
                        if node.kind == "test" and forced is not None and lab != forced:
                            continue
                        e2 = out_env
                        if node.kind == "for":
                            if lab == "done" and self.min_one_iter is not None and self.min_one_iter(f, node.ast):
                                # the body runs at least once: only states that went round leave
                                if nid not in back:
                                    continue
                                e2 = dict(back[nid])
                            if lab == "iter":
                                e2 = dict(out_env)
                                self.assign(node.ast.target, self.iter_elem(iter_val, node.ast), e2, f, node.ast)
                            elif lab == "done":
                                pass
                        if node.kind == "test" and forced is None:
                            e2 = self.refine(node.ast, lab, out_env)
                    if tgt.kind == "exit":
                        if node.kind != "return":
                            # falling off the end
                            rets = self.join(rets, NONE) if rets is not None else NONE
                            if self_name and self_name in e2:
                                self_out = self.join(self_out, e2[self_name])
                            for p in f.all_params:
                                if p in e2:
                                    res.params_out[p] = self.join(res.params_out.get(p), e2[p])
                        continue
                    if tgt.kind == "raise_exit":
                        continue
                    if tgt.kind == "for" and self.min_one_iter is not None and g.inside(node, tgt.ast):
                        bk = back.get(j)
                        if bk is None:
                            back[j] = dict(e2)
                            bchanged = True
                        else:
                            bchanged = False
                            for k, v in e2.items():
                                ov = bk.get(k)
                                if ov is None:
                                    bk[k] = v
                                    bchanged = True
                                elif ov != v:
                                    nv = self.norm(self.join(ov, v))
                                    if nv != ov:
                                        bk[k] = nv
                                        bchanged = True
                        if bchanged and j not in inwork:
                            work.append(j)
                            inwork.add(j)
                    old = inn.get(j)
                    if old is None:
                        inn[j] = dict(e2)
                        changed = True
                    else:
                        changed = False
                        for k, v in e2.items():
                            ov = old.get(k)
                            if ov is None:
                                old[k] = v
                                changed = True
                            elif ov != v:
                                nv = self.norm(self.join(ov, v))
                                if nv != ov:
                                    old[k] = nv
                                    changed = True
                    if changed and j not in inwork:
                        work.append(j)
                        inwork.add(j)
            res.ret = rets if rets is not None else NONE
            res.self_out = self_out
            res.effects = frozenset(frame.effects)
            res.yields = frame.yields
            res.straight = not any(n.kind in ("for", "test") for n in g.nodes)
            return res
        finally:
            self.stack.pop()

    def refine(self, test, label, env):
        """Narrow ``x`` after ``x is None`` / ``x is not None`` / isinstance tests."""
        e = test
        neg = False
        while isinstance(e, ast.UnaryOp) and isinstance(e.op, ast.Not):
            e, neg = e.operand, not neg
        truth = (label is True) != neg
        if isinstance(e, ast.Compare) and len(e.ops) == 1 and isinstance(e.left, ast.Name) and isinstance(e.comparators[0], ast.Constant) and e.comparators[0].value is None:
            is_none = truth if isinstance(e.ops[0], (ast.Is, ast.Eq)) else (not truth if isinstance(e.ops[0], (ast.IsNot, ast.NotEq)) else None)
            if is_none is True:
                e2 = dict(env)
                e2[e.left.id] = NONE
                return e2
        return env

    def truth(self, v) -> Optional[bool]:
        if isinstance(v, Const):
            c = v.c
            if is_kind(c):
                return c.n > 0
            if isinstance(c, tuple) and c and c[0] == "__list__":
                return len(c) > 1
            try:
                return bool(c)
            except Exception:
                return None
        if isinstance(v, Tup):
            return len(v.elts) > 0
        if isinstance(v, (Obj, Fn)):
            return True
        return None

    def effect(self, *e):
        if self.stack:
            self.stack[-1].effects.add(tuple(e))

    # ------------------------------------------------------------------------------
    # statements
    # ------------------------------------------------------------------------------
    def exec_stmt(self, s, env, f, frame, opaque=False):
        if opaque:
            return
        if isinstance(s, ast.Assign):
            v = self.eval(s.value, env, f)
            for t in s.targets:
                self.assign(t, v, env, f, s)
        elif isinstance(s, ast.AnnAssign):
            if s.value is not None:
                self.assign(s.target, self.eval(s.value, env, f), env, f, s)
        elif isinstance(s, ast.AugAssign):
            cur = self.eval(_as_load(s.target), env, f)
            val = self.eval(s.value, env, f)
            r = self.dom.augassign(cur, s.op, val, s, self)
            if r is None:
                if isinstance(cur, (Lst, Tup)) and isinstance(s.op, ast.Add):
                    lv = self.as_list(cur)
                    rv = self.as_list(val) if isinstance(val, (Lst, Tup)) else Lst(None, self.elem_of(val), ())
                    self.dom.mutate_container(cur, "extend", s, self)
                    r = self.mk_list(lv.ident, self.join(lv.default, self.join(rv.default, self._over_join(rv))), dict(lv.over))
                else:
                    r = self.dom.binop(s.op, cur, val, s, self)
            self.assign(s.target, r, env, f, s, aug=True)
        elif isinstance(s, ast.Expr):
            v = s.value
            if isinstance(v, (ast.Yield, ast.YieldFrom)):
                yv = self.eval(v.value, env, f) if v.value is not None else NONE
                frame.yields.append(yv)
            else:
                self.eval(v, env, f)
        elif isinstance(s, (ast.FunctionDef, ast.AsyncFunctionDef)):
            fi = self.repo.function_of(s)
            if fi is not None:
                env[s.name] = Fn(fi.qname)
                # remember the definition-time environment for free variables
                self._closure_env[fi.qname] = self.join_env(self._closure_env.get(fi.qname), env)
        elif isinstance(s, ast.Assert):
            self.eval(s.test, env, f)
        elif isinstance(s, ast.Delete):
            for t in s.targets:
                if isinstance(t, ast.Name):
                    env.pop(t.id, None)
        elif isinstance(s, (ast.Import, ast.ImportFrom, ast.Pass, ast.Global, ast.Nonlocal, ast.ClassDef)):
            pass
        else:
            # compound statements never reach here (they are CFG structure)
            pass

    def join_env(self, a, b):
        if a is None:
            return dict(b)
        out = dict(a)
        for k, v in b.items():
            out[k] = self.join(out.get(k), v) if k in out else v
        return out

    def _over_join(self, l: Lst):
        out = None
        for _, e in l.over:
            out = self.join(out, e)
        return out

    def assign(self, t, v, env, f, stmt, aug=False):
        dom = self.dom
        if isinstance(t, ast.Name):
            env[t.id] = self.norm(v)
        elif isinstance(t, (ast.Tuple, ast.List)):
            star = [i for i, e in enumerate(t.elts) if isinstance(e, ast.Starred)]
            if star:
                e_all = self.elem_of(v, None, stmt) if not isinstance(v, Obj) else self.iter_elem(v, stmt)
                for e in t.elts:
                    if isinstance(e, ast.Starred):
                        self.assign(e.value, Lst(None, e_all, ()), env, f, stmt)
                    else:
                        self.assign(e, e_all, env, f, stmt)
            else:
                parts = self.unpack(v, len(t.elts), stmt)
                for e, pv in zip(t.elts, parts):
                    self.assign(e, pv, env, f, stmt)
        elif isinstance(t, ast.Subscript):
            base = self.eval(t.value, env, f)
            idx = self.eval_index(t.slice, env, f)
            nb = self.store_sub(base, idx, v, stmt)
            if nb is not None:
                self.assign_back(t.value, nb, env, f, stmt)
        elif isinstance(t, ast.Attribute):
            base = self.eval(t.value, env, f)
            r = dom.store_attr(base, t.attr, v, stmt, self)
            if r is None:
                if isinstance(base, Obj):
                    r = base.set(t.attr, v)
                elif isinstance(base, Sym):
                    r = Sym(dom.join_d(base.d, self.datum(v)))
            if r is not None:
                self.assign_back(t.value, r, env, f, stmt)
        elif isinstance(t, ast.Starred):
            self.assign(t.value, v, env, f, stmt)

    def assign_back(self, target_expr, newval, env, f, stmt):
        """After mutating the object denoted by ``target_expr`` rebind its access path."""
        if isinstance(target_expr, ast.Name):
            env[target_expr.id] = self.norm(newval)
        elif isinstance(target_expr, ast.Attribute):
            base = self.eval(target_expr.value, env, f)
            if isinstance(base, Obj):
                self.assign_back(target_expr.value, base.set(target_expr.attr, newval), env, f, stmt)
        elif isinstance(target_expr, ast.Subscript):
            base = self.eval(target_expr.value, env, f)
            idx = self.eval_index(target_expr.slice, env, f)
            if isinstance(base, (Lst, Tup)):
                nb = self._list_store(self.as_list(base), idx, newval)
                self.assign_back(target_expr.value, nb, env, f, stmt)

    def _list_store(self, l: Lst, idx, v) -> Lst:
        over = dict(l.over)
        if isinstance(idx, Const) and isinstance(idx.c, int) and 0 <= idx.c < MAX_OVER:
            over[idx.c] = v
            return self.mk_list(l.ident, l.default, over)
        # unknown index: weak update everywhere
        nd = self.join(l.default, v)
        for k in list(over):
            over[k] = self.join(over[k], v)
        return self.mk_list(l.ident, nd, over)

    def store_sub(self, base, idx, v, stmt):
        r = self.dom.store_sub(base, idx, v, stmt, self)
        if r is not None:
            return r
        if isinstance(base, Lst):
            self.dom.mutate_container(base, "setitem", stmt, self)
            return self._list_store(base, idx, v)
        if isinstance(base, Tup):
            return self._list_store(self.as_list(base), idx, v)
        if isinstance(base, Dct):
            self.dom.mutate_container(base, "setitem", stmt, self)
            return Dct(base.ident, self.join(base.value, v))
        if isinstance(base, Obj):
            res = self.call_method(base, "__setitem__", [idx, v], {}, stmt)
            return res[1] if res[1] is not None else base
        if isinstance(base, Sym):
            self.dom.mutate_container(base, "setitem", stmt, self)
            return Sym(self.dom.join_d(base.d, self.datum(v)))
        return None

    # ------------------------------------------------------------------------------
    # expressions
    # ------------------------------------------------------------------------------
    def eval_index(self, s, env, f) -> V:
        if isinstance(s, ast.Slice):
            for p in (s.lower, s.upper, s.step):
                if p is not None:
                    self.eval(p, env, f)
            return Const(mk_kind("slice", 0))
        if isinstance(s, ast.Tuple):
            parts = [self.eval_index(e, env, f) for e in s.elts]
            nonslice = [p for p in parts if not (isinstance(p, Const) and is_kind(p.c) and p.c.kind == "slice")]
            return Const(mk_kind("scalar-index" if len(nonslice) >= 2 and len(nonslice) == len(parts) else "multi-index", len(parts)))
        return self.eval(s, env, f)

    def eval(self, e, env, f) -> V:
        dom = self.dom
        if e is None:
            return NONE
        if isinstance(e, ast.Constant):
            return Const(e.value)
        if isinstance(e, ast.Name):
            if e.id in env:
                return env[e.id]
            if f is not None and e.id in f.local_names():
                # a local with no binding on any path that reaches here: reading it raises
                # (UnboundLocalError), so it contributes nothing (bottom), not "unknown"
                return Sym(dom.bottom())
            return self.global_name(e, f)
        if isinstance(e, ast.Tuple):
            if any(isinstance(x, ast.Starred) for x in e.elts):
                d = None
                for x in e.elts:
                    xv = self.eval(x.value if isinstance(x, ast.Starred) else x, env, f)
                    d = self.join(d, self.elem_of(xv) if isinstance(x, ast.Starred) else xv)
                return Lst(None, d, ())
            return self.norm(Tup(tuple(self.eval(x, env, f) for x in e.elts)))
        if isinstance(e, ast.List):
            vals = []
            d = None
            over = {}
            for i, x in enumerate(e.elts):
                if isinstance(x, ast.Starred):
                    xv = self.elem_of(self.eval(x.value, env, f))
                    d = self.join(d, xv)
                    over = {}
                    continue
                xv = self.eval(x, env, f)
                d = self.join(d, xv)
                over[i] = xv
            return self.norm(self.mk_list(dom.container_ident(e, self), d, over))
        if isinstance(e, ast.Set):
            d = None
            for x in e.elts:
                d = self.join(d, self.eval(x, env, f))
            return Lst(dom.container_ident(e, self), d, ())
        if isinstance(e, ast.Dict):
            d = None
            for k, x in zip(e.keys, e.values):
                xv = self.eval(x, env, f)
                if k is None:
                    xv = self.elem_of(xv)
                d = self.join(d, xv)
            return Dct(dom.container_ident(e, self), d)
        if isinstance(e, ast.Attribute):
            return self.eval_attr(e, env, f)
        if isinstance(e, ast.Subscript):
            base = self.eval(e.value, env, f)
            idx = self.eval_index(e.slice, env, f)
            if isinstance(base, Mod):
                return Sym(dom.bottom())
            if isinstance(e.slice, ast.Slice) and isinstance(base, (Lst, Tup)):
                l = self.as_list(base)
                # a slice of a list is a new list with the same elements
                return Lst(dom.container_ident(e, self), self.join(l.default, self._over_join(l)), ())
            return self.elem_of(base, idx, e)
        if isinstance(e, ast.BinOp):
            a, b = self.eval(e.left, env, f), self.eval(e.right, env, f)
            if isinstance(a, Const) and isinstance(b, Const):
                c = _fold(e.op, a.c, b.c)
                if c is not _UNKNOWN:
                    return Const(c)
            if isinstance(e.op, ast.Add) and isinstance(a, (Lst, Tup)) and isinstance(b, (Lst, Tup)):
                if isinstance(a, Tup) and isinstance(b, Tup):
                    return self.norm(Tup(a.elts + b.elts))
                la, lb = self.as_list(a), self.as_list(b)
                return Lst(dom.container_ident(e, self), self.join(self.join(la.default, self._over_join(la)), self.join(lb.default, self._over_join(lb))), la.over if isinstance(a, Lst) else ())
            if isinstance(e.op, ast.Mult) and (isinstance(a, (Lst, Tup)) or isinstance(b, (Lst, Tup))):
                l = a if isinstance(a, (Lst, Tup)) else b
                ll = self.as_list(l)
                return Lst(dom.container_ident(e, self), self.join(ll.default, self._over_join(ll)), ())
            if isinstance(e.op, ast.Mod) and isinstance(a, Const) and isinstance(a.c, str):
                return Leaf(dom.const_d(""))
            return dom.binop(e.op, a, b, e, self)
        if isinstance(e, ast.UnaryOp):
            a = self.eval(e.operand, env, f)
            if isinstance(e.op, ast.Not):
                t = self.truth(a)
                return Const(not t) if t is not None else Leaf(dom.const_d(True))
            if isinstance(a, Const) and isinstance(a.c, (int, float)) and not isinstance(a.c, bool):
                if isinstance(e.op, ast.USub):
                    return Const(-a.c)
                if isinstance(e.op, ast.UAdd):
                    return a
            return dom.unop(e.op, a, e, self)
        if isinstance(e, ast.BoolOp):
            vals = [self.eval(x, env, f) for x in e.values]
            ts = [self.truth(v) for v in vals]
            if isinstance(e.op, ast.And):
                for v, t in zip(vals, ts):
                    if t is False:
                        return v
                    if t is None:
                        break
                else:
                    return vals[-1]
            else:
                for v, t in zip(vals, ts):
                    if t is True:
                        return v
                    if t is None:
                        break
                else:
                    return vals[-1]
            out = None
            for v in vals:
                out = self.join(out, v)
            return out
        if isinstance(e, ast.Compare):
            consts = {}
            tmp = {}
            # evaluate with known constants
            for n in ast.walk(e):
                if isinstance(n, ast.Name) and n.id in env:
                    vv = env[n.id]
                    if isinstance(vv, Const):
                        tmp[n.id] = vv.c
                    elif isinstance(vv, Tup):
                        tmp[n.id] = mk_kind("tuple", len(vv.elts))
                    elif isinstance(vv, Lst):
                        pass
            r = eval_atom(e, tmp)
            if r is not _UNKNOWN:
                for c in [e.left] + e.comparators:
                    self.eval(c, env, f)
                return Const(bool(r))
            vals = [self.eval(e.left, env, f)] + [self.eval(c, env, f) for c in e.comparators]
            if len(vals) == 2 and isinstance(vals[0], Const) and isinstance(vals[1], Const) and not is_kind(vals[0].c) and not is_kind(vals[1].c):
                c = _fold_cmp(e.ops[0], vals[0].c, vals[1].c)
                if c is not _UNKNOWN:
                    return Const(c)
            return dom.compare(vals[0], vals[-1], e, self)
        if isinstance(e, ast.IfExp):
            t = self.truth(self.eval(e.test, env, f))
            if t is True:
                return self.eval(e.body, env, f)
            if t is False:
                return self.eval(e.orelse, env, f)
            refine = getattr(dom, "refine_env", None)
            env_t = refine(e.test, True, env, self, f) if refine else env
            env_f = refine(e.test, False, env, self, f) if refine else env
            return self.join(self.eval(e.body, env_t, f), self.eval(e.orelse, env_f, f))
        if isinstance(e, ast.Call):
            return self.eval_call(e, env, f)
        if isinstance(e, (ast.ListComp, ast.SetComp, ast.GeneratorExp)):
            env2 = dict(env)
            for gen in e.generators:
                itv = self.eval(gen.iter, env2, f)
                self.assign(gen.target, self.iter_elem(itv, e), env2, f, e)
                for c in gen.ifs:
                    self.eval(c, env2, f)
            ev = self.eval(e.elt, env2, f)
            return Lst(dom.container_ident(e, self), ev, ())
        if isinstance(e, ast.DictComp):
            env2 = dict(env)
            for gen in e.generators:
                itv = self.eval(gen.iter, env2, f)
                self.assign(gen.target, self.iter_elem(itv, e), env2, f, e)
            self.eval(e.key, env2, f)
            return Dct(dom.container_ident(e, self), self.eval(e.value, env2, f))
        if isinstance(e, ast.Lambda):
            fi = self.repo.function_of(e)
            return Fn(fi.qname) if fi is not None else Sym(dom.bottom())
        if isinstance(e, ast.JoinedStr):
            for x in e.values:
                if isinstance(x, ast.FormattedValue):
                    self.eval(x.value, env, f)
            return Leaf(dom.const_d(""))
        if isinstance(e, ast.Starred):
            return self.eval(e.value, env, f)
        if isinstance(e, ast.NamedExpr):
            v = self.eval(e.value, env, f)
            self.assign(e.target, v, env, f, e)
            return v
        if isinstance(e, (ast.Yield, ast.YieldFrom)):
            if e.value is not None:
                yv = self.eval(e.value, env, f)
                if self.stack:
                    self.stack[-1].yields.append(yv)
            return NONE
        if isinstance(e, ast.Slice):
            return Const(mk_kind("slice", 0))
        return Sym(dom.unknown_d())

    def global_name(self, e: ast.Name, f: FunctionInfo) -> V:
        # closure variable?
        g = f
        while g is not None and g.parent is not None:
            ce = self._closure_env.get(g.qname)
            if ce is not None and e.id in ce:
                return ce[e.id]
            g = g.parent
        ent = self.repo.resolve_expr(f, f.module, e) if f is not None else None
        return self.ent_value(ent, e)

    def ent_value(self, ent, node) -> V:
        dom = self.dom
        if ent is None:
            return Sym(dom.unknown_d())
        if ent.kind == "func":
            return Fn(ent.value.qname)
        if ent.kind == "class":
            return Fn("class:" + ent.value.qname)
        if ent.kind == "module":
            return Mod(ent.value.name)
        if ent.kind == "ext":
            return Mod("ext:" + str(ent.value))
        if ent.kind == "backend":
            return Mod("backend:" + str(ent.value))
        if ent.kind == "tenalg":
            return Mod("tenalg:" + str(ent.value))
        if ent.kind == "builtin":
            if ent.value in ("True", "False", "None"):
                return Const({"True": True, "False": False, "None": None}[ent.value])
            return Mod("builtin:" + ent.value)
        if ent.kind == "var":
            v = ent.value
            if isinstance(v, ast.Constant):
                return Const(v.value)
            if isinstance(v, (ast.List, ast.Tuple)) and all(isinstance(x, ast.Constant) for x in v.elts):
                return Tup(tuple(Const(x.value) for x in v.elts))
            return Sym(dom.bottom())
        return Sym(dom.unknown_d())

    def eval_attr(self, e: ast.Attribute, env, f) -> V:
        dom = self.dom
        # namespace chains (tl.x, np.linalg.x) resolve statically
        if isinstance(e.value, (ast.Name, ast.Attribute)):
            root = e.value
            while isinstance(root, ast.Attribute):
                root = root.value
            if isinstance(root, ast.Name) and root.id not in env:
                ent = self.repo.resolve_expr(f, f.module, e)
                if ent is not None and ent.kind not in ("selfattr", "self"):
                    return self.ent_value(ent, e)
        base = self.eval(e.value, env, f)
        r = dom.attribute(base, e.attr, e, self)
        if r is not None:
            return r
        if isinstance(base, Obj):
            v = base.get(e.attr)
            if v is not None:
                return v
            ci = self.repo.classes.get(base.cls)
            if ci is not None:
                m = ci.find_method(e.attr)
                if m is not None:
                    if m.is_property:
                        return self.call_function(m, {m.pos_params[0]: base}, e).ret
                    return Fn(m.qname)
                a = ci.find_attr(e.attr)
                if a is not None and isinstance(a[1], ast.Constant):
                    return Const(a[1].value)
            return Sym(self.datum(base))
        if isinstance(base, Sym):
            return base
        if isinstance(base, Mod):
            return Sym(dom.bottom())
        if isinstance(base, Leaf):
            if e.attr in ("shape", "ndim", "dtype", "size"):
                return Leaf(dom.const_d(0))
            if e.attr in ("T", "real", "imag", "flat"):
                return base
            return base
        if isinstance(base, Const):
            return Leaf(dom.const_d(0))
        if isinstance(base, (Lst, Tup, Dct)):
            return Sym(self.datum(base))
        return Sym(dom.unknown_d())

    # ------------------------------------------------------------------------------
    # calls
    # ------------------------------------------------------------------------------
    def eval_args(self, call: ast.Call, env, f):
        args, kwargs, star, dstar = [], {}, [], []
        for a in call.args:
            if isinstance(a, ast.Starred):
                star.append(self.eval(a.value, env, f))
            else:
                args.append(self.eval(a, env, f))
        for k in call.keywords:
            if k.arg is None:
                dstar.append(self.eval(k.value, env, f))
            else:
                kwargs[k.arg] = self.eval(k.value, env, f)
        return args, kwargs, star, dstar

    def bind(self, callee: FunctionInfo, call: ast.Call, bound: bool, env, f, recv: Optional[V] = None) -> Dict[str, V]:
        """Abstract arguments for ``callee`` at ``call``."""
        dom = self.dom
        b = bind_call(call, callee, bound)
        out: Dict[str, V] = {}
        if bound and callee.pos_params:
            out[callee.pos_params[0]] = recv if recv is not None else Sym(dom.bottom())
        for p, a in b.params.items():
            out[p] = self.eval(a, env, f)
        star_vals = [self.eval(a, env, f) for a in b.star_args]
        dstar_vals = [self.eval(a, env, f) for a in b.star_kwargs]
        params = list(callee.pos_params[1:] if bound and callee.pos_params else callee.pos_params) + callee.kwonly_params
        dflt = callee.defaults
        star_elem = None
        for s in star_vals:
            star_elem = self.join(star_elem, self.elem_of(s))
        dstar_elem = None
        for s in dstar_vals:
            dstar_elem = self.join(dstar_elem, self.elem_of(s))
        npos = len([a for a in call.args if not isinstance(a, ast.Starred)])
        pos_names = callee.pos_params[1:] if bound and callee.pos_params else callee.pos_params
        for p in params:
            if p in out:
                continue
            if star_elem is not None and p in pos_names and pos_names.index(p) >= npos:
                out[p] = star_elem
                continue
            if p in dflt:
                dv = self.eval_default(callee, dflt[p])
                if dstar_elem is not None:
                    # **kwargs may or may not carry p: keep the default's constant when the
                    # splatted mapping is a pure "context" (dtype) mapping
                    out[p] = dv if p not in ("dtype",) else self.join(dv, dstar_elem)
                else:
                    out[p] = dv
            elif dstar_elem is not None:
                out[p] = dstar_elem
            else:
                out[p] = Sym(dom.bottom())
        if callee.vararg:
            ex = None
            for a in b.extra_pos:
                ex = self.join(ex, self.eval(a, env, f))
            if star_elem is not None and not [p for p in pos_names if p not in b.params]:
                ex = self.join(ex, star_elem)
            out[callee.vararg] = Lst(None, ex, ())
        if callee.kwarg:
            ex = None
            for k, a in b.extra_kw.items():
                ex = self.join(ex, self.eval(a, env, f))
            ex = self.join(ex, dstar_elem)
            out[callee.kwarg] = Dct(None, ex)
        return out

    def eval_default(self, callee: FunctionInfo, d: ast.AST) -> V:
        if isinstance(d, ast.Constant):
            return Const(d.value)
        try:
            return self.eval(d, {}, callee)
        except Exception:
            return Sym(self.dom.bottom())

    def call_method(self, recv: Obj, name: str, args: List[V], kwargs: Dict[str, V], node):
        """-> (return value, receiver after the call)"""
        ci = self.repo.classes.get(recv.cls)
        m = ci.find_method(name) if ci is not None else None
        if m is None:
            return Sym(self.datum(recv)), recv
        a = {m.pos_params[0]: recv}
        names = m.pos_params[1:]
        for p, v in zip(names, args):
            a[p] = v
        for k, v in kwargs.items():
            if k in m.all_params:
                a[k] = v
        for p in m.pos_params[1:] + m.kwonly_params:
            if p not in a:
                a[p] = self.eval_default(m, m.defaults[p]) if p in m.defaults else Sym(self.dom.bottom())
        res = self.call_function(m, a, node)
        self.merge_effects(res)
        return res.ret, (res.self_out if res.self_out is not None else recv)

    def merge_effects(self, res):
        if self.stack and res.effects:
            self.stack[-1].effects.update(res.effects)

    def eval_call(self, call: ast.Call, env, f) -> V:
        dom = self.dom
        fn = call.func
        # method call on an abstract receiver value ---------------------------------
        if isinstance(fn, ast.Attribute):
            root = fn.value
            while isinstance(root, (ast.Attribute, ast.Subscript, ast.Call)):
                root = root.value if not isinstance(root, ast.Call) else root.func
            is_local_recv = not isinstance(root, ast.Name) or root.id in env or (f is not None and root.id in f.local_names()) or (f is not None and f.parent is not None and root.id in self._closure_env.get(f.qname, {}))
            if is_local_recv:
                recv = self.eval(fn.value, env, f)
                if not isinstance(recv, Mod):
                    return self.method_call(call, recv, fn, env, f)
        ct = self.repo.resolve_call(f, f.module, call) if f is not None else CallTarget("unknown")
        if ct.kind == "local":
            fv = self.eval(fn, env, f)
            if isinstance(fv, Fn):
                ct = self.target_of_fn(fv)
        if ct.kind == "repo" and not ct.cha:
            self.calls_resolved += 1
            out = None
            for callee in ct.funcs:
                recv = None
                if ct.cls is not None:
                    recv = Obj(ct.cls.qname, dom.container_ident(call, self), ())
                elif ct.bound and isinstance(fn, ast.Attribute):
                    recv = self.eval(fn.value, env, f)
                    if isinstance(recv, Mod):
                        recv = Sym(dom.bottom())
                args = self.bind(callee, call, ct.bound, env, f, recv)
                short = dom.on_call(callee, call, ct, args, self)
                if short is not None:
                    out = self.join(out, short)
                    continue
                res = self.call_function(callee, args, call)
                self.merge_effects(res)
                if ct.cls is not None:
                    r = res.self_out if res.self_out is not None else recv
                else:
                    r = res.ret
                out = self.join(out, r) if out is not None else r
            return out if out is not None else Sym(dom.bottom())
        if ct.kind == "class":
            self.calls_resolved += 1
            return Obj(ct.cls.qname, dom.container_ident(call, self), ())
        args, kwargs, star, dstar = self.eval_args(call, env, f)
        for s in star:
            args.append(self.elem_of(s))
        for s in dstar:
            if isinstance(s, Dct) and s.value is None:
                continue  # an empty mapping splats nothing
            kwargs["**"] = self.join(kwargs.get("**"), self.elem_of(s))
        if ct.kind == "backend":
            self.calls_resolved += 1
            r = dom.prim(ct.name, args, kwargs, call, self)
            if r is None:
                r = self.default_prim(ct.name, args, kwargs, call)
            return r
        if ct.kind == "ext":
            self.calls_resolved += 1
            r = dom.ext(ct.name, args, kwargs, call, self)
            if r is None:
                last = ct.name.rsplit(".", 1)[-1]
                r = dom.prim(last, args, kwargs, call, self) if ct.name.startswith("numpy") else None
            if r is None:
                r = self.default_prim(ct.name.rsplit(".", 1)[-1], args, kwargs, call)
            return r
        if ct.kind == "builtin":
            self.calls_resolved += 1
            return self.builtin(ct.name, args, kwargs, call, env, f)
        self.calls_unresolved += 1
        return dom.unknown_call(ct.name, args, kwargs, call, self)

    def target_of_fn(self, fv: Fn) -> CallTarget:
        if fv.qname.startswith("class:"):
            ci = self.repo.classes.get(fv.qname[6:])
            if ci is not None:
                init = ci.find_method("__init__")
                if init is not None:
                    return CallTarget("repo", [init], ci.name, bound=True, cls=ci)
                return CallTarget("class", [], ci.name, cls=ci)
        fi = self.repo.functions.get(fv.qname)
        if fi is not None:
            return CallTarget("repo", [fi], fi.name, bound=False)
        return CallTarget("unknown")

    def method_call(self, call, recv: V, fn: ast.Attribute, env, f) -> V:
        dom = self.dom
        name = fn.attr
        args, kwargs, star, dstar = self.eval_args(call, env, f)
        for s in star:
            args.append(self.elem_of(s))
        if isinstance(recv, Obj):
            self.calls_resolved += 1
            ci = self.repo.classes.get(recv.cls)
            m = ci.find_method(name) if ci is not None else None
            if m is not None:
                a = self.bind(m, call, True, env, f, recv)
                res = self.call_function(m, a, call)
                self.merge_effects(res)
                if res.self_out is not None and res.self_out != recv:
                    self.assign_back(fn.value, res.self_out, env, f, call)
                return res.ret
            return Sym(self.datum(recv))
        if isinstance(recv, Fn):
            return Sym(dom.bottom())
        if isinstance(recv, (Sym, Leaf)) and f is not None:
            ct = self.repo.resolve_call(f, f.module, call)
            if ct.kind == "repo" and ct.cha and len(ct.funcs) == 1:
                m = ct.funcs[0]
                self.calls_resolved += 1
                a = self.bind(m, call, True, env, f, Obj(m.cls.qname, self.dom.container_ident(call, self), ()))
                res = self.call_function(m, a, call)
                self.merge_effects(res)
                return res.ret
        r = dom.method(name, recv, args, kwargs, call, self)
        if r is not None:
            if isinstance(r, tuple):
                # (return value, new receiver)
                self.assign_back(fn.value, r[1], env, f, call)
                return r[0]
            return r
        if isinstance(recv, (Lst, Tup)):
            self.calls_resolved += 1
            l = self.as_list(recv)
            if name in ("append", "add"):
                dom.mutate_container(recv, name, call, self)
                nl = self.mk_list(l.ident, self.join(l.default, args[0] if args else None), dict(l.over))
                self.assign_back(fn.value, nl, env, f, call)
                return NONE
            if name == "extend":
                dom.mutate_container(recv, name, call, self)
                nl = self.mk_list(l.ident, self.join(l.default, self.elem_of(args[0]) if args else None), dict(l.over))
                self.assign_back(fn.value, nl, env, f, call)
                return NONE
            if name == "insert":
                dom.mutate_container(recv, name, call, self)
                nd = self.join(self.join(l.default, self._over_join(l)), args[1] if len(args) > 1 else None)
                self.assign_back(fn.value, Lst(l.ident, nd, ()), env, f, call)
                return NONE
            if name in ("pop", "remove", "clear", "sort", "reverse", "discard"):
                dom.mutate_container(recv, name, call, self)
                nd = self.join(l.default, self._over_join(l))
                self.assign_back(fn.value, Lst(l.ident, nd, ()), env, f, call)
                return nd if name == "pop" and nd is not None else NONE
            if name == "copy":
                return Lst(dom.container_ident(call, self), l.default, l.over)
            if name in ("index", "count"):
                return Leaf(dom.const_d(0))
            return Sym(self.datum(recv))
        if isinstance(recv, Dct):
            self.calls_resolved += 1
            if name in ("items",):
                return Lst(None, Tup((Leaf(dom.const_d("")), recv.value if recv.value is not None else Sym(dom.bottom()))), ())
            if name in ("values",):
                return Lst(None, recv.value, ())
            if name in ("keys",):
                return Lst(None, Leaf(dom.const_d("")), ())
            if name in ("get", "pop", "setdefault"):
                if name != "get":
                    dom.mutate_container(recv, name, call, self)
                return self.join(recv.value, args[1] if len(args) > 1 else NONE)
            if name == "update":
                dom.mutate_container(recv, name, call, self)
                nv = self.join(recv.value, self.elem_of(args[0]) if args else None)
                for v in kwargs.values():
                    nv = self.join(nv, v)
                self.assign_back(fn.value, Dct(recv.ident, nv), env, f, call)
                return NONE
            if name == "copy":
                return Dct(dom.container_ident(call, self), recv.value)
            return Sym(self.datum(recv))
        if isinstance(recv, Const) and isinstance(recv.c, str):
            self.calls_resolved += 1
            return Leaf(dom.const_d(""))
        self.calls_unresolved += 1
        return self.default_method(name, recv, args, kwargs, call)

    def default_method(self, name, recv, args, kwargs, call) -> V:
        dom = self.dom
        d = self.datum(recv)
        for a in args:
            d = dom.join_d(d, self.datum(a))
        return Sym(d) if isinstance(recv, Sym) else Leaf(d)

    def default_prim(self, name, args, kwargs, call) -> V:
        dom = self.dom
        d = dom.fresh_d(call)
        for a in list(args) + [v for k, v in kwargs.items()]:
            d = dom.join_d(d, self.datum(a))
        self.unmodelled[name] = self.unmodelled.get(name, 0) + 1
        return Leaf(d)

    def builtin(self, name, args, kwargs, call, env, f) -> V:
        dom = self.dom
        a0 = args[0] if args else None
        if name in ("len", "int", "float", "bool", "ord", "chr", "str", "repr", "abs", "round", "id", "hash", "callable", "hasattr", "isinstance", "issubclass", "type", "print", "format"):
            if name == "isinstance" and len(call.args) == 2:
                tmp = {}
                a = call.args[0]
                if isinstance(a, ast.Name) and a.id in env:
                    vv = env[a.id]
                    if isinstance(vv, Const):
                        tmp[a.id] = vv.c
                    elif isinstance(vv, Tup):
                        tmp[a.id] = mk_kind("tuple", len(vv.elts))
                    elif isinstance(vv, Lst):
                        tmp[a.id] = mk_kind("list", 1)
                    elif isinstance(vv, Dct):
                        tmp[a.id] = mk_kind("dict", 1)
                    elif isinstance(vv, Obj):
                        r = self._isinstance_obj(vv, call.args[1], f)
                        if r is not None:
                            return Const(r)
                r = eval_atom(call, tmp)
                if r is not _UNKNOWN:
                    return Const(bool(r))
            if name == "len":
                if isinstance(a0, Tup):
                    return Const(len(a0.elts))
            if name in ("int", "float", "abs", "round") and a0 is not None:
                if isinstance(a0, Const) and isinstance(a0.c, (int, float)) and not is_kind(a0.c):
                    try:
                        return Const({"int": int, "float": float, "abs": abs, "round": round}[name](a0.c))
                    except Exception:
                        pass
                return dom.prim("py_" + name, args, kwargs, call, self) or Leaf(dom.const_d(0))
            return Leaf(dom.const_d(0))
        if name in ("list", "tuple", "set", "sorted", "reversed", "frozenset"):
            if a0 is None:
                return Lst(dom.container_ident(call, self), None, ())
            if isinstance(a0, Obj):
                a0 = self.iterate_obj(a0, call)
            if isinstance(a0, Tup) and name == "tuple":
                return a0
            if isinstance(a0, (Lst, Tup)):
                l = self.as_list(a0)
                keep = l.over if name in ("list", "tuple") else ()
                return Lst(dom.container_ident(call, self), self.join(l.default, self._over_join(l)) if not keep else l.default, keep)
            return Lst(dom.container_ident(call, self), self.elem_of(a0, None, call), ())
        if name == "dict":
            d = None
            for v in kwargs.values():
                d = self.join(d, v)
            if a0 is not None:
                d = self.join(d, self.elem_of(self.elem_of(a0)))
            return Dct(dom.container_ident(call, self), d)
        if name == "range":
            return Lst(None, Leaf(dom.const_d(0)), ())
        if name == "enumerate":
            return Lst(None, Tup((Leaf(dom.const_d(0)), self.iter_elem(a0, call) if a0 is not None else Sym(dom.bottom()))), ())
        if name == "zip":
            elts = []
            for a in args:
                if isinstance(a, Obj):
                    a = self.iterate_obj(a, call)
                elts.append(self.elem_of(a, None, call))
            return Lst(None, Tup(tuple(elts)), ())
        if name in ("min", "max", "sum"):
            if len(args) == 1:
                return self.reduce_builtin(name, self.elem_of(a0, None, call), call)
            out = None
            for a in args:
                out = self.join(out, a)
            return self.reduce_builtin(name, out, call)
        if name in ("map", "filter"):
            return Lst(None, Sym(self.datum(args[-1]) if args else dom.bottom()), ())
        if name in ("any", "all"):
            return Leaf(dom.const_d(True))
        if name in ("getattr",):
            return Sym(self.datum(a0))
        if name in ("setattr", "delattr", "super", "vars", "dir", "iter", "next", "open", "input", "slice", "object", "Exception", "ValueError", "TypeError", "RuntimeError", "IndexError", "NotImplementedError", "DeprecationWarning", "UserWarning", "Warning", "KeyError", "AttributeError", "ImportError"):
            return Sym(dom.bottom())
        return Sym(dom.bottom())

    def reduce_builtin(self, name, v, call):
        r = self.dom.prim("py_" + name, [v], {}, call, self)
        if r is not None:
            return r
        return Leaf(self.datum(v)) if not isinstance(v, Const) else v

    def _isinstance_obj(self, v: Obj, types_expr, f) -> Optional[bool]:
        ci = self.repo.classes.get(v.cls)
        if ci is None:
            return None
        tys = types_expr.elts if isinstance(types_expr, ast.Tuple) else [types_expr]
        unknown = False
        for t in tys:
            e = self.repo.resolve_expr(f, f.module, t)
            if e is not None and e.kind == "class":
                if any(b is e.value for b in ci.mro()):
                    return True
            elif e is not None and e.kind == "builtin":
                continue
            else:
                unknown = True
        return None if unknown else False


def _as_load(t):
    import copy

    n = copy.copy(t)
    if hasattr(n, "ctx"):
        n.ctx = ast.Load()
    return n


def _fold(op, a, b):
    if is_kind(a) or is_kind(b):
        return _UNKNOWN
    try:
        if isinstance(a, (int, float)) and isinstance(b, (int, float)) and not isinstance(a, bool) and not isinstance(b, bool):
            if isinstance(op, ast.Add):
                return a + b
            if isinstance(op, ast.Sub):
                return a - b
            if isinstance(op, ast.Mult):
                return a * b
            if isinstance(op, ast.Div) and b != 0:
                return a / b
            if isinstance(op, ast.FloorDiv) and b != 0:
                return a // b
            if isinstance(op, ast.Mod) and b != 0:
                return a % b
            if isinstance(op, ast.Pow) and abs(b) < 16 and abs(a) < 1e6:
                return a**b
        if isinstance(a, str) and isinstance(b, str) and isinstance(op, ast.Add):
            return a + b
    except Exception:
        pass
    return _UNKNOWN


def _fold_cmp(op, a, b):
    try:
        if isinstance(op, ast.Eq):
            return a == b
        if isinstance(op, ast.NotEq):
            return a != b
        if isinstance(op, ast.Is):
            return a is b if (a is None or b is None or isinstance(a, bool) or isinstance(b, bool)) else _UNKNOWN
        if isinstance(op, ast.IsNot):
            return a is not b if (a is None or b is None or isinstance(a, bool) or isinstance(b, bool)) else _UNKNOWN
        if isinstance(op, ast.Lt):
            return a < b
        if isinstance(op, ast.LtE):
            return a <= b
        if isinstance(op, ast.Gt):
            return a > b
        if isinstance(op, ast.GtE):
            return a >= b
        if isinstance(op, ast.In):
            return a in b
        if isinstance(op, ast.NotIn):
            return a not in b
    except Exception:
        pass
    return _UNKNOWN
