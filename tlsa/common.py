"""Helpers shared by the rule modules."""

from __future__ import annotations

import ast
from typing import Iterable, Optional

from .model import AnalysisError, FunctionInfo, Repo, own_scope_nodes
from .report import Finding, Result, norm_src


class Ctx:
    def __init__(self, repo: Repo, res: Result, tier: str = "quick", seed: int = 0):
        self.repo = repo
        self.res = res
        self.tier = tier
        self.seed = seed

    def guarded(self, fn, *args, **kw):
        """Run one rule; an AnalysisError in it is recorded and does not hide the verdicts of
        the other rules of the property."""
        try:
            return fn(*args, **kw)
        except AnalysisError as e:
            self.res.error(str(e))
        return None

    def finding(self, rule, where, node, message, construct=None, path=None, **details):
        """``where``: FunctionInfo | ClassInfo | Module | str."""
        if isinstance(where, FunctionInfo):
            fn, file = where.qname, where.module.rel
        elif hasattr(where, "qname"):
            fn, file = where.qname, where.module.rel
        elif hasattr(where, "rel"):
            fn, file = where.name, where.rel
        else:
            fn, file = str(where), ""
        f = Finding(
            rule=rule,
            function=fn,
            construct=norm_src(construct if construct is not None else node),
            message=message,
            file=file,
            line=getattr(node, "lineno", 0) if node is not None else 0,
            path=path,
            details=details,
        )
        self.res.add(f)
        return f


def calls_in(node) -> Iterable[ast.Call]:
    for n in own_scope_nodes(node) if isinstance(node, (ast.FunctionDef, ast.AsyncFunctionDef)) else ast.walk(node):
        if isinstance(n, ast.Call):
            yield n


def call_name(call: ast.Call) -> Optional[str]:
    f = call.func
    if isinstance(f, ast.Name):
        return f.id
    if isinstance(f, ast.Attribute):
        return f.attr
    return None


def kwarg(call: ast.Call, name: str) -> Optional[ast.AST]:
    for k in call.keywords:
        if k.arg == name:
            return k.value
    return None


def is_name(node, name=None) -> bool:
    return isinstance(node, ast.Name) and (name is None or node.id == name)


_ANY = object()


def is_const(node, value=_ANY) -> bool:
    if not isinstance(node, ast.Constant):
        return False
    return value is _ANY or (node.value is value if value in (None, True, False) else node.value == value)


def src(node) -> str:
    return norm_src(node)


def stmts_of(fnode):
    """All statements of a function's own scope in source order."""
    out = []

    def walk(stmts):
        for s in stmts:
            out.append(s)
            if isinstance(s, (ast.FunctionDef, ast.AsyncFunctionDef, ast.ClassDef)):
                continue
            for fld in ("body", "orelse", "finalbody"):
                sub = getattr(s, fld, None)
                if isinstance(sub, list) and sub and isinstance(sub[0], ast.stmt):
                    walk(sub)
            for h in getattr(s, "handlers", []) or []:
                walk(h.body)

    walk(fnode.body)
    return out


def inline_locals(fnode, expr, depth=4):
    """`expr` with every local name that has exactly one plain assignment in `fnode` (and is not a
    parameter, loop target or augmented) replaced by the assigned expression: named temporaries
    (moved = moveaxis(...); return reshape(moved, ...)) are seen through."""
    import copy

    params = {a.arg for a in fnode.args.args + fnode.args.kwonlyargs + fnode.args.posonlyargs}
    defs, multi = {}, set()
    for s in ast.walk(fnode):
        if isinstance(s, ast.Assign):
            for t in s.targets:
                if isinstance(t, ast.Name):
                    if t.id in defs:
                        multi.add(t.id)
                    defs[t.id] = s.value
                elif isinstance(t, (ast.Tuple, ast.List)) and isinstance(s.value, (ast.Tuple, ast.List)) and len(t.elts) == len(s.value.elts) and all(isinstance(e, ast.Name) for e in t.elts) and not any(isinstance(e, ast.Starred) for e in s.value.elts):
                    # a, b = x, y  (element-wise; the right-hand sides must not read a target)
                    tn = {e.id for e in t.elts}
                    clash = any(isinstance(n, ast.Name) and n.id in tn for v in s.value.elts for n in ast.walk(v))
                    for e, v in zip(t.elts, s.value.elts):
                        if e.id in defs or clash:
                            multi.add(e.id)
                        defs[e.id] = v
                else:
                    for n in ast.walk(t):
                        if isinstance(n, ast.Name) and isinstance(n.ctx, ast.Store):
                            multi.add(n.id)
                    b_ = t
                    while isinstance(b_, (ast.Subscript, ast.Attribute)):
                        b_ = b_.value
                    if isinstance(b_, ast.Name) and isinstance(t, ast.Subscript):
                        multi.add(b_.id)  # L[i] = ...: the container changes after its definition
        elif isinstance(s, (ast.AugAssign,)) and isinstance(s.target, ast.Name):
            multi.add(s.target.id)
        elif isinstance(s, ast.AugAssign) and isinstance(s.target, ast.Subscript):
            b_ = s.target
            while isinstance(b_, (ast.Subscript, ast.Attribute)):
                b_ = b_.value
            if isinstance(b_, ast.Name):
                multi.add(b_.id)
        elif isinstance(s, (ast.For, ast.comprehension)):
            for n in ast.walk(s.target):
                if isinstance(n, ast.Name):
                    multi.add(n.id)
        elif isinstance(s, ast.Call) and isinstance(s.func, ast.Attribute) and isinstance(s.func.value, ast.Name) and s.func.attr in ("append", "insert", "pop", "remove", "extend", "sort", "reverse"):
            multi.add(s.func.value.id)  # mutated containers are not named temporaries
    for nm, v in list(defs.items()):
        # x = L.pop(i): the definition has an effect and must stay where it is
        if any(isinstance(c, ast.Call) and isinstance(c.func, ast.Attribute) and c.func.attr in ("pop", "popitem", "append", "insert", "remove", "extend", "sort", "reverse", "clear", "update", "setdefault") for c in ast.walk(v)):
            multi.add(nm)

    class T(ast.NodeTransformer):
        def __init__(self, d):
            self.d = d

        def visit_Name(self, n):
            if isinstance(n.ctx, ast.Load) and n.id in defs and n.id not in multi and n.id not in params and self.d > 0:
                v = copy.deepcopy(defs[n.id])
                return T(self.d - 1).visit(v)
            return n

    return T(depth).visit(copy.deepcopy(expr))
