"""tlsa — static analysis of tensorly against the given properties.

Everything in this package inspects the *source text* of /repo (parsed with
``ast``); nothing from tensorly is ever imported or executed.
"""

__all__ = ["model", "cfg", "explore", "report"]
