"""Statement-level control-flow graph with short-circuit test expansion.

Node kinds
----------
entry, exit        function entry / normal exit (all ``return`` nodes lead to exit)
raise_exit         exceptional exit
stmt               a simple statement (Assign, AugAssign, AnnAssign, Expr, Pass, Assert,
                   Import, Delete, Global, def/class definitions, *opaque* compound stmts)
test               one atom of a branch condition; out edges labelled True / False
for                ``for`` header; out edges 'iter' (bind target, enter body) / 'done'
with               ``with`` header (evaluates the context expressions, binds targets)
return, raise, break, continue
join               no-op merge points

Edges are ``(src, dst, label)``; label in {None, True, False, 'iter', 'done', 'exc'}.
An 'exc' edge leaves a node inside a ``try`` body towards a handler and carries the
state *before* the node executed.
"""

from __future__ import annotations

import ast
from dataclasses import dataclass, field
from typing import Callable, Dict, List, Optional, Tuple


@dataclass(eq=False)
class Node:
    id: int
    kind: str
    ast: Optional[ast.AST] = None
    neg: bool = False  # for test nodes: the atom is evaluated then negated
    loop: Optional[ast.AST] = None  # enclosing loop statement (innermost)
    stmt: Optional[ast.AST] = None  # the statement this node belongs to
    note: str = ""

    @property
    def lineno(self):
        a = self.ast if self.ast is not None else self.stmt
        return getattr(a, "lineno", 0)

    def __repr__(self):
        s = ""
        if self.ast is not None:
            try:
                s = ast.unparse(self.ast).split("\n")[0][:60]
            except Exception:
                s = "?"
        return f"<{self.id}:{self.kind}@{self.lineno} {s}>"


class CFG:
    def __init__(self, name=""):
        self.name = name
        self.nodes: List[Node] = []
        self.succ: Dict[int, List[Tuple[int, object]]] = {}
        self.pred: Dict[int, List[Tuple[int, object]]] = {}
        self.entry = self.new("entry")
        self.exit = self.new("exit")
        self.raise_exit = self.new("raise_exit")

    def new(self, kind, node=None, **kw) -> Node:
        n = Node(len(self.nodes), kind, node, **kw)
        self.nodes.append(n)
        self.succ[n.id] = []
        self.pred[n.id] = []
        return n

    def edge(self, a: Node, b: Node, label=None):
        if (b.id, label) not in self.succ[a.id]:
            self.succ[a.id].append((b.id, label))
            self.pred[b.id].append((a.id, label))

    def successors(self, n: Node):
        return [(self.nodes[i], l) for i, l in self.succ[n.id]]

    def predecessors(self, n: Node):
        return [(self.nodes[i], l) for i, l in self.pred[n.id]]

    def reachable(self):
        seen = {self.entry.id}
        st = [self.entry.id]
        while st:
            i = st.pop()
            for j, _ in self.succ[i]:
                if j not in seen:
                    seen.add(j)
                    st.append(j)
        return seen

    def inside(self, node: Node, loop_stmt) -> bool:
        """is ``node`` (lexically) inside the body of ``loop_stmt``?"""
        l = node.loop
        lp = getattr(self, "loop_parent", {})
        while l is not None:
            if l is loop_stmt:
                return True
            l = lp.get(id(l))
        return False

    def dump(self) -> str:
        out = []
        for n in self.nodes:
            out.append(f"{n!r} -> {[(j, l) for j, l in self.succ[n.id]]}")
        return "\n".join(out)


def _is_print_only(stmts) -> bool:
    """The ``verbose`` idiom: a block that only prints / passes."""
    for s in stmts:
        if isinstance(s, ast.Pass):
            continue
        if (
            isinstance(s, ast.Expr)
            and isinstance(s.value, ast.Call)
            and isinstance(s.value.func, ast.Name)
            and s.value.func.id == "print"
        ):
            continue
        if isinstance(s, ast.If) and _is_print_only(s.body) and _is_print_only(s.orelse):
            continue
        return False
    return True


class _Frame:
    """What break/continue/return/raise mean at the current nesting level."""

    def __init__(self, brk=None, cont=None, handlers=None, finals=None, loop=None):
        self.brk = brk
        self.cont = cont
        self.handlers = handlers or []  # list of handler entry nodes (innermost try)
        self.finals = finals or []  # stack of finally bodies to replay on abrupt exits
        self.loop = loop


class Builder:
    def __init__(
        self,
        opaque: Optional[Callable[[ast.stmt], bool]] = None,
        drop_verbose: bool = True,
    ):
        self.opaque = opaque
        self.drop_verbose = drop_verbose

    def build(self, fnode, name="") -> CFG:
        self.g = CFG(name)
        self.g.loop_parent = {}
        body = fnode.body if not isinstance(fnode, ast.Lambda) else [ast.Return(value=fnode.body)]
        start = self.g.new("join", note="body")
        self.g.edge(self.g.entry, start)
        self.try_nodes_stack: List[List[Node]] = []
        self.flag_defs = _flag_definitions(fnode) if not isinstance(fnode, ast.Lambda) else {}
        ends = self._block(body, [start], _Frame())
        for e in ends:
            self.g.edge(e, self.g.exit)
        return self.g

    # every created node inside a try body is recorded for 'exc' edges
    def _new(self, kind, node=None, frame: _Frame = None, **kw) -> Node:
        n = self.g.new(kind, node, **kw)
        if frame is not None:
            n.loop = frame.loop
        for lst in self.try_nodes_stack:
            lst.append(n)
        return n

    def _connect(self, preds, n, label=None):
        for p in preds:
            if isinstance(p, tuple):
                self.g.edge(p[0], n, p[1])
            else:
                self.g.edge(p, n, label)

    def _block(self, stmts, preds, frame) -> list:
        """Wire ``stmts`` after ``preds`` (list of Node or (Node,label)); return open ends."""
        cur = preds
        for s in stmts:
            if not cur:
                break  # unreachable code after return/break/...
            cur = self._stmt(s, cur, frame)
        return cur

    # -- conditions ---------------------------------------------------------------
    def _cond(self, expr, preds, frame, stmt) -> Tuple[list, list]:
        """Expand ``expr`` into atom test nodes; return (true_ends, false_ends)."""
        if isinstance(expr, ast.BoolOp):
            if isinstance(expr.op, ast.And):
                t = preds
                fs = []
                for v in expr.values:
                    t, f = self._cond(v, t, frame, stmt)
                    fs.extend(f)
                return t, fs
            else:
                f = preds
                ts = []
                for v in expr.values:
                    t, f = self._cond(v, f, frame, stmt)
                    ts.extend(t)
                return ts, f
        if isinstance(expr, ast.UnaryOp) and isinstance(expr.op, ast.Not):
            t, f = self._cond(expr.operand, preds, frame, stmt)
            return f, t
        n = self._new("test", expr, frame, stmt=stmt)
        self._connect(preds, n)
        return [(n, True)], [(n, False)]

    # -- statements ---------------------------------------------------------------
    def _stmt(self, s, preds, frame) -> list:
        g = self.g
        if self.opaque is not None and isinstance(
            s, (ast.If, ast.For, ast.While, ast.Try, ast.With)
        ) and self.opaque(s):
            n = self._new("stmt", s, frame, stmt=s, note="opaque")
            self._connect(preds, n)
            return [n]
        if id(s) in getattr(self, "flag_defs", {}):
            # flag = bool(E) / flag = E with the flag read only as a test: `if E: flag = True else: flag = False`
            cond = self.flag_defs[id(s)]
            yes = ast.Assign(targets=[ast.Name(id=s.targets[0].id, ctx=ast.Store())], value=ast.Constant(True), type_comment=None)
            no = ast.Assign(targets=[ast.Name(id=s.targets[0].id, ctx=ast.Store())], value=ast.Constant(False), type_comment=None)
            s2 = ast.If(test=cond, body=[yes], orelse=[no])
            for n_ in (yes, no, s2):
                ast.copy_location(n_, s)
                ast.fix_missing_locations(n_)
            s = s2
        if isinstance(s, ast.If):
            if self.drop_verbose and _is_print_only(s.body) and _is_print_only(s.orelse):
                return preds
            t, f = self._cond(s.test, preds, frame, s)
            tj = self._new("join", None, frame, stmt=s, note="then")
            self._connect(t, tj)
            te = self._block(s.body, [tj], frame)
            fj = self._new("join", None, frame, stmt=s, note="else")
            self._connect(f, fj)
            fe = self._block(s.orelse, [fj], frame) if s.orelse else [fj]
            return te + fe
        if isinstance(s, (ast.For, ast.AsyncFor)):
            head = self._new("for", s, frame, stmt=s)
            self._connect(preds, head)
            after = self._new("join", None, frame, stmt=s, note="after-for")
            self.g.loop_parent[id(s)] = frame.loop
            inner = _Frame(after, head, frame.handlers, frame.finals, loop=s)
            bj = self._new("join", None, inner, stmt=s, note="for-body")
            g.edge(head, bj, "iter")
            be = self._block(s.body, [bj], inner)
            self._connect(be, head)
            if s.orelse:
                oj = self._new("join", None, frame, stmt=s, note="for-else")
                g.edge(head, oj, "done")
                oe = self._block(s.orelse, [oj], frame)
                self._connect(oe, after)
            else:
                g.edge(head, after, "done")
            return [after]
        if isinstance(s, ast.While):
            head = self._new("join", None, frame, stmt=s, note="while-head")
            self._connect(preds, head)
            after = self._new("join", None, frame, stmt=s, note="after-while")
            self.g.loop_parent[id(s)] = frame.loop
            inner = _Frame(after, head, frame.handlers, frame.finals, loop=s)
            saved = frame
            t, f = self._cond(s.test, [head], inner, s)
            bj = self._new("join", None, inner, stmt=s, note="while-body")
            self._connect(t, bj)
            be = self._block(s.body, [bj], inner)
            self._connect(be, head)
            if s.orelse:
                oj = self._new("join", None, saved, stmt=s, note="while-else")
                self._connect(f, oj)
                oe = self._block(s.orelse, [oj], saved)
                self._connect(oe, after)
            else:
                self._connect(f, after)
            return [after]
        if isinstance(s, ast.Try) or s.__class__.__name__ == "TryStar":
            return self._try(s, preds, frame)
        if isinstance(s, (ast.With, ast.AsyncWith)):
            n = self._new("with", s, frame, stmt=s)
            self._connect(preds, n)
            return self._block(s.body, [n], frame)
        if isinstance(s, ast.Return):
            n = self._new("return", s, frame, stmt=s)
            self._connect(preds, n)
            ends = self._run_finals([n], frame, len(frame.finals))
            for e in ends:
                g.edge(e, g.exit)
            return []
        if isinstance(s, ast.Raise):
            n = self._new("raise", s, frame, stmt=s)
            self._connect(preds, n)
            if frame.handlers:
                for h in frame.handlers:
                    g.edge(n, h, "raise")
            ends = self._run_finals([n], frame, len(frame.finals))
            for e in ends:
                g.edge(e, g.raise_exit)
            return []
        if isinstance(s, ast.Break):
            n = self._new("break", s, frame, stmt=s)
            self._connect(preds, n)
            if frame.brk is not None:
                g.edge(n, frame.brk)
            return []
        if isinstance(s, ast.Continue):
            n = self._new("continue", s, frame, stmt=s)
            self._connect(preds, n)
            if frame.cont is not None:
                g.edge(n, frame.cont)
            return []
        if isinstance(s, ast.Match):  # not used by the repository
            n = self._new("stmt", s, frame, stmt=s, note="opaque")
            self._connect(preds, n)
            return [n]
        n = self._new("stmt", s, frame, stmt=s)
        self._connect(preds, n)
        return [n]

    def _run_finals(self, preds, frame, depth) -> list:
        """Replay pending ``finally`` bodies (innermost first) on an abrupt exit."""
        cur = preds
        for body in reversed(frame.finals[:depth]):
            outer = _Frame(frame.brk, frame.cont, [], [], loop=frame.loop)
            j = self._new("join", None, frame, note="finally(abrupt)")
            self._connect(cur, j)
            cur = self._block(body, [j], outer)
        return cur

    def _try(self, s, preds, frame) -> list:
        g = self.g
        handlers_entry = []
        for h in s.handlers:
            hn = self._new("join", h, frame, stmt=s, note="except")
            handlers_entry.append(hn)
        finals = frame.finals + ([s.finalbody] if s.finalbody else [])
        inner = _Frame(frame.brk, frame.cont, handlers_entry or frame.handlers, finals, frame.loop)
        rec: List[Node] = []
        self.try_nodes_stack.append(rec)
        bj = self._new("join", None, inner, stmt=s, note="try")
        self._connect(preds, bj)
        be = self._block(s.body, [bj], inner)
        self.try_nodes_stack.pop()
        for n in rec:
            if n.kind in ("join",):
                continue
            for hn in handlers_entry:
                g.edge(n, hn, "exc")
        if s.orelse:
            be = self._block(s.orelse, be, _Frame(frame.brk, frame.cont, frame.handlers, finals, frame.loop))
        ends = list(be)
        hframe = _Frame(frame.brk, frame.cont, frame.handlers, finals, frame.loop)
        for h, hn in zip(s.handlers, handlers_entry):
            he = self._block(h.body, [hn], hframe)
            ends.extend(he)
        if s.finalbody:
            fj = self._new("join", None, frame, stmt=s, note="finally")
            self._connect(ends, fj)
            ends = self._block(s.finalbody, [fj], frame)
            # an exception that no handler catches also runs the finally body
            if not s.handlers:
                xj = self._new("join", None, frame, stmt=s, note="finally(exc)")
                for n in rec:
                    if n.kind != "join":
                        g.edge(n, xj, "exc")
                xe = self._block(s.finalbody, [xj], frame)
                for e in xe:
                    g.edge(e, g.raise_exit)
        return ends


def _flag_definitions(fnode) -> dict:
    """id(assignment) -> condition, for `flag = bool(E)` and `flag = <comparison / and / or / not>` where every read
    of ``flag`` is a truth test (an `if` / `while` / conditional-expression test, possibly under and / or / not, or
    inside the definition of another such flag) and every other definition of it is a literal True / False.
    Such a flag is observable only through its truth value, so the assignment is the two-armed `if` it
    abbreviates; written that way the path explorer's constant propagation follows it."""

    def scope(n):
        for c in ast.iter_child_nodes(n):
            if isinstance(c, (ast.FunctionDef, ast.AsyncFunctionDef, ast.ClassDef, ast.Lambda)):
                continue
            yield c
            yield from scope(c)

    def shape(v):
        if isinstance(v, ast.Call) and isinstance(v.func, ast.Name) and v.func.id == "bool" and len(v.args) == 1 and not v.keywords:
            return v.args[0]
        if isinstance(v, (ast.Compare, ast.BoolOp)) or (isinstance(v, ast.UnaryOp) and isinstance(v.op, ast.Not)):
            return v
        return None

    nodes = list(scope(fnode))
    cands, other_defs = {}, {}
    for n in nodes:
        if isinstance(n, ast.Assign) and len(n.targets) == 1 and isinstance(n.targets[0], ast.Name):
            c = shape(n.value)
            if c is not None:
                cands.setdefault(n.targets[0].id, []).append((n, c))
                continue
            if isinstance(n.value, ast.Constant) and isinstance(n.value.value, bool):
                continue
    if not cands:
        return {}
    for n in nodes:
        if isinstance(n, ast.Name) and isinstance(n.ctx, (ast.Store, ast.Del)) and n.id in cands:
            other_defs[n.id] = other_defs.get(n.id, 0) + 1
    params = {a.arg for a in fnode.args.posonlyargs + fnode.args.args + fnode.args.kwonlyargs}
    # plain definitions that are neither a candidate nor a boolean literal disqualify the name
    good_defs = {}
    for n in nodes:
        if isinstance(n, ast.Assign) and len(n.targets) == 1 and isinstance(n.targets[0], ast.Name) and n.targets[0].id in cands:
            if shape(n.value) is not None or (isinstance(n.value, ast.Constant) and isinstance(n.value.value, bool)):
                good_defs[n.targets[0].id] = good_defs.get(n.targets[0].id, 0) + 1
    names = {k for k in cands if good_defs.get(k, 0) == other_defs.get(k, 0) and k not in params}
    # reads in test position
    in_test = set()

    def mark(e):
        if isinstance(e, ast.BoolOp):
            for v in e.values:
                mark(v)
        elif isinstance(e, ast.UnaryOp) and isinstance(e.op, ast.Not):
            mark(e.operand)
        elif isinstance(e, ast.Name):
            in_test.add(id(e))

    for n in nodes:
        if isinstance(n, (ast.If, ast.While, ast.IfExp, ast.Assert)):
            mark(n.test)
    changed = True
    while changed:
        changed = False
        marked = set(in_test)
        for k in names:
            for _, c in cands[k]:
                mark(c)
        for k in sorted(names):
            loads = [n for n in nodes if isinstance(n, ast.Name) and n.id == k and isinstance(n.ctx, ast.Load)]
            if not loads or any(id(n) not in in_test for n in loads):
                names.discard(k)
                in_test.clear()
                in_test.update(marked)
                changed = True
                break
    # nested scopes reading the flag see it as a value
    for n in ast.walk(fnode):
        if isinstance(n, (ast.FunctionDef, ast.AsyncFunctionDef, ast.Lambda)) and n is not fnode:
            for x in ast.walk(n):
                if isinstance(x, ast.Name) and x.id in names:
                    names.discard(x.id)
    return {id(n): c for k in names for n, c in cands[k]}


def build_cfg(fnode, name="", opaque=None, drop_verbose=True) -> CFG:
    return Builder(opaque=opaque, drop_verbose=drop_verbose).build(fnode, name)


# ---------------------------------------------------------------------------------
# small utilities over statements
# ---------------------------------------------------------------------------------
def assigned_names(node) -> set:
    """Names (re)bound by executing CFG node payload ``node`` (a stmt or a For header)."""
    out = set()

    def tg(t):
        if isinstance(t, ast.Name):
            out.add(t.id)
        elif isinstance(t, (ast.Tuple, ast.List)):
            for e in t.elts:
                tg(e)
        elif isinstance(t, ast.Starred):
            tg(t.value)

    if isinstance(node, ast.Assign):
        for t in node.targets:
            tg(t)
    elif isinstance(node, (ast.AugAssign, ast.AnnAssign)):
        tg(node.target)
    elif isinstance(node, (ast.For, ast.AsyncFor)):
        tg(node.target)
    elif isinstance(node, (ast.With, ast.AsyncWith)):
        for it in node.items:
            if it.optional_vars is not None:
                tg(it.optional_vars)
    elif isinstance(node, (ast.FunctionDef, ast.AsyncFunctionDef, ast.ClassDef)):
        out.add(node.name)
    elif isinstance(node, (ast.Import, ast.ImportFrom)):
        for a in node.names:
            out.add((a.asname or a.name).split(".")[0])
    if node is not None:
        for c in ast.walk(node) if not isinstance(
            node, (ast.FunctionDef, ast.AsyncFunctionDef, ast.ClassDef)
        ) else []:
            if isinstance(c, ast.NamedExpr):
                tg(c.target)
    return out


def all_assigned_names(stmt) -> set:
    """Every name bound anywhere inside compound statement ``stmt`` (own scope)."""
    out = set()
    stack = [stmt]
    while stack:
        n = stack.pop()
        out |= assigned_names(n) if not isinstance(n, (ast.If, ast.While, ast.Try)) else set()
        if isinstance(n, (ast.FunctionDef, ast.AsyncFunctionDef, ast.ClassDef, ast.Lambda)) and n is not stmt:
            continue
        if isinstance(n, ast.ExceptHandler) and n.name:
            out.add(n.name)
        for c in ast.iter_child_nodes(n):
            if isinstance(c, ast.stmt) or isinstance(c, ast.ExceptHandler):
                stack.append(c)
    return out


def names_in(expr) -> set:
    """Free names of an expression (comprehension / lambda bound names are excluded)."""
    out = set()

    def walk(n, bound):
        if isinstance(n, ast.Name):
            if n.id not in bound:
                out.add(n.id)
            return
        if isinstance(n, (ast.ListComp, ast.SetComp, ast.GeneratorExp, ast.DictComp)):
            b = set(bound)
            for i, g in enumerate(n.generators):
                walk(g.iter, b if i else bound)
                b |= {x.id for x in ast.walk(g.target) if isinstance(x, ast.Name)}
                for c in g.ifs:
                    walk(c, b)
            if isinstance(n, ast.DictComp):
                walk(n.key, b)
                walk(n.value, b)
            else:
                walk(n.elt, b)
            return
        if isinstance(n, ast.Lambda):
            a = n.args
            b = set(bound) | {x.arg for x in a.posonlyargs + a.args + a.kwonlyargs}
            if a.vararg:
                b.add(a.vararg.arg)
            if a.kwarg:
                b.add(a.kwarg.arg)
            for d in a.defaults + [k for k in a.kw_defaults if k is not None]:
                walk(d, bound)
            walk(n.body, b)
            return
        for c in ast.iter_child_nodes(n):
            walk(c, bound)

    if expr is not None:
        walk(expr, frozenset())
    return out


def guard_names(fnode) -> set:
    """Names that occur in a branch condition somewhere in the function."""
    out = set()
    for n in ast.walk(fnode):
        if isinstance(n, (ast.If, ast.While, ast.IfExp)):
            out |= names_in(n.test)
        elif isinstance(n, ast.Assert):
            out |= names_in(n.test)
    return out


def make_opaque(fnode, relevant):
    """Opaque-statement predicate for ``build_cfg``: a compound statement may be collapsed
    into one node when nothing inside it is relevant to the running rule *and* it assigns no
    name read by a branch condition that guards something relevant (collapsing it would
    forget a constant the path exploration relies on at that branch)."""

    def has_relevant(stmt):
        for n in ast.walk(stmt):
            if relevant(n):
                return True
        return False

    guards = set()
    for n in ast.walk(fnode):
        if isinstance(n, (ast.If, ast.While)) and has_relevant(n):
            guards |= names_in(n.test)
        elif isinstance(n, ast.IfExp):
            guards |= names_in(n.test)
    cache = {}

    def opaque(stmt):
        r = cache.get(id(stmt))
        if r is None:
            r = not has_relevant(stmt) and not (all_assigned_names(stmt) & guards)
            cache[id(stmt)] = r
        return r

    return opaque
