"""On-demand inlining of small private helpers, for the rules that read the *shape* of a function.

`inlined(repo, f)` returns a copy of f's FunctionDef in which calls to helpers are replaced by the
helpers' bodies (parameters substituted, the helper's own locals renamed `<helper>__<name>`):

  * expression helpers -- body is `return EXPR` -- are substituted wherever they are called;
  * statement helpers are expanded at statement level for the forms `T = h(..)`, `T1, T2 = h(..)`,
    `return h(..)` and `h(..)`; their returns must be *structured* (every return is the last
    statement of the body or of an if / else branch, never inside a loop / try / with), so that
    `if c: return A` + rest becomes `if c: T = A` / `else: rest`.

A helper is eligible when the call resolves to exactly one function that is nested in f or is a
module-level function of f's own module whose name starts with an underscore, takes no *args /
**kwargs, is not recursive, contains no yield / global / nonlocal, and every call argument can be
bound to a parameter.  Arguments that are not plain names / constants / attribute or subscript
chains are first bound to fresh temporaries, so nothing is evaluated twice in the copy.

"Extract helper" and "inline helper" are the most common behaviour-preserving edits; a rule that
inspects `inlined(f)` gives the same verdict before and after them.  The copy is only *read* by
rules; nothing is executed.
"""

from __future__ import annotations

import ast
import copy
from typing import Dict, List, Optional

from .model import own_scope_nodes

_CACHE: Dict[tuple, ast.FunctionDef] = {}


def _simple_arg(e) -> bool:
    if isinstance(e, (ast.Name, ast.Constant)):
        return True
    if isinstance(e, ast.Attribute):
        return _simple_arg(e.value)
    if isinstance(e, ast.Subscript):
        return _simple_arg(e.value) and all(isinstance(x, (ast.Name, ast.Constant)) for x in ast.walk(e.slice) if isinstance(x, ast.expr) and not isinstance(x, (ast.Tuple, ast.Slice, ast.Load)))
    return False


def _body_of(g):
    return [b for b in g.node.body if not (isinstance(b, ast.Expr) and isinstance(b.value, ast.Constant))]


def _structured(block) -> bool:
    """returns only in tail position"""
    for i, st in enumerate(block):
        last = i == len(block) - 1
        if isinstance(st, ast.Return):
            if not last:
                return False
            continue
        if isinstance(st, ast.If):
            has_ret = any(isinstance(x, ast.Return) for b in st.body + st.orelse for x in ast.walk(b))
            if has_ret:
                if not (_structured(st.body) and _structured(st.orelse)):
                    return False
                # a returning `if` in the middle is fine when its returning branches end in return and the
                # rest of the block becomes the else-continuation
                continue
            continue
        if any(isinstance(x, ast.Return) for x in ast.walk(st)) and not isinstance(st, (ast.FunctionDef, ast.AsyncFunctionDef, ast.ClassDef)):
            return False  # a return inside a loop / try / with
    return True


def _always_returns(block) -> bool:
    if not block:
        return False
    st = block[-1]
    if isinstance(st, (ast.Return, ast.Raise)):
        return True
    if isinstance(st, ast.If):
        return _always_returns(st.body) and _always_returns(st.orelse)
    return False


def _convert(block, assign):
    """structured block -> block in which `return E` is `assign(E)`; statements after a returning `if`
    move into the branches that do not return"""
    out = []
    for i, st in enumerate(block):
        if isinstance(st, ast.Return):
            out.extend(assign(st.value if st.value is not None else ast.Constant(None), st))
            return out
        if isinstance(st, ast.If) and any(isinstance(x, ast.Return) for b in st.body + st.orelse for x in ast.walk(b)):
            rest = block[i + 1 :]
            new = copy.copy(st)
            body_ret, else_ret = _always_returns(st.body), _always_returns(st.orelse)
            new.body = _convert(st.body + ([] if body_ret else rest), assign)
            new.orelse = _convert(st.orelse + ([] if else_ret else rest), assign)
            if not new.body:
                new.body = [ast.Pass()]
            out.append(new)
            return out
        out.append(st)
    return out


def _fold_const_ifs(stmts):
    """`if True: A else: B` -> A (a flag parameter bound to a literal at this call site)"""
    out = []
    for st in stmts:
        for fld in ("body", "orelse", "finalbody"):
            sub = getattr(st, fld, None)
            if isinstance(sub, list) and sub and isinstance(sub[0], ast.stmt) and not isinstance(st, (ast.FunctionDef, ast.AsyncFunctionDef, ast.ClassDef)):
                setattr(st, fld, _fold_const_ifs(sub))
        if isinstance(st, ast.If):
            t, neg = st.test, False
            while isinstance(t, ast.UnaryOp) and isinstance(t.op, ast.Not):
                t, neg = t.operand, not neg
            if isinstance(t, ast.Constant) and isinstance(t.value, (bool, int, type(None))):
                truth = bool(t.value) != neg
                out.extend(st.body if truth else st.orelse)
                continue
        out.append(st)
    return out


def call_helper_name(call):
    f = call.func
    return f.id if isinstance(f, ast.Name) else f.attr


class _Inliner:
    def __init__(self, repo, f, depth, kinds=("nested", "private", "method")):
        self.repo, self.f, self.depth, self.kinds = repo, f, depth, kinds
        self.counter = 0
        self.changed = False
        self.expansions = {}

    # -- eligibility -----------------------------------------------------------------
    def helper_for(self, call, stack):
        own_method = False
        if isinstance(call.func, ast.Attribute) and isinstance(call.func.value, ast.Name) and self.f.cls is not None and call.func.value.id == self.f.self_name and call.func.attr.startswith("_") and not call.func.attr.startswith("__"):
            # self._helper(...): a private method of the same class
            g = self.f.cls.methods.get(call.func.attr) if hasattr(self.f.cls, "methods") else None
            if g is None or g.node.decorator_list:
                return None
            own_method = True
        elif not isinstance(call.func, ast.Name):
            return None
        else:
            ct = self.repo.resolve_call(self.f, self.f.module, call)
            if ct.kind != "repo" or len(ct.funcs) != 1:
                return None
            g = ct.funcs[0]
        nested = any(g is h for hs in getattr(self.f, "nested_all", {}).values() for h in hs)
        private = g.module is self.f.module and g.cls is None and g.name.startswith("_") and getattr(g, "parent", None) is None
        if not (nested or private or own_method) or g is self.f or g.qname in stack:
            return None
        if not ((nested and "nested" in self.kinds) or (private and "private" in self.kinds) or (own_method and "method" in self.kinds)):
            return None
        a = g.node.args
        if a.kwarg or g.node.decorator_list:
            return None
        if a.vararg:
            # *rest is supported when the helper only ever spreads it again (`f(x, *rest)`)
            va = a.vararg.arg
            spread = {id(s_.value) for s_ in ast.walk(g.node) if isinstance(s_, ast.Starred) and isinstance(s_.value, ast.Name) and s_.value.id == va}
            if any(isinstance(n, ast.Name) and n.id == va and id(n) not in spread for n in ast.walk(g.node)):
                return None
        if any(isinstance(x, (ast.Yield, ast.YieldFrom, ast.Global, ast.Nonlocal, ast.Await)) for x in ast.walk(g.node)):
            return None
        if any(isinstance(x, ast.Starred) for x in call.args) or any(k.arg is None for k in call.keywords):
            return None
        body = _body_of(g)
        if not body or not _structured(body):
            return None
        return g

    def bind(self, call, g):
        a = g.node.args
        pos = [x.arg for x in a.posonlyargs + a.args]
        kwonly = [x.arg for x in a.kwonlyargs]
        pre_bound = {}
        if isinstance(call.func, ast.Attribute) and pos:
            # self._helper(...): the helper's own first parameter is the caller's self
            pre_bound[pos[0]] = ast.Name(id=call.func.value.id, ctx=ast.Load())
            pos = pos[1:]
        self.rest = None
        if len(call.args) > len(pos):
            if a.vararg is None:
                return None
            self.rest = (a.vararg.arg, list(call.args[len(pos) :]))
        elif a.vararg is not None:
            self.rest = (a.vararg.arg, [])
        sub = dict(zip(pos, call.args))
        sub.update(pre_bound)
        for k in call.keywords:
            if k.arg in sub or k.arg not in pos + kwonly:
                return None
            sub[k.arg] = k.value
        # defaults
        dflt = {}
        for p_, d in zip(pos[len(pos) - len(a.defaults) :], a.defaults):
            dflt[p_] = d
        for p_, d in zip(kwonly, a.kw_defaults):
            if d is not None:
                dflt[p_] = d
        for p_ in pos + kwonly:
            if p_ not in sub:
                if p_ in dflt and isinstance(dflt[p_], ast.Constant):
                    sub[p_] = dflt[p_]
                else:
                    return None
        return sub

    def instantiate(self, g, sub, pre):
        """(renamed body statements) with parameters substituted; complex arguments go to temporaries in `pre`"""
        body = _body_of(g)
        stored = {n.id for b in body for n in ast.walk(b) if isinstance(n, ast.Name) and isinstance(n.ctx, (ast.Store, ast.Del))}
        params = set(sub)
        real = {}
        for p_, e in sub.items():
            if _simple_arg(e) and p_ not in stored:
                real[p_] = e
            else:
                self.counter += 1
                tmp = f"{g.name}__{p_}" if self.expansions.get(g.name, 0) == 0 else f"{g.name}_{self.expansions[g.name] + 1}__{p_}"
                pre.append(ast.Assign(targets=[ast.Name(id=tmp, ctx=ast.Store())], value=copy.deepcopy(e), type_comment=None))
                real[p_] = ast.Name(id=tmp, ctx=ast.Load())
        rest_name, rest_vals = self.rest if getattr(self, "rest", None) else (None, [])
        rest_real = []
        for i_, e in enumerate(rest_vals):
            if _simple_arg(e):
                rest_real.append(e)
            else:
                tmp = f"{g.name}__{rest_name}{i_}" if self.expansions.get(g.name, 0) == 0 else f"{g.name}_{self.expansions[g.name] + 1}__{rest_name}{i_}"
                pre.append(ast.Assign(targets=[ast.Name(id=tmp, ctx=ast.Store())], value=copy.deepcopy(e), type_comment=None))
                rest_real.append(ast.Name(id=tmp, ctx=ast.Load()))
        k_ = self.expansions[g.name] = self.expansions.get(g.name, 0) + 1
        prefix = g.name if k_ == 1 else f"{g.name}_{k_}"  # each expansion has its own locals

        class R(ast.NodeTransformer):
            def visit_Name(self, n):
                if n.id in params:
                    r = real[n.id]
                    if isinstance(n.ctx, ast.Load):
                        return copy.deepcopy(r)
                    if isinstance(r, ast.Name):
                        return ast.copy_location(ast.Name(id=r.id, ctx=n.ctx), n)
                    return n
                if n.id in stored:
                    return ast.copy_location(ast.Name(id=f"{prefix}__{n.id}", ctx=n.ctx), n)
                return n

            def visit_Call(self, c):
                if rest_name is not None and any(isinstance(x, ast.Starred) and isinstance(x.value, ast.Name) and x.value.id == rest_name for x in c.args):
                    args = []
                    for x in c.args:
                        if isinstance(x, ast.Starred) and isinstance(x.value, ast.Name) and x.value.id == rest_name:
                            args.extend(copy.deepcopy(r) for r in rest_real)
                        else:
                            args.append(x)
                    c.args = args
                return self.generic_visit(c)

            def visit_FunctionDef(self, n):
                return n  # helpers nested in the helper are left alone

        return _fold_const_ifs([R().visit(copy.deepcopy(b)) for b in body])

    def _nested_statement_helper(self, expr, stack):
        """the first call of a multi-statement helper that is evaluated unconditionally inside ``expr`` and
        before which nothing with an effect is evaluated (so that naming it first is the same program)"""
        MUT = {"append", "extend", "insert", "pop", "remove", "clear", "update", "sort", "reverse", "setdefault", "popitem", "add", "discard"}
        found = []

        def walk(e):
            """returns False once something with a possible effect has been passed"""
            if found:
                return True
            if isinstance(e, (ast.Lambda, ast.ListComp, ast.SetComp, ast.DictComp, ast.GeneratorExp, ast.IfExp, ast.NamedExpr, ast.Await, ast.Yield, ast.YieldFrom)):
                return False
            if isinstance(e, ast.BoolOp):
                return walk(e.values[0]) and False
            if isinstance(e, ast.Call):
                for x in [e.func] + list(e.args) + [k.value for k in e.keywords]:
                    if not walk(x):
                        return False
                    if found:
                        return True
                g = self.helper_for(e, stack)
                if g is not None:
                    body = _body_of(g)
                    if not (len(body) == 1 and isinstance(body[0], ast.Return)) and _always_returns(body) and self.bind(e, g) is not None:
                        found.append(e)
                        return True
                    return False  # another helper: its effects are unknown here
                if isinstance(e.func, ast.Attribute) and e.func.attr in MUT:
                    return False
                return True
            for x in ast.iter_child_nodes(e):
                if isinstance(x, ast.expr):
                    if not walk(x):
                        return False
                    if found:
                        return True
            return True

        walk(expr)
        return found[0] if found else None

    # -- expansion ---------------------------------------------------------------------
    def expr_helpers(self, node, stack, pre):
        """substitute expression helpers inside one expression / statement (in place on a copy)"""
        outer = self

        class E(ast.NodeTransformer):
            def visit_Call(self, c):
                self.generic_visit(c)
                g = outer.helper_for(c, stack)
                if g is None:
                    return c
                body = _body_of(g)
                if len(body) != 1 or not isinstance(body[0], ast.Return) or body[0].value is None:
                    return c
                sub = outer.bind(c, g)
                if sub is None:
                    return c
                inst = outer.instantiate(g, sub, pre)
                outer.changed = True
                return ast.copy_location(inst[0].value, c)

            def visit_Lambda(self, n):
                return n

            def visit_FunctionDef(self, n):
                return n

        return E().visit(node)

    def block(self, stmts, stack, d):
        out = []
        for st in stmts:
            if isinstance(st, (ast.FunctionDef, ast.AsyncFunctionDef, ast.ClassDef)):
                out.append(st)
                continue
            for fld in ("body", "orelse", "finalbody"):
                sub = getattr(st, fld, None)
                if isinstance(sub, list) and sub and isinstance(sub[0], ast.stmt):
                    setattr(st, fld, self.block(sub, stack, d))
            for h in getattr(st, "handlers", []) or []:
                h.body = self.block(h.body, stack, d)
            # X = [h(..) for t in IT] with h a statement helper: the loop it abbreviates, so that h can be expanded
            if d > 0 and isinstance(st, ast.Assign) and len(st.targets) == 1 and isinstance(st.targets[0], ast.Name) and isinstance(st.value, ast.ListComp) and len(st.value.generators) == 1 and not st.value.generators[0].is_async and isinstance(st.value.elt, ast.Call):
                g_ = self.helper_for(st.value.elt, stack)
                if g_ is not None and not (len(_body_of(g_)) == 1 and isinstance(_body_of(g_)[0], ast.Return)):
                    gen = st.value.generators[0]
                    L = st.targets[0].id
                    tmp = f"{g_.name}__result"
                    inner = [
                        ast.Assign(targets=[ast.Name(id=tmp, ctx=ast.Store())], value=st.value.elt, type_comment=None),
                        ast.Expr(value=ast.Call(func=ast.Attribute(value=ast.Name(id=L, ctx=ast.Load()), attr="append", ctx=ast.Load()), args=[ast.Name(id=tmp, ctx=ast.Load())], keywords=[])),
                    ]
                    for c_ in reversed(gen.ifs):
                        inner = [ast.If(test=c_, body=inner, orelse=[])]
                    loop = ast.For(target=gen.target, iter=gen.iter, body=inner, orelse=[], type_comment=None)
                    init = ast.Assign(targets=[ast.Name(id=L, ctx=ast.Store())], value=ast.List(elts=[], ctx=ast.Load()), type_comment=None)
                    for n_ in (init, loop):
                        ast.copy_location(n_, st)
                        ast.fix_missing_locations(n_)
                    self.changed = True
                    out.extend(self.block([init, loop], stack, d))
                    continue
            call = target = None
            kind = None
            if isinstance(st, ast.Assign) and len(st.targets) == 1 and isinstance(st.value, ast.Call):
                call, target, kind = st.value, st.targets[0], "assign"
            elif isinstance(st, ast.Return) and isinstance(st.value, ast.Call):
                call, kind = st.value, "return"
            elif isinstance(st, ast.Expr) and isinstance(st.value, ast.Call):
                call, kind = st.value, "expr"
            g = self.helper_for(call, stack) if call is not None and d > 0 else None
            if g is not None:
                body = _body_of(g)
                single_expr = len(body) == 1 and isinstance(body[0], ast.Return)
                sub = self.bind(call, g) if not single_expr else None
                if sub is not None:
                    pre: List[ast.stmt] = []
                    inst = self.instantiate(g, sub, pre)

                    def assign(value, at, _kind=kind, _target=target):
                        if _kind == "assign" and isinstance(value, ast.Name) and isinstance(_target, ast.Name) and value.id == _target.id:
                            return []  # `x = h(x)` where h returns its (mutated) argument
                        if _kind == "assign":
                            return [ast.copy_location(ast.Assign(targets=[copy.deepcopy(_target)], value=value, type_comment=None), st)]
                        if _kind == "return":
                            return [ast.copy_location(ast.Return(value=value), st)]
                        return [ast.copy_location(ast.Expr(value=value), st)]

                    conv = _convert(inst, assign)
                    if not _always_returns(_body_of(g)) and kind in ("assign",):
                        # the helper can fall off its end: the target is None on that path -- keep it simple: skip
                        out.append(st)
                        continue
                    self.changed = True
                    new = pre + conv
                    for n_ in new:
                        ast.copy_location(n_, st)
                        ast.fix_missing_locations(n_)
                    # helpers called by the helper
                    out.extend(self.block(new, stack + [g.qname], d - 1))
                    continue
            # a statement helper called inside a larger expression: `x = a / h(b)` is `t = h(b); x = a / t`
            if d > 0 and isinstance(st, (ast.Assign, ast.AugAssign, ast.AnnAssign, ast.Return, ast.Expr)) and getattr(st, "value", None) is not None:
                hit = self._nested_statement_helper(st.value, stack)
                if hit is not None and hit is not st.value:
                    self.hoisted = getattr(self, "hoisted", 0) + 1
                    tmp = f"{call_helper_name(hit)}__value{self.hoisted}"
                    pre_st = ast.Assign(targets=[ast.Name(id=tmp, ctx=ast.Store())], value=hit, type_comment=None)

                    class Rep(ast.NodeTransformer):
                        def visit_Call(self, c):
                            if c is hit:
                                return ast.copy_location(ast.Name(id=tmp, ctx=ast.Load()), c)
                            return self.generic_visit(c)

                    st.value = Rep().visit(st.value)
                    for n_ in (pre_st, st):
                        ast.copy_location(pre_st, st)
                        ast.fix_missing_locations(n_)
                    self.changed = True
                    out.extend(self.block([pre_st, st], stack, d))
                    continue
            # expression helpers inside the statement
            pre = []
            st2 = self.expr_helpers(st, stack, pre) if d > 0 else st
            for n_ in pre:
                ast.copy_location(n_, st)
                ast.fix_missing_locations(n_)
            ast.fix_missing_locations(st2)
            out.extend(pre)
            out.append(st2)
        return out


def inlined(repo, f, depth: int = 2, kinds=("nested", "private", "method")) -> ast.FunctionDef:
    """copy of f.node with eligible helper calls expanded (see module docstring)"""
    # the cache lives on the repository object: another Repo (another overlay) must never see these trees
    cache = repo.__dict__.setdefault("_inline_cache", {})
    key = (f.qname, depth, tuple(kinds))
    if key in cache:
        return cache[key]
    node = copy.deepcopy(f.node)
    inl = _Inliner(repo, f, depth, kinds)
    for _ in range(depth):
        inl.changed = False
        node.body = inl.block(node.body, [f.qname], depth)
        if not inl.changed:
            break
    ast.fix_missing_locations(node)
    node._inlined = True
    cache[key] = node
    return node


def with_inlined(repo, f, depth: int = 2, kinds=("nested", "private", "method")):
    """a shallow copy of the FunctionInfo whose `node` is the inlined copy (for rules that take a FunctionInfo)"""
    node = inlined(repo, f, depth, kinds)
    if node is f.node:
        return f
    f2 = copy.copy(f)
    f2.node = node
    return f2
