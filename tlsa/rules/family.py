"""AXIS-FAMILY — which tensor an axis index belongs to (C02, tensordot / batched tensordot).

``tensordot(tensor1, tensor2, modes, batched_modes)`` juggles two index spaces: axis numbers
of ``tensor1`` and axis numbers of ``tensor2``.  Every value that is an axis number, a list
of axis numbers, a shape, a per-axis list or a number of dimensions is typed with the tensor
(family 1 or 2) it refers to, by a small forward type inference over the function bodies
(`_validate_contraction_modes` is analysed per call site with the families of its arguments).
The rule is a type rule and holds on every path and for every input:

  * ``shape_j[axis_k]``, ``per_axis_list_j[axis_k]``            need j == k
  * ``axis_k in axes_j`` / ``not in``                           need j == k
  * under a guard ``x < 0``: ``x + ndim_j`` / ``x += ndim_j`` with x an axis of k  need j == k
    (a negative axis m of tensor k denotes axis m + ndim_k);  ``axis_k % ndim_j`` likewise
  * ``transpose(tensor_j, axes_k)``                             need j == k
  * `_validate_contraction_modes` returns (axes of its first shape, axes of its second shape)

An axis typed for one tensor used against the other tensor's shape is exactly the
"copy-paste 1/2 slip"; it changes the result only when the two tensors have different
orders or the contraction modes differ, which is why the tests (same-order operands) miss it.
Unknown values are never reported (the inference gives up rather than guess).
"""

from __future__ import annotations

import ast
from typing import Dict, List, Optional

from ..common import Ctx, call_name, is_name, src
from ..model import AnalysisError, FunctionInfo, bind_call

ANY = "*"

ENTRY = {
    # function -> {parameter: value}
    "tensorly.tenalg.core_tenalg._batched_tensordot.tensordot": {"tensor1": ("T", 1), "tensor2": ("T", 2)},
    "tensorly.tenalg.einsum_tenalg._batched_tensordot.tensordot": {"tensor1": ("T", 1), "tensor2": ("T", 2)},
    "tensorly.tenalg.tenalg_utils._validate_contraction_modes": {"shape1": ("S", 1), "shape2": ("S", 2), "modes": ("M", (1, 2))},
}
VALIDATOR = "tensorly.tenalg.tenalg_utils._validate_contraction_modes"


def fam(v):
    return v[1] if isinstance(v, tuple) and v[0] in "TSNALPR" else None


def compat(j, k):
    if "1+2" in (j, k):
        return False
    return j == ANY or k == ANY or j == k


def join(a, b):
    if a is None:
        return b
    if b is None:
        return a
    if a == b:
        return a
    if isinstance(a, tuple) and isinstance(b, tuple) and a[0] == b[0] and a[0] in "TSNALPR":
        if a[1] == ANY:
            return b
        if b[1] == ANY:
            return a
        return ("?",)
    if {a[0], b[0]} == {"L", "R"} and a[1] == b[1]:
        return ("L", a[1])
    return ("?",)


class FamilyEval:
    def __init__(self, ctx: Ctx, rule: str, f: FunctionInfo, depth=0):
        self.ctx, self.rule, self.f, self.depth = ctx, rule, f, depth
        self.returns: List = []
        self.neg: List[str] = []  # sources of expressions known negative here
        self.checks = 0

    # -- reporting --------------------------------------------------------------------
    def check(self, node, j, k, what):
        if j is None or k is None or "?" in (j, k):
            return
        self.checks += 1
        ok = compat(j, k)
        self.ctx.res.instance(self.rule, f"{self.f.qname}: {src(node)[:70]}", sample={"line": getattr(node, "lineno", None), "what": what, "families": [j, k], "ok": ok})
        if not ok:
            self.ctx.finding(self.rule, self.f, node, f"{what}: `{src(node)[:90]}` combines an axis index of tensor {k} with the shape / number of dimensions / axis list of tensor {j}. The two index spaces only coincide when both tensors have the same order and the same modes are used on both sides", construct=f"{src(node)[:90]} families {j}/{k}")

    # -- expressions ------------------------------------------------------------------
    def elem_of(self, v):
        """value bound to the loop target when iterating over v"""
        if not isinstance(v, tuple):
            return None
        if v[0] in ("L", "R"):
            return ("A", v[1])
        if v[0] == "ENUM":
            inner = v[1]
            k = fam(inner) if isinstance(inner, tuple) and inner[0] in ("S", "P", "R") else None
            return ("TUP", [("A", k) if k is not None else None, self.elem_of(inner) if isinstance(inner, tuple) and inner[0] in ("L", "R") else None])
        if v[0] == "ZIP":
            return ("TUP", [self.elem_of(x) for x in v[1]])
        return None

    def is_full(self, v):
        if isinstance(v, tuple) and v[0] == "R":
            return v[1]
        if isinstance(v, tuple) and v[0] == "ENUM" and isinstance(v[1], tuple) and v[1][0] in ("S", "P", "R"):
            return v[1][1]
        return None

    def bind(self, t, v, env):
        if isinstance(t, ast.Name):
            env[t.id] = v
        elif isinstance(t, (ast.Tuple, ast.List)):
            parts = None
            if isinstance(v, tuple) and v[0] == "TUP" and len(v[1]) == len(t.elts):
                parts = v[1]
            elif isinstance(v, tuple) and v[0] == "M" and len(t.elts) == 2:
                parts = [("L", v[1][0]), ("L", v[1][1])]
            for i, x in enumerate(t.elts):
                self.bind(x, parts[i] if parts else None, env)
        elif isinstance(t, ast.Subscript):
            self.ev(t, env)

    def ev(self, e, env):
        if e is None or isinstance(e, (ast.Constant, ast.JoinedStr, ast.Lambda)):
            return None
        if isinstance(e, ast.Name):
            return env.get(e.id)
        if isinstance(e, ast.Starred):
            return self.ev(e.value, env)
        if isinstance(e, ast.Attribute):
            b = self.ev(e.value, env)
            if isinstance(b, tuple) and b[0] == "T":
                if e.attr == "shape":
                    return ("S", b[1])
                if e.attr == "ndim":
                    return ("N", b[1])
            return None
        if isinstance(e, (ast.Tuple, ast.List)):
            vals = [self.ev(x, env) for x in e.elts]
            if isinstance(e, ast.Tuple):
                return ("TUP", vals)
            ks = {fam(v) for v in vals if isinstance(v, tuple) and v[0] == "A"}
            if vals and len(ks) == 1 and all(isinstance(v, tuple) and v[0] == "A" for v in vals):
                return ("L", ks.pop())
            return None
        if isinstance(e, ast.Subscript):
            b = self.ev(e.value, env)
            if isinstance(e.slice, ast.Slice):
                for p in (e.slice.lower, e.slice.upper, e.slice.step):
                    self.ev(p, env)
                return ("L", b[1]) if isinstance(b, tuple) and b[0] in ("L", "R") else None
            i = self.ev(e.slice, env)
            if isinstance(b, tuple) and b[0] in ("S", "P") and isinstance(i, tuple) and i[0] == "A":
                self.check(e, b[1], i[1], "a shape / per-axis list indexed by an axis number")
            if isinstance(b, tuple) and b[0] in ("L", "R"):
                return ("A", b[1])
            if isinstance(b, tuple) and b[0] == "TUP" and isinstance(e.slice, ast.Constant) and isinstance(e.slice.value, int) and -len(b[1]) <= e.slice.value < len(b[1]):
                return b[1][e.slice.value]
            return None
        if isinstance(e, ast.BinOp):
            a, b = self.ev(e.left, env), self.ev(e.right, env)
            return self.binop(e, e.left, a, e.op, b)
        if isinstance(e, ast.UnaryOp):
            self.ev(e.operand, env)
            return None
        if isinstance(e, ast.BoolOp):
            for v in e.values:
                self.ev(v, env)
            return None
        if isinstance(e, ast.Compare):
            left = self.ev(e.left, env)
            for op, c in zip(e.ops, e.comparators):
                right = self.ev(c, env)
                if isinstance(op, (ast.In, ast.NotIn)) and isinstance(left, tuple) and left[0] == "A" and isinstance(right, tuple) and right[0] in ("L", "R"):
                    self.check(e, right[1], left[1], "membership of an axis number in a list of axes")
                left = right
            return None
        if isinstance(e, ast.IfExp):
            g = self.neg_guard(e.test)
            self.ev(e.test, env)
            self.neg.extend(g)
            a = self.ev(e.body, env)
            del self.neg[len(self.neg) - len(g):]
            b = self.ev(e.orelse, env)
            return join(a, b)
        if isinstance(e, (ast.ListComp, ast.GeneratorExp, ast.SetComp)):
            env2 = dict(env)
            full = None
            for gi, g in enumerate(e.generators):
                it = self.ev(g.iter, env2)
                self.bind(g.target, self.elem_of(it), env2)
                for c in g.ifs:
                    self.ev(c, env2)
                if gi == 0 and len(e.generators) == 1 and not g.ifs:
                    full = self.is_full(it)
            el = self.ev(e.elt, env2)
            if isinstance(el, tuple) and el[0] == "A":
                return ("L", el[1])
            if full is not None:
                return ("P", full)
            return None
        if isinstance(e, ast.Call):
            return self.call(e, env)
        return None

    def neg_guard(self, test) -> List[str]:
        if isinstance(test, ast.Compare) and len(test.ops) == 1 and isinstance(test.ops[0], ast.Lt) and isinstance(test.comparators[0], ast.Constant) and test.comparators[0].value == 0:
            return [src(test.left)]
        return []

    def binop(self, node, left_expr, a, op, b):
        if isinstance(op, (ast.Add, ast.Sub)):
            if isinstance(a, tuple) and a[0] in ("L", "R") and isinstance(b, tuple) and b[0] in ("L", "R") and isinstance(op, ast.Add):
                if compat(a[1], b[1]):
                    return ("L", b[1] if a[1] == ANY else a[1])
                return ("L", "1+2")  # axes of both tensors in one list: ill-typed wherever it is used
            if isinstance(a, tuple) and a[0] == "A" and isinstance(b, tuple) and b[0] == "N" and isinstance(op, ast.Add):
                if src(left_expr) in self.neg:
                    self.check(node, b[1], a[1], "a negative axis number normalised with a number of dimensions")
                    return ("A", a[1])
            return None
        if isinstance(op, ast.Mod) and isinstance(a, tuple) and a[0] == "A" and isinstance(b, tuple) and b[0] == "N":
            self.check(node, b[1], a[1], "an axis number reduced modulo a number of dimensions")
            return ("A", a[1])
        return None

    def call(self, c: ast.Call, env):
        nm = call_name(c)
        args = [self.ev(a, env) for a in c.args]
        for k in c.keywords:
            self.ev(k.value, env)
        a0 = args[0] if args else None
        if nm == "shape" and isinstance(a0, tuple) and a0[0] == "T":
            return ("S", a0[1])
        if nm == "ndim" and isinstance(a0, tuple) and a0[0] == "T":
            return ("N", a0[1])
        if nm == "len" and isinstance(a0, tuple) and a0[0] in ("S", "P"):
            return ("N", a0[1])
        if nm == "range" and len(args) == 1 and isinstance(a0, tuple) and a0[0] == "N":
            return ("R", a0[1])
        if nm in ("list", "tuple", "sorted") and isinstance(a0, tuple) and a0[0] in ("L", "R", "S", "P"):
            return ("L", a0[1]) if a0[0] == "R" else a0
        if nm in ("list", "tuple") and isinstance(a0, tuple) and a0[0] == "M":
            return None
        if nm == "enumerate" and args:
            return ("ENUM", a0)
        if nm == "zip":
            return ("ZIP", args)
        if nm == "transpose" and len(args) >= 2 and isinstance(a0, tuple) and a0[0] == "T" and isinstance(args[1], tuple) and args[1][0] in ("L", "R"):
            self.check(c, a0[1], args[1][1], "a tensor transposed with a list of axis numbers")
            return None
        # the validator, analysed with the families of this call's arguments
        if self.depth < 2:
            tgt = self.ctx.repo.resolve_call(self.f, self.f.module, c)
            for g in tgt.funcs if tgt is not None else []:
                if g.qname == VALIDATOR:
                    b = bind_call(c, g, bound=False)
                    s1, s2 = (self.ev(b.params.get(p), env) if b.params.get(p) is not None else None for p in ("shape1", "shape2"))
                    k1 = fam(s1) if isinstance(s1, tuple) and s1[0] == "S" else None
                    k2 = fam(s2) if isinstance(s2, tuple) and s2[0] == "S" else None
                    if k1 is None or k2 is None:
                        return None
                    sub = FamilyEval(self.ctx, self.rule, g, self.depth + 1)
                    sub.quiet = True
                    return sub.summary({"shape1": ("S", k1), "shape2": ("S", k2), "modes": ("M", (k1, k2))})
        return None

    # -- statements -------------------------------------------------------------------
    def summary(self, env):
        """evaluate the function; the joined return value"""
        self.block(self.f.node.body, env)
        out = None
        for _, v in self.returns:
            if isinstance(v, tuple) and v[0] == "TUP" and isinstance(out, tuple) and out[0] == "TUP" and len(out[1]) == len(v[1]):
                out = ("TUP", [join(x, y) for x, y in zip(out[1], v[1])])
            else:
                out = join(out, v)
        return out

    def block(self, stmts, env):
        for s in stmts:
            if isinstance(s, ast.Assign):
                v = self.ev(s.value, env)
                for t in s.targets:
                    if isinstance(t, ast.Name) and isinstance(v, tuple) and v[0] == "M":
                        env[t.id] = ("L", ANY)  # one specification used for both tensors
                    else:
                        self.bind(t, v, env)
            elif isinstance(s, ast.AugAssign):
                cur = self.ev(s.target, env)
                v = self.ev(s.value, env)
                r = self.binop(s, s.target, cur, s.op, v)
                if isinstance(s.target, ast.Name):
                    env[s.target.id] = r
            elif isinstance(s, ast.Expr):
                self.ev(s.value, env)
            elif isinstance(s, ast.Return):
                self.returns.append((s, self.ev(s.value, env)))
            elif isinstance(s, ast.If):
                g = self.neg_guard(s.test)
                self.ev(s.test, env)
                e1, e2 = dict(env), dict(env)
                self.neg.extend(g)
                self.block(s.body, e1)
                del self.neg[len(self.neg) - len(g):]
                self.block(s.orelse, e2)
                self.merge(env, e1, e2)
            elif isinstance(s, (ast.For, ast.While)):
                for _ in range(2):
                    e1 = dict(env)
                    if isinstance(s, ast.For):
                        self.bind(s.target, self.elem_of(self.ev(s.iter, e1)), e1)
                    else:
                        self.ev(s.test, e1)
                    self.block(s.body, e1)
                    self.merge(env, dict(env), e1)
                self.block(s.orelse, env)
            elif isinstance(s, ast.Try):
                e1 = dict(env)
                self.block(s.body, e1)
                outs = [e1]
                for h in s.handlers:
                    eh = dict(env)
                    self.block(h.body, eh)
                    outs.append(eh)
                acc = outs[0]
                for o in outs[1:]:
                    m = {}
                    self.merge(m, acc, o)
                    acc = m
                env.clear()
                env.update(acc)
                self.block(s.orelse, env)
                self.block(s.finalbody, env)
            elif isinstance(s, ast.With):
                self.block(s.body, env)
            # raise / assert / pass / imports: nothing to type (messages are not checked)

    def merge(self, env, e1, e2):
        keys = set(e1) | set(e2)
        out = {k: join(e1.get(k), e2.get(k)) for k in keys}
        env.clear()
        env.update(out)


def run_family(ctx: Ctx, rule="AXIS-FAMILY"):
    repo = ctx.repo
    total = 0
    for q, entry in ENTRY.items():
        f = repo.func(q)
        missing = [p for p in entry if p not in f.all_params]
        if missing:
            raise AnalysisError(f"{rule}: {q} no longer has parameter(s) {missing}; the family seeds are stale")
        ev = FamilyEval(ctx, rule, f)
        ev.block(f.node.body, dict(entry))
        total += ev.checks
        if q == VALIDATOR:
            if not ev.returns:
                raise AnalysisError(f"{rule}: {q} has no return")
            for node, v in ev.returns:
                ok = isinstance(v, tuple) and v[0] == "TUP" and len(v[1]) == 2
                fams = [fam(x) if isinstance(x, tuple) and x[0] in ("L", "R") else None for x in v[1]] if ok else None
                ctx.res.instance(rule, f"{q}: {src(node)[:60]}", sample={"return_families": fams})
                if fams is None or None in fams:
                    raise AnalysisError(f"{rule}: the value returned by {q} could not be typed ({src(node)[:60]})")
                if not (compat(fams[0], 1) and compat(fams[1], 2)) or "?" in fams:
                    ctx.finding(rule, f, node, f"`{src(node)[:80]}` returns the axis lists as (axes of tensor {fams[0]}, axes of tensor {fams[1]}); every caller unpacks them as (modes of the first tensor, modes of the second tensor)", construct=f"{src(node)[:80]} families {fams}")
    return total
