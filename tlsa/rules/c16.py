"""C16 — seeded calls are reproducible (full for the dataflow clause).

RNG-PROVENANCE  every random draw reachable from a seed-accepting entry point is made on a
                generator derived from that entry point's seed; every call that can reach a
                draw is handed the seed through an unbroken chain of forwards
NO-GLOBAL-RNG   no global-RNG draw / reseed is reachable from a seed-accepting function
SEED-MAP        check_random_state returns the global generator only for seed None, builds
                a fresh RandomState from an int, and never touches global state
"""

from __future__ import annotations

import ast
from typing import Dict, Optional

from ..cfg import build_cfg
from ..common import Ctx, call_name, is_const, is_name, kwarg, src
from ..explore import _UNKNOWN, Explorer, const_of
from ..model import AnalysisError, FunctionInfo, bind_call, own_scope_nodes

SEED_NAMES = ("random_state", "seed")
DRAW_METHODS = {
    "random_sample", "randn", "normal", "randint", "choice", "rand", "gamma", "uniform",
    "permutation", "shuffle", "standard_normal", "random", "beta", "binomial", "poisson",
    "exponential", "multinomial", "bytes", "dirichlet", "laplace", "lognormal", "ranf", "sample",
    "random_integers", "standard_gamma", "chisquare", "integers",
}
GLOBAL_MUTATORS = {"seed", "set_state"}
BACKEND_DRAWS = {"randn": "seed", "gamma": "seed"}

# call sites excused with a reason (callee, caller) -- confirmed by reading
EXCEPTIONS: Dict[tuple, str] = {
    (
        "tensorly.decomposition._cp.initialize_cp",
        "tensorly.regression.cp_plsr.CP_PLSR.fit",
    ): "rank-1 SVD initialiser with the default truncated_svd: its only draw is the random padding under `tensor.shape[mode] < rank`, i.e. a mode of size < 1, which cannot occur for the tensordot result Z",
}


class Rng:
    def __init__(self, ctx: Ctx):
        self.ctx = ctx
        self.repo = ctx.repo
        self._seed_info = {}
        self._analysis = {}
        self._may_draw = {}
        self._in_progress = set()
        self._cfg = {}
        self._tracked = {}
        self._relevant = {}
        self.states = 0

    # -- who accepts a seed ---------------------------------------------------------
    def seed_info(self, f: FunctionInfo, _depth=0):
        if f.qname in self._seed_info:
            return self._seed_info[f.qname]
        self._seed_info[f.qname] = None  # recursion guard
        info = None
        for n in SEED_NAMES:
            if n in f.all_params and n != f.kwarg and n != f.vararg:
                info = ("param", n)
                break
        if info is None and f.cls is not None and f.self_name and f.name != "__init__":
            init = f.cls.find_method("__init__")
            if init is not None:
                for s in own_scope_nodes(init.node):
                    if isinstance(s, ast.Assign) and len(s.targets) == 1 and isinstance(s.targets[0], ast.Attribute) and s.targets[0].attr in SEED_NAMES and is_name(s.targets[0].value, init.self_name):
                        info = ("self", s.targets[0].attr)
        if info is None and f.kwarg and _depth < 6:
            # **kwargs forwarded to a seed-accepting callee
            for c in own_scope_nodes(f.node):
                if isinstance(c, ast.Call) and any(k.arg is None and is_name(k.value, f.kwarg) for k in c.keywords):
                    for g in self._callees_static(f, c):
                        gi = self.seed_info(g, _depth + 1)
                        if gi is not None and gi[0] in ("param", "kwargs"):
                            info = ("kwargs", f.kwarg, gi[1] if gi[0] == "param" else gi[2])
        if info is None and f.cls is None:
            # a helper that takes the generator under another name: the parameter it draws on, or hands on as
            # `random_state=` / to check_random_state, is its seed
            for p_ in f.all_params:
                used = False
                for c in own_scope_nodes(f.node):
                    if not isinstance(c, ast.Call):
                        continue
                    if isinstance(c.func, ast.Attribute) and c.func.attr in DRAW_METHODS and is_name(c.func.value, p_):
                        used = True
                    if any(k.arg in SEED_NAMES and is_name(k.value, p_) for k in c.keywords):
                        used = True
                    if (getattr(c.func, "attr", None) == "check_random_state" or getattr(c.func, "id", None) == "check_random_state") and c.args and is_name(c.args[0], p_):
                        used = True
                    if not used and _depth < 4 and any(is_name(a_, p_) for a_ in list(c.args) + [k.value for k in c.keywords]):
                        # handed on to a callee (a nested / private helper) as *its* seed
                        for g_ in self._callees_static(f, c):
                            gi_ = self.seed_info(g_, _depth + 1)
                            if gi_ is not None and gi_[0] == "param":
                                b_ = bind_call(c, g_, False)
                                if is_name(b_.params.get(gi_[1]), p_):
                                    used = True
                if used and p_ not in (f.local_names() - set(f.all_params)):
                    info = ("param", p_)
                    break
        if info is None and f.parent is not None:
            # a helper nested in a seeded function whose captured generator was made an explicit parameter
            # (lambda lifting): that parameter is its seed
            lifted = [v for v in getattr(f.node, "_lifted", ()) if v in self.tracked_names(f.parent) and v in f.all_params]
            if lifted and self.seed_info(f.parent) is not None:
                pref = [v for v in lifted if v not in SEED_NAMES] or lifted
                info = ("param", pref[0])
        if info is None and f.parent is not None:
            pi = self.seed_info(f.parent)
            if pi is not None and pi[0] == "param":
                # closure over the enclosing seed parameter (if never re-bound there)
                if pi[1] not in (f.parent.local_names() - set(f.parent.all_params)) and pi[1] not in f.local_names():
                    info = ("closure", pi[1])
        self._seed_info[f.qname] = info
        return info

    def _callees_static(self, f, call):
        """Repo callees of ``call`` incl. function-valued locals (flow-insensitive)."""
        ct = self.repo.resolve_call(f, f.module, call)
        if ct.kind == "repo":
            return list(ct.funcs)
        out = []
        if ct.kind == "local" and isinstance(call.func, ast.Name):
            for s in own_scope_nodes(f.node):
                if isinstance(s, ast.Assign) and len(s.targets) == 1 and is_name(s.targets[0], call.func.id):
                    e = self.repo.resolve_expr(f, f.module, s.value)
                    if e is not None and e.kind == "func":
                        out.append(e.value)
        return out

    # -- per (function, specialisation) analysis ----------------------------------------
    # -- static (flow-insensitive, unspecialised) may-draw closure: used only to prune
    #    the CFG of statements that cannot matter ------------------------------------------
    def static_draw_set(self):
        if hasattr(self, "_sd"):
            return self._sd
        direct = set()
        calls = {}
        for f in self.repo.iter_functions():
            cs = set()
            for c in own_scope_nodes(f.node):
                if not isinstance(c, ast.Call):
                    continue
                fn = c.func
                if isinstance(fn, ast.Attribute) and (fn.attr in DRAW_METHODS or fn.attr in GLOBAL_MUTATORS):
                    direct.add(f.qname)
                ct = self.repo.resolve_call(f, f.module, c)
                if ct.kind == "backend" and ct.name in BACKEND_DRAWS:
                    direct.add(f.qname)
                for g in self._callees_static(f, c):
                    cs.add(g.qname)
            for n in f.nested_all.values():
                for g in n:
                    cs.add(g.qname)
            calls[f.qname] = cs
        sd = set(direct)
        changed = True
        while changed:
            changed = False
            for q, cs in calls.items():
                if q not in sd and cs & sd:
                    sd.add(q)
                    changed = True
            # constructing an object whose methods may draw is itself seed-relevant
            for c in self.repo.classes.values():
                init = c.methods.get("__init__")
                if init is not None and init.qname not in sd and any(m.qname in sd for m in c.methods.values()):
                    sd.add(init.qname)
                    changed = True
        self._sd = sd
        return sd

    def tracked_names(self, f):
        r = self._tracked.get(f.qname)
        if r is None:
            r = self._tracked_names(f)
            self._tracked[f.qname] = r
        return r

    def _tracked_names(self, f):
        """Names whose value may be a seed / generator / function (flow-insensitive)."""
        t = set(SEED_NAMES) | {"rng", "rns"}
        if f.kwarg:
            t.add(f.kwarg)
        changed = True
        while changed:
            changed = False
            for s in own_scope_nodes(f.node):
                if isinstance(s, ast.Assign):
                    v = s.value
                    def carrier(v):
                        if isinstance(v, ast.Name):
                            return v.id in t
                        if isinstance(v, ast.Attribute):
                            return v.attr in SEED_NAMES
                        if isinstance(v, ast.IfExp):
                            return carrier(v.body) or carrier(v.orelse)
                        if isinstance(v, ast.Call):
                            return call_name(v) in ("check_random_state", "RandomState")
                        return False

                    hit = carrier(v)
                    if not hit and isinstance(v, (ast.Name, ast.Attribute)):
                        e = self.repo.resolve_expr(f, f.module, v)
                        hit = e is not None and e.kind == "func"
                    if hit:
                        for tg in s.targets:
                            for x in ast.walk(tg):
                                if isinstance(x, ast.Name) and x.id not in t:
                                    t.add(x.id)
                                    changed = True
        return t

    def relevant(self, f):
        r = self._relevant.get(f.qname)
        if r is None:
            r = self._mk_relevant(f)
            self._relevant[f.qname] = r
        return r

    def _mk_relevant(self, f):
        sd = self.static_draw_set()
        tracked = self.tracked_names(f)
        repo = self.repo

        def rel(n):
            if isinstance(n, ast.Call):
                fn = n.func
                if isinstance(fn, ast.Attribute) and (fn.attr in DRAW_METHODS or fn.attr in GLOBAL_MUTATORS):
                    return True
                ct = repo.resolve_call(f, f.module, n)
                if ct.kind == "backend" and ct.name in BACKEND_DRAWS:
                    return True
                if ct.kind == "repo" and any(g.qname in sd for g in ct.funcs):
                    return True
                if ct.kind == "local" and isinstance(fn, ast.Name) and fn.id in tracked:
                    return True
                return False
            if isinstance(n, ast.Name) and n.id in tracked and isinstance(n.ctx, ast.Store):
                return True
            return False

        return rel

    def cfg(self, f):
        g = self._cfg.get(f.qname)
        if g is None:
            rel = self.relevant(f)

            def opaque(stmt):
                for n in ast.walk(stmt):
                    if rel(n):
                        return False
                return True

            g = build_cfg(f.node, f.qname, opaque=opaque)
            self._cfg[f.qname] = g
        return g

    def analyse(self, f: FunctionInfo, sigma: frozenset):
        key = (f.qname, sigma)
        r = self._analysis.get(key)
        if r is not None:
            return r
        rule = _RngRule(self, f)
        ex = Explorer(self.cfg(f), rule, dict(sigma)).run()
        self.states += ex.states
        if ex.truncated:
            raise AnalysisError(f"path exploration of {f.qname} exceeded the state budget")
        r = rule.events
        self._analysis[key] = r
        return r

    def may_draw(self, f: FunctionInfo, sigma: frozenset) -> bool:
        key = (f.qname, sigma)
        if key in self._may_draw:
            return self._may_draw[key]
        if key in self._in_progress:
            return False
        self._in_progress.add(key)
        ev = self.analyse(f, sigma)
        res = False
        for e in ev.values():
            if e["kind"] in ("draw", "gdraw", "bdraw"):
                res = True
                break
        if not res:
            for e in ev.values():
                if e["kind"] == "call":
                    for (gq, sg) in e["callees"]:
                        if self.may_draw(self.repo.functions[gq], sg):
                            res = True
                            break
                if res:
                    break
        if not res and f.name == "__init__" and f.cls is not None:
            # an object that carries its seed: constructing it must hand the seed over
            # whenever one of its methods can draw
            for m in f.cls.methods.values():
                mi = self.seed_info(m)
                if m is not f and mi is not None and mi[0] == "self" and self.may_draw(m, frozenset()):
                    res = True
                    break
        self._in_progress.discard(key)
        self._may_draw[key] = res
        return res


def _sigma_for(callee: FunctionInfo, call: ast.Call, bound: bool, consts: dict) -> frozenset:
    b = bind_call(call, callee, bound)
    out = {}
    params = list(callee.pos_params[1:] if bound and callee.pos_params else callee.pos_params) + callee.kwonly_params
    dflt = callee.defaults
    for p in params:
        a = b.params.get(p)
        if a is None:
            if b.star_args or b.star_kwargs:
                continue
            d = dflt.get(p)
            if d is None:
                continue
            v = const_of(d, opaque=True)
        else:
            if isinstance(a, ast.Name) and a.id in consts:
                v = consts[a.id]
            else:
                v = const_of(a, opaque=True)
        if v is _UNKNOWN or isinstance(v, float):
            continue
        try:
            hash(v)
        except TypeError:
            continue
        out[p] = v
    return frozenset(out.items())


class _RngRule:
    def __init__(self, rng: Rng, f: FunctionInfo):
        self.rng, self.f = rng, f
        self.repo = rng.repo
        self.events = {}
        self._ops = {}
        self.info = rng.seed_info(f)

    def init_state(self):
        env = {}
        i = self.info
        if i is not None:
            if i[0] in ("param", "closure"):
                env[i[1]] = "S"
            elif i[0] == "kwargs":
                env["**" + i[1]] = "S"
        return frozenset(env.items())

    # provenance of an expression ---------------------------------------------------
    def prov(self, e, env):
        if e is None:
            return "N"
        if isinstance(e, ast.Constant):
            return "N" if e.value is None else "O"
        if isinstance(e, ast.Name):
            return env.get(e.id, "O")
        if isinstance(e, ast.Attribute):
            i = self.info
            if i is not None and i[0] == "self" and e.attr == i[1] and is_name(e.value, self.f.self_name):
                return "S"
            return "O"
        if isinstance(e, ast.IfExp):
            a, b = self.prov(e.body, env), self.prov(e.orelse, env)
            return a if a == b else ("G" if "G" in (a, b) or "N" in (a, b) else "O")
        if isinstance(e, ast.Call):
            ct = self.repo.resolve_call(self.f, self.f.module, e)
            nm = ct.name if ct.kind in ("backend", "ext") else (ct.funcs[0].name if ct.kind == "repo" and ct.funcs else call_name(e))
            nm = (nm or "").rsplit(".", 1)[-1]
            if nm == "check_random_state":
                arg = e.args[0] if e.args else kwarg(e, "seed")
                p = self.prov(arg, env) if arg is not None else "N"
                if p == "S":
                    return "S"
                if p in ("N", "G"):
                    return "G"
                return "O"
            if nm == "RandomState" and ct.kind == "ext":
                arg = e.args[0] if e.args else kwarg(e, "seed")
                if arg is None:
                    return "G"  # seeded from OS entropy: not reproducible
                p = self.prov(arg, env)
                if p == "S" or const_of(arg) is not _UNKNOWN:
                    return "S"
                return "O"
        return "O"

    def _event(self, call, kind, **kw):
        ev = self.events.setdefault(id(call), {"node": call, "kind": kind, "provs": set(), "callees": set(), "no_seed_param": set()})
        return ev

    def transfer(self, node, st, ex):
        a = node.ast
        if a is None or node.kind not in ("stmt", "test", "return", "for", "with", "raise"):
            return st
        ops = self._ops.get(node.id)
        if ops is None:
            ops = self._node_ops(node)
            self._ops[node.id] = ops
        calls, assigns = ops
        if not calls and not assigns:
            return st
        env = dict(st)
        consts = dict(ex._cur[3]) if (ex._cur and calls) else {}
        for c in calls:
            self._call(c, env, consts)
        for kind, target, value in assigns:
            if kind == "assign":
                self._assign(target, value, env)
            else:
                env.pop(target, None)
        return frozenset(env.items())

    def _node_ops(self, node):
        a = node.ast
        if node.kind == "for":
            scan = [a.iter]
        elif node.kind == "with":
            scan = [it.context_expr for it in a.items]
        else:
            scan = [a]
        calls = []
        for root in scan:
            if isinstance(root, (ast.FunctionDef, ast.AsyncFunctionDef, ast.ClassDef)):
                continue  # a definition executes nothing; the closure is analysed on its own
            calls.extend(self._calls(root))
        rel = self.rng.relevant(self.f)
        calls = [c for c in calls if rel(c)]
        assigns = []
        tracked = self.rng.tracked_names(self.f)
        if node.kind == "stmt":
            if isinstance(a, ast.Assign):
                for t in a.targets:
                    if isinstance(t, ast.Name):
                        if t.id in tracked:
                            assigns.append(("assign", t, a.value))
                    else:
                        for x in ast.walk(t):
                            if isinstance(x, ast.Name) and isinstance(x.ctx, ast.Store) and x.id in tracked:
                                assigns.append(("kill", x.id, None))
            elif isinstance(a, ast.AnnAssign) and a.value is not None and isinstance(a.target, ast.Name) and a.target.id in tracked:
                assigns.append(("assign", a.target, a.value))
            elif isinstance(a, ast.AugAssign) and isinstance(a.target, ast.Name) and a.target.id in tracked:
                assigns.append(("kill", a.target.id, None))
            elif isinstance(a, (ast.FunctionDef, ast.AsyncFunctionDef)) and a.name in tracked:
                assigns.append(("kill", a.name, None))
            elif node.note == "opaque":
                from ..cfg import all_assigned_names

                for nm in all_assigned_names(a):
                    if nm in tracked:
                        assigns.append(("kill", nm, None))
        elif node.kind == "for":
            for x in ast.walk(a.target):
                if isinstance(x, ast.Name) and x.id in tracked:
                    assigns.append(("kill", x.id, None))
        elif node.kind == "with":
            for it in a.items:
                if it.optional_vars is not None:
                    for x in ast.walk(it.optional_vars):
                        if isinstance(x, ast.Name) and x.id in tracked:
                            assigns.append(("kill", x.id, None))
        return calls, assigns

    def _calls(self, root):
        """Calls of this scope inside ``root`` (nested defs / lambdas excluded)."""
        stack = [root]
        out = []
        while stack:
            n = stack.pop()
            if isinstance(n, (ast.FunctionDef, ast.AsyncFunctionDef, ast.Lambda, ast.ClassDef)) and n is not root:
                continue
            if isinstance(n, ast.Call):
                out.append(n)
            stack.extend(ast.iter_child_nodes(n))
        return out

    def _assign(self, target, value, env):
        if isinstance(target, ast.Name):
            p = self.prov(value, env)
            if p != "O":
                env[target.id] = p
                return
            e = self.repo.resolve_expr(self.f, self.f.module, value) if isinstance(value, (ast.Name, ast.Attribute)) else None
            if e is not None and e.kind == "func":
                env[target.id] = ("F", e.value.qname)
                return
            env.pop(target.id, None)
        else:
            for x in ast.walk(target):
                if isinstance(x, ast.Name) and isinstance(x.ctx, ast.Store):
                    env.pop(x.id, None)

    def _call(self, c, env, consts):
        repo = self.repo
        fn = c.func
        # 1. draws / global mutators on a receiver
        if isinstance(fn, ast.Attribute) and (fn.attr in DRAW_METHODS or fn.attr in GLOBAL_MUTATORS):
            re = repo.resolve_expr(self.f, self.f.module, fn.value)
            if re is not None and re.kind == "ext" and str(re.value) in ("numpy.random", "numpy.random.mtrand"):
                ev = self._event(c, "gdraw" if fn.attr in DRAW_METHODS else "gmut")
                ev["provs"].add("G")
                return
            if fn.attr in DRAW_METHODS:
                p = self.prov(fn.value, env)
                looks_rng = p != "O" or (isinstance(fn.value, ast.Name) and fn.value.id in ("rng", "rns", "random_state", "prng", "generator"))
                if looks_rng or fn.attr in ("random_sample", "randn", "randint", "normal", "rand", "standard_normal"):
                    ev = self._event(c, "draw")
                    ev["provs"].add(p)
                    return
        ct = repo.resolve_call(self.f, self.f.module, c)
        # 2. backend draws with a seed keyword
        if ct.kind == "backend" and ct.name in BACKEND_DRAWS:
            sk = kwarg(c, BACKEND_DRAWS[ct.name])
            ev = self._event(c, "bdraw")
            ev["provs"].add(self.prov(sk, env) if sk is not None else "N")
            return
        # 3. calls into the repository
        callees = []
        if ct.kind == "repo":
            callees = [(g, ct.bound) for g in ct.funcs]
        elif ct.kind == "local" and isinstance(fn, ast.Name):
            v = env.get(fn.id)
            if isinstance(v, tuple) and v[0] == "F":
                callees = [(repo.functions[v[1]], False)]
        if not callees:
            return
        ev = self._event(c, "call")
        for g, bound in callees:
            sg = _sigma_for(g, c, bound, consts)
            ev["callees"].add((g.qname, sg))
            gi = self.rng.seed_info(g)
            if gi is None:
                ev["no_seed_param"].add(g.qname)
                continue
            b = bind_call(c, g, bound)
            if gi[0] == "param":
                arg = b.params.get(gi[1])
                if arg is None and gi[1] in b.extra_kw:
                    arg = b.extra_kw[gi[1]]
                if arg is None:
                    # may arrive through the caller's own forwarded **kwargs
                    if any(isinstance(k, ast.Name) and env.get("**" + k.id) == "S" for k in b.star_kwargs):
                        ev["provs"].add("S")
                    else:
                        ev["provs"].add("N")
                else:
                    ev["provs"].add(self.prov(arg, env))
            elif gi[0] == "kwargs":
                arg = b.extra_kw.get(gi[2])
                if arg is None:
                    if any(isinstance(k, ast.Name) and env.get("**" + k.id) == "S" for k in b.star_kwargs):
                        ev["provs"].add("S")
                    else:
                        ev["provs"].add("N")
                else:
                    ev["provs"].add(self.prov(arg, env))
            elif gi[0] == "self":
                ev["provs"].add("S")  # the object carries its own seed
            elif gi[0] == "closure":
                ev["provs"].add("S")


# ---------------------------------------------------------------------------------
def seed_kept_as_given(ctx: Ctx):
    repo, res = ctx.repo, ctx.res
    n = 0
    for ci in repo.classes.values() if hasattr(repo, "classes") else []:
        init = ci.methods.get("__init__")
        if init is None:
            continue
        seeds = [p for p in init.all_params if p in SEED_NAMES]
        if not seeds:
            continue
        for p in seeds:
            n += 1
            problems = []
            for c in own_scope_nodes(init.node):
                if isinstance(c, ast.Call) and (call_name(c) or "") in ("check_random_state", "RandomState", "default_rng", "Generator") and any(isinstance(x, ast.Name) and x.id == p for a in list(c.args) + [k.value for k in c.keywords] for x in ast.walk(a)):
                    problems.append((c, f"`{src(c)[:70]}` makes a generator from `{p}` at construction"))
                if isinstance(c, ast.Assign) and any(isinstance(t, ast.Attribute) and is_name(t.value, init.self_name) for t in c.targets) and any(isinstance(x, ast.Name) and x.id == p for x in ast.walk(c.value)) and not is_name(c.value, p):
                    if not any(c is q[0] or any(y is q[0] for y in ast.walk(c)) for q in problems):
                        problems.append((c, f"`{src(c)[:70]}` stores something computed from `{p}` instead of `{p}` itself"))
            res.instance("SEED-KEPT-AS-GIVEN", f"{ci.qname}.__init__({p})", sample={"ok": not problems})
            for node, why in problems[:1]:
                ctx.finding("SEED-KEPT-AS-GIVEN", init, node, f"{ci.name}.__init__: {why}. With an integer seed every fit is documented to be reproducible; a generator kept on the object is advanced by each fit (and handed out by get_params to clones), so fitting twice, or fitting a clone, with the same seed gives different results", construct=f"{ci.name}.__init__: seed {p} not kept as given")
    if n == 0:
        raise AnalysisError("SEED-KEPT-AS-GIVEN: no class constructor takes a seed any more; cannot decide")


def run(ctx: Ctx):
    repo, res = ctx.repo, ctx.res
    res.rule("RNG-PROVENANCE", "in every seed-accepting function, on every branch-consistent path, each draw is made on a generator derived from the function's seed and each call that can reach a draw (under the call site's literal specialisation) forwards the seed; helpers on such a chain must accept a seed", floor=60)
    res.rule("NO-GLOBAL-RNG", "np.random.<draw|seed|set_state> is not reachable from any seed-accepting function; np.random.seed / set_state do not appear in scope at all", floor=2)
    res.rule("SEED-MAP", "check_random_state returns the global generator only under `seed is None`, a fresh RandomState(seed) for an int, the generator itself for a RandomState, and calls no global-state mutator", floor=3)
    res.assume(
        "numpy.random.RandomState is deterministic given its seed (trusted)",
        "user callables (callback, callable SVD method) make no random draws",
        "a draw is a method call named like a RandomState sampling method on a generator-valued receiver, or tl.randn/tl.gamma",
    )
    res.rule("SEED-KEPT-AS-GIVEN", "a constructor that takes a seed stores it as given (`self.random_state = random_state`) and makes no generator from it: a generator made at construction is shared by every later fit and by get_params / clones, so the second fit with the same integer seed draws from an advanced stream and differs from the first", floor=2)
    ctx.guarded(seed_kept_as_given, ctx)
    rng = Rng(ctx)
    entries = [f for f in repo.iter_functions() if rng.seed_info(f) is not None]
    n_draw = n_call = 0
    empty = frozenset()
    for f in sorted(entries, key=lambda x: x.qname):
        info = rng.seed_info(f)
        sigma = empty
        parent = getattr(f, "parent", None)
        if parent is not None and f.cls is None:
            # a helper nested in a function is only ever called from there: it is analysed under what every one of
            # those call sites fixes (a literal tuple as `init`, a literal option), not with unknown arguments
            sites = [c for c in ast.walk(parent.node) if isinstance(c, ast.Call) and isinstance(c.func, ast.Name) and c.func.id == f.name]
            escapes = any(isinstance(n, ast.Name) and n.id == f.name and isinstance(n.ctx, ast.Load) and not any(n is c.func for c in sites) for n in ast.walk(parent.node))
            if sites and not escapes:
                common = None
                for c in sites:
                    sg = set(_sigma_for(f, c, False, {}))
                    common = sg if common is None else (common & sg)
                sigma = frozenset(common or ())
        ev = rng.analyse(f, sigma)
        for e in ev.values():
            c = e["node"]
            if e["kind"] in ("draw", "bdraw"):
                n_draw += 1
                bad = e["provs"] - {"S"}
                res.instance("RNG-PROVENANCE", f"{f.qname}: draw {src(c)[:80]}", sample={"line": c.lineno, "provenance": sorted(e["provs"])})
                if bad:
                    what = "the global NumPy generator" if bad & {"G", "N"} else "a generator that is not derived from the seed argument"
                    ctx.finding("RNG-PROVENANCE", f, c, f"random draw on {what} inside a seed-accepting function (seed `{info[1]}`): the result depends on / disturbs global RNG state", construct=f"draw {src(c)}")
            elif e["kind"] in ("gdraw", "gmut"):
                res.instance("NO-GLOBAL-RNG", f"{f.qname}: {src(c)[:80]}")
                ctx.finding("NO-GLOBAL-RNG", f, c, "global NumPy RNG is used inside a seed-accepting function", construct=src(c))
            elif e["kind"] == "call":
                need = [(gq, sg) for (gq, sg) in e["callees"] if rng.may_draw(repo.functions[gq], sg)]
                if not need:
                    res.instance("RNG-PROVENANCE", f"{f.qname}: call {src(c)[:60]}", nontrivial=False)
                    continue
                n_call += 1
                res.instance("RNG-PROVENANCE", f"{f.qname}: call {src(c)[:80]}", sample={"line": c.lineno, "callees": [g for g, _ in need], "seed_provenance": sorted(e["provs"])} if n_call % 7 == 0 else None)
                for gq, sg in need:
                    if (gq, f.qname) in EXCEPTIONS:
                        continue
                    if gq in e["no_seed_param"]:
                        ctx.finding("RNG-PROVENANCE", f, c, f"`{repo.functions[gq].name}` can reach a random draw (specialisation {dict(sg)}) but accepts no seed: the chain from `{f.name}`'s seed to that draw is broken here, the draw uses the global generator", construct=f"{src(c)[:110]} -> {gq} has no seed parameter")
                bad = e["provs"] - {"S"}
                if bad and any(gq not in e["no_seed_param"] and (gq, f.qname) not in EXCEPTIONS for gq, _ in need):
                    gq = [g for g, _ in need if g not in e["no_seed_param"]][0]
                    gi = rng.seed_info(repo.functions[gq])
                    ctx.finding("RNG-PROVENANCE", f, c, f"`{repo.functions[gq].name}` can reach a random draw here but is not handed `{f.name}`'s seed (its `{gi[1] if gi[0]=='param' else gi[2]}` is {'missing/None' if bad & {'N','G'} else 'not derived from the seed'}): results are not reproducible from the seed and advance the global generator", construct=f"{src(c)[:110]} -> {gq} without seed")
    res.stats["seed_accepting_functions"] = len(entries)
    res.stats["draw_sites_checked"] = n_draw
    res.stats["seed_relevant_calls_checked"] = n_call
    res.stats["specialisations_analysed"] = len(rng._analysis)
    res.stats["states_explored"] = rng.states
    ctx.guarded(no_global, ctx, rng, entries)
    ctx.guarded(seed_map, ctx)


def no_global(ctx, rng: Rng, entries):
    repo, res = ctx.repo, ctx.res
    sites = []
    for f in repo.iter_functions():
        for c in own_scope_nodes(f.node):
            if isinstance(c, ast.Call) and isinstance(c.func, ast.Attribute):
                e = repo.resolve_expr(f, f.module, c.func.value)
                if e is not None and e.kind == "ext" and str(e.value) in ("numpy.random", "numpy.random.mtrand"):
                    sites.append((f, c))
    # positive control
    res.stats["global_rng_sites"] = [f"{f.qname}: {src(c)[:60]}" for f, c in sites]
    draws = [(f, c) for f, c in sites if c.func.attr in DRAW_METHODS]
    for f, c in sites:
        res.instance("NO-GLOBAL-RNG", f"{f.qname}: {src(c)[:70]}", sample={"line": c.lineno})
        if c.func.attr in GLOBAL_MUTATORS:
            ctx.finding("NO-GLOBAL-RNG", f, c, "the global NumPy RNG state is reseeded / overwritten", construct=src(c))
    if len(draws) < 1:
        raise AnalysisError("NO-GLOBAL-RNG positive control failed: the scan no longer finds any np.random.<draw> site (two are known in the power-iteration modules); the matcher is broken or the tree changed")


def seed_map(ctx):
    repo, res = ctx.repo, ctx.res
    f = repo.func("tensorly.backend.core.Backend.check_random_state")
    seedp = f.pos_params[0] if f.is_static else f.call_params[0]

    class R:
        def init_state(self):
            return "?"  # "?": unknown, True: seed is None, False: seed is not None

        def transfer(self, node, st, ex):
            a = node.ast
            if node.kind == "return" and a.value is not None:
                v = a.value
                e = repo.resolve_expr(f, f.module, v) if isinstance(v, (ast.Attribute, ast.Name)) else None
                is_global = e is not None and e.kind == "ext" and str(e.value).startswith("numpy.random")
                if is_global:
                    ok = st is True
                    res.instance("SEED-MAP", f"return global generator under seed-is-None: {src(a)}", sample={"ok": ok})
                    if not ok:
                        ex.report(("SEED-MAP", src(a)), "the global generator is returned on a path where the seed is not None: a seeded call draws from global state", node)
                elif is_name(v, seedp):
                    res.instance("SEED-MAP", f"return the given generator: {src(a)}")
                    if st is True:
                        ex.report(("SEED-MAP", src(a)), "returns None as a generator", node)
                elif isinstance(v, ast.Call):
                    ee = repo.resolve_expr(f, f.module, v.func)
                    ok = ee is not None and ee.kind == "ext" and str(ee.value).endswith("RandomState") and len(v.args) == 1 and is_name(v.args[0], seedp)
                    res.instance("SEED-MAP", f"return fresh RandomState(seed): {src(a)}", sample={"ok": ok})
                    if not ok:
                        ex.report(("SEED-MAP", src(a)), "the generator returned for a seed is not RandomState(<that seed>)", node)
                else:
                    ex.report(("SEED-MAP", src(a)), "check_random_state returns something that is neither the global generator (seed None), RandomState(seed) nor the given generator", node)
            if a is not None and node.kind in ("stmt", "return", "test"):
                for c in ast.walk(a):
                    if isinstance(c, ast.Call) and isinstance(c.func, ast.Attribute) and c.func.attr in GLOBAL_MUTATORS:
                        ex.report(("SEED-MAP", src(c)), "check_random_state mutates global RNG state", node)
            return st

        def edge(self, node, label, st, ex):
            if node.kind == "test":
                e = node.ast
                if isinstance(e, ast.Compare) and len(e.ops) == 1 and is_name(e.left, seedp) and is_const(e.comparators[0], None):
                    if isinstance(e.ops[0], ast.Is):
                        return label is True
                    if isinstance(e.ops[0], ast.IsNot):
                        return label is False
            return st

    ex = Explorer(build_cfg(f.node, f.qname), R()).run()
    for v in ex.violations.values():
        ctx.finding("SEED-MAP", f, v.node.ast, v.message, construct=v.key[1], path=v.path)
