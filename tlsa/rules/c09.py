"""C09 — SVD-based decompositions: exact at sufficient rank (partial: structural clauses).

The error bounds in terms of the data's singular spectrum are numerical and are not decided.
Two clauses are visible in the code and are necessary for "reproduces the input tensor
whenever the ranks suffice" and "the advertised ranks are respected":

OUTPUT-DEGREE   dimensional analysis (rules/homog.py): a decomposition that reproduces its
                input must return an object whose represented tensor is homogeneous of degree
                1 in the input (decompose c*X: the reconstruction must be c*X).  For TT-SVD
                and TR-SVD (starting mode 0) all cores but the last are singular-vector blocks
                (degree 0: left-orthogonal cores cannot carry scale) and the last core carries
                S*V (degree 1); for HOOI / HOSVD the factors have degree 0 and the core
                degree 1.  "S applied twice / forgotten", "U*S stored as a core and S*V carried
                on" change a degree.
RANK-CLIPPED    every sequential SVD of TT-SVD / TR-SVD is asked for
                min(rows, columns, requested rank) components -- the number actually stored
                back into the rank vector -- so no core can exceed the requested rank or the
                size of its unfolding; TR's first SVD (rank[0]*rank[1] components) is preceded
                by a test that rejects a request exceeding min(rows, columns).
"""

from __future__ import annotations

import ast

from ..common import Ctx, call_name, is_name, kwarg, src
from ..model import AnalysisError, own_scope_nodes
from .homog import N, ONE, Deg, Evaluator, ListV, Other, Top, degree_of, fmt

X = Deg({"X": ONE}, order=N)
SPECS = [
    ("tensorly.decomposition._tt.tensor_train", {"input_tensor": X}, {}, "list", "TT-SVD"),
    ("tensorly.decomposition._tr_svd.tensor_ring", {"input_tensor": X}, {}, "list", "TR-SVD (mode 0)"),
    ("tensorly.decomposition._tucker.partial_tucker", {"tensor": X, "mask": Other(None, True)}, {"initialize_tucker": ("tuple", [Deg({"X": ONE}), ListV(N, {}, {})])}, "tucker", "HOOI"),
]
SEQUENTIAL = ["tensorly.decomposition._tt.tensor_train", "tensorly.decomposition._tr_svd.tensor_ring"]


def run(ctx: Ctx):
    res = ctx.res
    res.rule("SCALE-FREE-TEST", "dimensional analysis: inside TT-SVD, TR-SVD and HOOI no order comparison sets a quantity that carries the unit of the data (singular values, their squares, norms) against a fixed number (machine epsilon, 1e-10): the outcome of such a test -- which directions are kept -- would change when the input is rescaled, and exactness at sufficient rank would hold only for data of 'ordinary' magnitude", floor=3)
    res.rule("OUTPUT-DEGREE", "dimensional analysis: the tensor represented by the output of TT-SVD, TR-SVD (mode 0) and HOOI is homogeneous of degree 1 in the input tensor; all TT / TR cores but the last and all Tucker factors have degree 0 (orthonormal blocks carry no scale), the last core / the Tucker core degree 1", floor=6)
    res.rule("RANK-CLIPPED", "every sequential SVD in tensor_train / tensor_ring requests min(rows, columns, requested rank) components and stores that number back as the rank; TR's first SVD is guarded by a test against min(rows, columns)", floor=3)
    res.assume(
        "decides degrees and rank clipping only; exactness at sufficient rank, the quasi-optimality bounds and the lower bound by the largest discarded tail are NOT decided",
        "initialize_tucker by specification (HOSVD: orthonormal factors of degree 0, core = projected data of degree 1)",
        "svd_interface by specification (scale-free singular vectors, singular values of the argument's degree; decided for its own code under C05); tensor_ring analysed for mode=0 (the rotation for other starting modes only permutes cores); tensor_train_matrix delegates to tensor_train",
    )
    ctx.guarded(output_degree, ctx)
    ctx.guarded(rank_clipped, ctx)
    res.rule("SVD-OF-UNFOLDING", "dimensional analysis: every matrix handed to an SVD inside tensor_train / tensor_ring / partial_tucker has degree exactly 1 in the data (an unfolding of the tensor or of its projection / remainder), on every branch: factorising a Gram matrix (degree 2) instead squares the condition number", floor=4)
    res.rule("NO-RECAST", "no value computed from an SVD inside tensor_train / tensor_ring / partial_tucker is re-typed to the context or dtype of the data argument (tl.tensor(v, **tl.context(data)), v.astype(data.dtype), dtype=data.dtype): the property quantifies over integer tensors, whose floating-point cores / factors such a cast truncates", floor=3)
    ctx.guarded(no_recast, ctx)
    from .c07 import exact_sweep_svd

    res.rule("EXACT-SWEEP-SVD", "HOOI (partial_tucker): the SVD that updates a factor inside the sweep loop does not take its method from a caller option (exactness at sufficient rank and the quasi-optimality bound rest on orthonormal factors from an exact SVD; the option may choose the initialisation only)", floor=1)
    ctx.guarded(exact_sweep_svd, ctx, "EXACT-SWEEP-SVD")


def output_degree(ctx: Ctx):
    repo, res = ctx.repo, ctx.res
    for qname, seeds, rets, kind, label in SPECS:
        f = repo.func(qname)
        missing = [p for p in seeds if p not in f.all_params]
        if missing:
            raise AnalysisError(f"OUTPUT-DEGREE: {qname} no longer has parameter(s) {missing}")
        env = {}
        for p in f.all_params:
            if p in f.defaults and isinstance(f.defaults[p], ast.Constant):
                env[p] = Other(f.defaults[p].value, f.defaults[p].value is None)
            else:
                env[p] = Other()
        env.update(seeds)
        ev = Evaluator(ctx, f, {})
        ev.ctx_returns = dict(rets)
        ev.run(env)
        # SCALE-FREE-TEST: no order comparison of a quantity carrying the data's unit with a fixed number
        fixed_cmp = [(n_, m_) for n_, m_ in ev.problems if "is compared with the fixed number" in m_]
        res.instance("SCALE-FREE-TEST", f"{label}: order comparisons against fixed numbers", sample={"found": [src(n_)[:60] for n_, _ in fixed_cmp], "ok": not fixed_cmp})
        seen_cmp = set()
        for n_, m_ in fixed_cmp:
            if id(n_) in seen_cmp:
                continue
            seen_cmp.add(id(n_))
            ctx.finding("SCALE-FREE-TEST", f, n_, f"[{label}] `{src(n_)[:80]}`: {m_}. Which singular directions / components are kept then depends on the scale of the input: for data of small magnitude genuine components fall under the fixed threshold and the decomposition is no longer exact at sufficient rank. Compare with a multiple of the largest singular value (or of the data norm) instead", construct=f"{f.name}: absolute threshold {src(n_)[:50]}")
        # SVD-OF-UNFOLDING: what is factorised is the (projected) data itself, of degree 1 -- not its Gram matrix
        seen_svd = set()
        for call_node, d_arg in ev.svd_args:
            if id(call_node) in seen_svd:
                continue
            seen_svd.add(id(call_node))
            if isinstance(d_arg, Top) and d_arg.lost:
                raise AnalysisError(f"SVD-OF-UNFOLDING: the degree of the matrix factorised at `{src(call_node)[:60]}` in {qname} could not be computed ({d_arg.why}); cannot decide")
            ok_svd = d_arg == {"X": ONE}
            res.instance("SVD-OF-UNFOLDING", f"{label}: {src(call_node)[:60]}", sample={"degree_of_the_factorised_matrix": fmt(d_arg), "ok": ok_svd})
            if not ok_svd:
                ctx.finding("SVD-OF-UNFOLDING", f, call_node, f"[{label}] the matrix factorised at `{src(call_node)[:80]}` has degree {fmt(d_arg)} in the data instead of 1: it is not an unfolding of the (projected) tensor but, e.g., its Gram matrix A A^H, whose singular values are the squares -- components below sqrt(machine epsilon) * sigma_max are lost to rounding, so the decomposition is no longer exact to rounding error for ranks that keep them", construct=f"{f.name}: SVD of a degree-{fmt(d_arg)} matrix")
        n = 0
        for node, v, _ in ev.raw_returns:
            lst, head = None, {}
            if kind == "list" and isinstance(v, ListV):
                lst = v
            elif kind == "tucker" and isinstance(v, tuple) and v[0] == "tuple":
                inner = v[1][0] if v[1] and isinstance(v[1][0], tuple) and v[1][0][0] == "tuple" else v
                if len(inner[1]) == 2 and isinstance(inner[1][1], ListV):
                    head, lst = degree_of(inner[1][0]), inner[1][1]
            if lst is None:
                continue
            n += 1
            total = lst.total()
            if not isinstance(total, Top) and not isinstance(head, Top):
                from .homog import vadd

                total = vadd(head, total)
            elif isinstance(head, Top):
                total = head
            if isinstance(total, Top) and total.lost:
                raise AnalysisError(f"OUTPUT-DEGREE: the degree of the object returned by {qname} could not be computed ({total.why}); cannot decide")
            ok = total == {"X": ONE}
            res.instance("OUTPUT-DEGREE", f"{label}: represented tensor @{src(node)[:40]}", sample={"degree": fmt(total), "expected": "X", "ok": ok})
            if not ok:
                ctx.finding("OUTPUT-DEGREE", f, node, f"[{label}] the returned object represents a tensor of degree {fmt(total)} in the input; a decomposition that reproduces its input at sufficient rank must be homogeneous of degree 1 (X): the singular values are applied twice, dropped, or attached to an orthonormal block", construct=f"{f.name}: represented degree {fmt(total)} != X")
            # orthonormal blocks carry no scale
            gen = lst.default if lst.default is not None else {}
            ints = [d for k, d in lst.over.items() if isinstance(k, int)]
            bad = [d for d in [gen] + ints if d != {}]
            res.instance("OUTPUT-DEGREE", f"{label}: scale-free blocks @{src(node)[:40]}", sample={"generic_core_degree": fmt(gen), "ok": not bad})
            if bad and kind == "list":
                ctx.finding("OUTPUT-DEGREE", f, node, f"[{label}] a core other than the last one has degree {fmt(bad[0])}: the leading cores are blocks of left singular vectors (left-orthogonal) and cannot carry the scale of the input", construct=f"{f.name}: leading core degree {fmt(bad[0])}")
            if bad and kind == "tucker":
                ctx.finding("OUTPUT-DEGREE", f, node, f"[{label}] a factor has degree {fmt(bad[0])}: orthonormal factors cannot carry the scale of the input", construct=f"{f.name}: factor degree {fmt(bad[0])}")
        if n == 0:
            raise AnalysisError(f"OUTPUT-DEGREE: no return of {qname} could be evaluated as a decomposition")


def _stmt_of(fnode, node):
    for st in ast.walk(fnode):
        if isinstance(st, ast.stmt) and not isinstance(st, (ast.FunctionDef, ast.If, ast.For, ast.While, ast.With, ast.Try)) and any(x is node for x in ast.walk(st)):
            return st
    return None


def _dim_of(fnode, e, at):
    """('dim', <array text>, i) when `e` is entry i of the shape of an array: shape(U)[i], U.shape[i],
    a local bound to one of those, or the i-th target of `a, b = shape(U)`"""
    from .state import _resolve_at

    def shape_of(v):
        if isinstance(v, ast.Attribute) and v.attr == "shape":
            return src(v.value)
        if isinstance(v, ast.Call) and call_name(v) == "shape" and v.args:
            return src(v.args[0])
        return None

    r = _resolve_at(e, at, fnode)
    if isinstance(r, ast.Subscript) and isinstance(r.slice, ast.Constant) and shape_of(r.value) is not None:
        return ("dim", shape_of(r.value), r.slice.value)
    if isinstance(e, ast.Name):
        # tuple unpacking of a shape: nearest earlier one
        best = None
        for st in ast.walk(fnode):
            if isinstance(st, ast.Assign) and isinstance(st.targets[0], ast.Tuple) and st.lineno <= at.lineno:
                for i, t in enumerate(st.targets[0].elts):
                    if is_name(t, e.id) and shape_of(st.value) is not None and (best is None or st.lineno > best[0]):
                        best = (st.lineno, ("dim", shape_of(st.value), i))
        if best:
            return best[1]
    return None


def rank_clipped(ctx: Ctx):
    from .state import _resolve_at

    repo, res = ctx.repo, ctx.res
    from ..inline import with_inlined

    for q in SEQUENTIAL:
        f = with_inlined(repo, repo.func(q))  # the split (clip, SVD, carry-over) may live in a private helper
        calls = [c for c in own_scope_nodes(f.node) if isinstance(c, ast.Call) and call_name(c) == "svd_interface"]
        if not calls:
            raise AnalysisError(f"RANK-CLIPPED: no svd_interface call in {q}")
        assigns = [s for s in own_scope_nodes(f.node) if isinstance(s, ast.Assign)]
        loop_rank_names = set()
        for lp in own_scope_nodes(f.node):
            if isinstance(lp, ast.For) and any(isinstance(n, ast.Name) and n.id == "rank" for n in ast.walk(lp.iter)):
                loop_rank_names |= {n.id for n in ast.walk(lp.target) if isinstance(n, ast.Name)}
        for c in calls:
            ne = kwarg(c, "n_eigenvecs")
            if ne is None and len(c.args) >= 3:
                ne = c.args[2]
            at = _stmt_of(f.node, c)
            verdict, ok = "no n_eigenvecs", False
            if ne is not None and at is not None:
                full = _resolve_at(ne, at, f.node)
                mat = c.args[0] if c.args else kwarg(c, "matrix")
                if isinstance(full, ast.Call) and is_name(full.func, "min"):
                    m = full
                    # where the min was written (its own statement decides what n_row / n_column mean there)
                    m_at = at
                    if isinstance(ne, (ast.Name, ast.Subscript)):
                        for s_ in assigns:
                            if s_.lineno <= at.lineno and src(s_.targets[0]) == src(ne) and isinstance(s_.value, ast.Call) and is_name(s_.value.func, "min"):
                                m_at = s_
                    orig_args = m.args
                    if m_at is not at and isinstance(m_at.value, ast.Call):
                        orig_args = m_at.value.args
                    dims = set()
                    for a_ in orig_args:
                        if isinstance(a_, ast.Starred):
                            continue
                        dm = _dim_of(f.node, a_, m_at)
                        if dm is not None:
                            dims.add(dm)
                    starred_shape = any(isinstance(a_, ast.Starred) and ((isinstance(a_.value, ast.Attribute) and a_.value.attr == "shape") or (isinstance(a_.value, ast.Call) and call_name(a_.value) == "shape")) for a_ in orig_args)
                    arrays = {d_[1] for d_ in dims}
                    both_sides = starred_shape or any({("dim", arr, 0), ("dim", arr, 1)} <= dims for arr in arrays)
                    has_rank = any(any(isinstance(n, ast.Name) and (n.id == "rank" or n.id in loop_rank_names) for n in ast.walk(a_)) for a_ in orig_args)
                    # the clipped number is the one the core is cut to: it lives in rank[...] (read from or stored back),
                    # or it is used in the core's reshape
                    in_rank = isinstance(ne, ast.Subscript) and is_name(ne.value, "rank")
                    stored = in_rank or (isinstance(ne, ast.Name) and any(isinstance(s_.targets[0], ast.Subscript) and is_name(s_.targets[0].value, "rank") and is_name(s_.value, ne.id) for s_ in assigns))
                    # (the clipped number may be handed on under another name: right_rank = kept_rank)
                    same = {ne.id} if isinstance(ne, ast.Name) else set()
                    for _ in range(3):
                        for s_ in assigns:
                            if len(s_.targets) == 1 and isinstance(s_.targets[0], ast.Name) and isinstance(s_.value, ast.Name) and s_.value.id in same:
                                same.add(s_.targets[0].id)
                            elif len(s_.targets) == 1 and isinstance(s_.targets[0], (ast.Tuple, ast.List)) and isinstance(s_.value, (ast.Tuple, ast.List)) and len(s_.targets[0].elts) == len(s_.value.elts):
                                for t_, v_ in zip(s_.targets[0].elts, s_.value.elts):
                                    if isinstance(t_, ast.Name) and isinstance(v_, ast.Name) and v_.id in same:
                                        same.add(t_.id)
                    stored = stored or any(isinstance(s_.targets[0], ast.Subscript) and is_name(s_.targets[0].value, "rank") and isinstance(s_.value, ast.Name) and s_.value.id in same for s_ in assigns)
                    used_for_core = isinstance(ne, ast.Name) and any(isinstance(c2, ast.Call) and call_name(c2) == "reshape" and len(c2.args) >= 2 and any(isinstance(n, ast.Name) and n.id in same for n in ast.walk(c2.args[1])) for c2 in own_scope_nodes(f.node))
                    stored = stored or used_for_core
                    ok = both_sides and has_rank and stored
                    verdict = f"min({', '.join(src(a_) for a_ in orig_args)}); both sides of the unfolding: {both_sides}; requested rank: {has_rank}; kept: {stored}"
                elif isinstance(ne, ast.Name) and len([s_ for s_ in assigns if any(is_name(t, ne.id) for t in s_.targets)]) > 1:
                    verdict = f"`{ne.id}` is not a single min(...)"
                else:
                    # TR's first SVD: a product of requested ranks, guarded by a raising test against min(rows, columns)
                    want = src(full)
                    guards = []
                    for s_ in own_scope_nodes(f.node):
                        if not (isinstance(s_, ast.If) and any(isinstance(b_, ast.Raise) for b_ in s_.body) and s_.lineno < c.lineno):
                            continue
                        t = s_.test
                        neg = False
                        while isinstance(t, ast.UnaryOp) and isinstance(t.op, ast.Not):
                            t, neg = t.operand, not neg
                        if not (isinstance(t, ast.Compare) and len(t.ops) == 1):
                            continue
                        l_, r_, op = t.left, t.comparators[0], t.ops[0]
                        # normalise to `value > min(...)`
                        forms = []
                        if not neg and isinstance(op, ast.Gt):
                            forms.append((l_, r_))
                        if not neg and isinstance(op, ast.Lt):
                            forms.append((r_, l_))
                        if neg and isinstance(op, ast.LtE):
                            forms.append((l_, r_))
                        if neg and isinstance(op, ast.GtE):
                            forms.append((r_, l_))
                        for val, bound in forms:
                            bound_r = _resolve_at(bound, s_, f.node)
                            if src(_resolve_at(val, s_, f.node)) == want and isinstance(bound_r, ast.Call) and is_name(bound_r.func, "min"):
                                guards.append(s_)
                    ok = bool(guards)
                    verdict = f"{src(ne)} guarded by `{src(guards[0].test)}`" if guards else (f"`{src(ne)}` is not a single min(...)" if isinstance(ne, ast.Name) else f"{src(ne)} is not clipped and not guarded")
            res.instance("RANK-CLIPPED", f"{f.name}: {src(c)[:60]}", sample={"line": c.lineno, "n_eigenvecs": src(ne) if ne is not None else None, "verdict": verdict, "ok": ok})
            if not ok:
                ctx.finding("RANK-CLIPPED", f, c, f"{f.name}: the SVD at `{src(c)[:70]}` is not asked for min(rows, columns, requested rank) components ({verdict}): a core can then exceed the requested rank or the size of its unfolding, or the stored rank disagrees with the core's shape", construct=f"{f.name}: n_eigenvecs={src(ne) if ne is not None else None}")


# ---------------------------------------------------------------------------------
# NO-RECAST: SVD results are not cast back to the (possibly integer) type of the data
# ---------------------------------------------------------------------------------
def no_recast(ctx: Ctx):
    from ..inline import with_inlined

    repo, res = ctx.repo, ctx.res
    for qname, seeds, _, _, label in SPECS:
        f = with_inlined(repo, repo.func(qname))
        data = next(iter(seeds))
        # names holding (something derived from) the data argument, and names derived from an SVD result
        data_names, svd_names = {data}, set()
        changed = True
        while changed:
            changed = False
            for st in own_scope_nodes(f.node):
                if isinstance(st, (ast.comprehension, ast.For)):
                    tgn = {n.id for n in ast.walk(st.target) if isinstance(n, ast.Name)}
                    if any(isinstance(n, ast.Name) and n.id in svd_names for n in ast.walk(st.iter)) and not tgn <= svd_names:
                        svd_names |= tgn  # for f in factors / [g(f) for f in factors]
                        changed = True
                    continue
                if not isinstance(st, ast.Assign):
                    continue
                tg = {n.id for t in st.targets for n in ast.walk(t) if isinstance(n, ast.Name)}
                # what is only asked for its context (dtype / device) hands on no values
                in_ctx = {id(n) for c_ in ast.walk(st.value) if isinstance(c_, ast.Call) and call_name(c_) == "context" for n in ast.walk(c_)}
                reads = {n.id for n in ast.walk(st.value) if isinstance(n, ast.Name) and id(n) not in in_ctx}
                from_svd = any(isinstance(c, ast.Call) and call_name(c) in ("svd_interface", "truncated_svd", "svd") for c in ast.walk(st.value)) or bool(reads & svd_names)
                if from_svd and not tg <= svd_names:
                    svd_names |= tg
                    changed = True
                if reads & data_names and not from_svd and all(not isinstance(c, ast.Call) or call_name(c) in ("reshape", "transpose", "unfold", "moveaxis", "copy", "tensor") for c in ast.walk(st.value)) and not tg <= data_names:
                    data_names |= tg
                    changed = True
        n_casts = 0
        for c in own_scope_nodes(f.node):
            if not isinstance(c, ast.Call):
                continue
            nm = call_name(c)
            target = None
            if nm in ("tensor", "asarray", "array") and c.args:
                target = c.args[0]
                ctx_of = [k.value for k in c.keywords if k.arg is None] + [k.value for k in c.keywords if k.arg == "dtype"]
            elif nm == "astype" and isinstance(c.func, ast.Attribute):
                target = c.func.value
                ctx_of = list(c.args) + [k.value for k in c.keywords]
            else:
                continue
            n_casts += 1
            tainted = any(isinstance(n, ast.Name) and n.id in svd_names for n in ast.walk(target))
            to_data = any(isinstance(n, ast.Name) and n.id in data_names for e in ctx_of for n in ast.walk(e))
            if tainted and to_data:
                ctx.finding("NO-RECAST", f, c, f"{f.name} [{label}]: `{src(c)[:90]}` re-types a value computed from an SVD to the context / dtype of the data argument `{data}`: for an integer tensor the floating-point cores are truncated to integers and the decomposition no longer reproduces the input", construct=f"{f.name}: SVD result re-typed to the data's context")
        res.instance("NO-RECAST", f"{f.qname} [{label}]", sample={"data_names": sorted(data_names)[:6], "svd_derived": sorted(svd_names)[:8], "casts_examined": n_casts})
