"""C09 — SVD-based decompositions: exact at sufficient rank (partial: structural clauses).

The error bounds in terms of the data's singular spectrum are numerical and are not decided.
Two clauses are visible in the code and are necessary for "reproduces the input tensor
whenever the ranks suffice" and "the advertised ranks are respected":

OUTPUT-DEGREE   dimensional analysis (rules/homog.py): a decomposition that reproduces its
                input must return an object whose represented tensor is homogeneous of degree
                1 in the input (decompose c*X: the reconstruction must be c*X).  For TT-SVD
                and TR-SVD (starting mode 0) all cores but the last are singular-vector blocks
                (degree 0: left-orthogonal cores cannot carry scale) and the last core carries
                S*V (degree 1); for HOOI / HOSVD the factors have degree 0 and the core
                degree 1.  "S applied twice / forgotten", "U*S stored as a core and S*V carried
                on" change a degree.
RANK-CLIPPED    every sequential SVD of TT-SVD / TR-SVD is asked for
                min(rows, columns, requested rank) components -- the number actually stored
                back into the rank vector -- so no core can exceed the requested rank or the
                size of its unfolding; TR's first SVD (rank[0]*rank[1] components) is preceded
                by a test that rejects a request exceeding min(rows, columns).
"""

from __future__ import annotations

import ast

from ..common import Ctx, call_name, is_name, kwarg, src
from ..model import AnalysisError, own_scope_nodes
from .homog import N, ONE, Deg, Evaluator, ListV, Other, Top, degree_of, fmt

X = Deg({"X": ONE}, order=N)
SPECS = [
    ("tensorly.decomposition._tt.tensor_train", {"input_tensor": X}, {}, "list", "TT-SVD"),
    ("tensorly.decomposition._tr_svd.tensor_ring", {"input_tensor": X}, {}, "list", "TR-SVD (mode 0)"),
    ("tensorly.decomposition._tucker.partial_tucker", {"tensor": X, "mask": Other(None, True)}, {"initialize_tucker": ("tuple", [Deg({"X": ONE}), ListV(N, {}, {})])}, "tucker", "HOOI"),
]
SEQUENTIAL = ["tensorly.decomposition._tt.tensor_train", "tensorly.decomposition._tr_svd.tensor_ring"]


def run(ctx: Ctx):
    res = ctx.res
    res.rule("OUTPUT-DEGREE", "dimensional analysis: the tensor represented by the output of TT-SVD, TR-SVD (mode 0) and HOOI is homogeneous of degree 1 in the input tensor; all TT / TR cores but the last and all Tucker factors have degree 0 (orthonormal blocks carry no scale), the last core / the Tucker core degree 1", floor=6)
    res.rule("RANK-CLIPPED", "every sequential SVD in tensor_train / tensor_ring requests min(rows, columns, requested rank) components and stores that number back as the rank; TR's first SVD is guarded by a test against min(rows, columns)", floor=3)
    res.assume(
        "decides degrees and rank clipping only; exactness at sufficient rank, the quasi-optimality bounds and the lower bound by the largest discarded tail are NOT decided",
        "initialize_tucker by specification (HOSVD: orthonormal factors of degree 0, core = projected data of degree 1)",
        "svd_interface by specification (scale-free singular vectors, singular values of the argument's degree; decided for its own code under C05); tensor_ring analysed for mode=0 (the rotation for other starting modes only permutes cores); tensor_train_matrix delegates to tensor_train",
    )
    ctx.guarded(output_degree, ctx)
    ctx.guarded(rank_clipped, ctx)


def output_degree(ctx: Ctx):
    repo, res = ctx.repo, ctx.res
    for qname, seeds, rets, kind, label in SPECS:
        f = repo.func(qname)
        missing = [p for p in seeds if p not in f.all_params]
        if missing:
            raise AnalysisError(f"OUTPUT-DEGREE: {qname} no longer has parameter(s) {missing}")
        env = {}
        for p in f.all_params:
            if p in f.defaults and isinstance(f.defaults[p], ast.Constant):
                env[p] = Other(f.defaults[p].value, f.defaults[p].value is None)
            else:
                env[p] = Other()
        env.update(seeds)
        ev = Evaluator(ctx, f, {})
        ev.ctx_returns = dict(rets)
        ev.run(env)
        n = 0
        for node, v, _ in ev.raw_returns:
            lst, head = None, {}
            if kind == "list" and isinstance(v, ListV):
                lst = v
            elif kind == "tucker" and isinstance(v, tuple) and v[0] == "tuple":
                inner = v[1][0] if v[1] and isinstance(v[1][0], tuple) and v[1][0][0] == "tuple" else v
                if len(inner[1]) == 2 and isinstance(inner[1][1], ListV):
                    head, lst = degree_of(inner[1][0]), inner[1][1]
            if lst is None:
                continue
            n += 1
            total = lst.total()
            if not isinstance(total, Top) and not isinstance(head, Top):
                from .homog import vadd

                total = vadd(head, total)
            elif isinstance(head, Top):
                total = head
            if isinstance(total, Top) and total.lost:
                raise AnalysisError(f"OUTPUT-DEGREE: the degree of the object returned by {qname} could not be computed ({total.why}); cannot decide")
            ok = total == {"X": ONE}
            res.instance("OUTPUT-DEGREE", f"{label}: represented tensor @{src(node)[:40]}", sample={"degree": fmt(total), "expected": "X", "ok": ok})
            if not ok:
                ctx.finding("OUTPUT-DEGREE", f, node, f"[{label}] the returned object represents a tensor of degree {fmt(total)} in the input; a decomposition that reproduces its input at sufficient rank must be homogeneous of degree 1 (X): the singular values are applied twice, dropped, or attached to an orthonormal block", construct=f"{f.name}: represented degree {fmt(total)} != X")
            # orthonormal blocks carry no scale
            gen = lst.default if lst.default is not None else {}
            ints = [d for k, d in lst.over.items() if isinstance(k, int)]
            bad = [d for d in [gen] + ints if d != {}]
            res.instance("OUTPUT-DEGREE", f"{label}: scale-free blocks @{src(node)[:40]}", sample={"generic_core_degree": fmt(gen), "ok": not bad})
            if bad and kind == "list":
                ctx.finding("OUTPUT-DEGREE", f, node, f"[{label}] a core other than the last one has degree {fmt(bad[0])}: the leading cores are blocks of left singular vectors (left-orthogonal) and cannot carry the scale of the input", construct=f"{f.name}: leading core degree {fmt(bad[0])}")
            if bad and kind == "tucker":
                ctx.finding("OUTPUT-DEGREE", f, node, f"[{label}] a factor has degree {fmt(bad[0])}: orthonormal factors cannot carry the scale of the input", construct=f"{f.name}: factor degree {fmt(bad[0])}")
        if n == 0:
            raise AnalysisError(f"OUTPUT-DEGREE: no return of {qname} could be evaluated as a decomposition")


def rank_clipped(ctx: Ctx):
    repo, res = ctx.repo, ctx.res
    for q in SEQUENTIAL:
        f = repo.func(q)
        calls = [c for c in own_scope_nodes(f.node) if isinstance(c, ast.Call) and call_name(c) == "svd_interface"]
        if not calls:
            raise AnalysisError(f"RANK-CLIPPED: no svd_interface call in {q}")
        assigns = [s for s in own_scope_nodes(f.node) if isinstance(s, ast.Assign)]
        for c in calls:
            ne = kwarg(c, "n_eigenvecs")
            if ne is None and len(c.args) >= 3:
                ne = c.args[2]
            verdict, ok = "no n_eigenvecs", False
            if isinstance(ne, ast.Name):
                defs = [s.value for s in assigns if any(is_name(t, ne.id) for t in s.targets)]
                mins = [d for d in defs if isinstance(d, ast.Call) and is_name(d.func, "min")]
                if len(defs) == 1 and mins:
                    m = mins[0]
                    # the two sides of the unfolding and the requested rank
                    pairs = []
                    for s in assigns:
                        tg = s.targets[0]
                        if isinstance(tg, ast.Tuple) and len(tg.elts) == 2 and all(isinstance(e, ast.Name) for e in tg.elts):
                            v = s.value
                            if (isinstance(v, ast.Attribute) and v.attr == "shape") or (isinstance(v, ast.Call) and call_name(v) == "shape"):
                                pairs.append({e.id for e in tg.elts})
                    args_names = {a.id for a in m.args if isinstance(a, ast.Name)}
                    shape_names = next((p for p in pairs if p <= args_names), set())
                    # both sides of the unfolding: two names unpacked from its shape, or the shape itself starred
                    starred_shape = any(isinstance(a, ast.Starred) and ((isinstance(a.value, ast.Attribute) and a.value.attr == "shape") or (isinstance(a.value, ast.Call) and call_name(a.value) == "shape")) for a in m.args)
                    both_sides = (len(shape_names) == 2 and shape_names <= args_names) or starred_shape
                    # the requested rank: rank[...] or the target of a loop over (something built from) rank
                    loop_rank_names = set()
                    for lp in own_scope_nodes(f.node):
                        if isinstance(lp, ast.For) and any(isinstance(n, ast.Name) and n.id == "rank" for n in ast.walk(lp.iter)):
                            loop_rank_names |= {n.id for n in ast.walk(lp.target) if isinstance(n, ast.Name)}
                    has_rank = any((isinstance(a, ast.Subscript) and is_name(a.value, "rank")) or (isinstance(a, ast.Name) and a.id in loop_rank_names) for a in m.args)
                    # the clipped number is the one the core is cut to: stored back into rank, or used in the core's reshape
                    stored = any(isinstance(s.targets[0], ast.Subscript) and is_name(s.targets[0].value, "rank") and is_name(s.value, ne.id) for s in assigns)
                    used_for_core = any(isinstance(c2, ast.Call) and call_name(c2) == "reshape" and len(c2.args) >= 2 and any(isinstance(n, ast.Name) and n.id == ne.id for n in ast.walk(c2.args[1])) for c2 in own_scope_nodes(f.node))
                    stored = stored or used_for_core
                    ok = both_sides and has_rank and stored
                    verdict = f"min({', '.join(src(a) for a in m.args)}); stored back: {stored}"
                else:
                    verdict = f"`{ne.id}` is not a single min(...)"
            elif ne is not None:
                # TR's first SVD: a product of requested ranks, guarded by a raising test against min(rows, columns)
                guards = [s for s in own_scope_nodes(f.node) if isinstance(s, ast.If) and any(isinstance(b, ast.Raise) for b in s.body) and isinstance(s.test, ast.Compare) and src(s.test.left) == src(ne) and isinstance(s.test.ops[0], ast.Gt) and isinstance(s.test.comparators[0], ast.Call) and is_name(s.test.comparators[0].func, "min") and s.lineno < c.lineno]
                ok = bool(guards)
                verdict = f"{src(ne)} guarded by `{src(guards[0].test)}`" if guards else f"{src(ne)} is not clipped and not guarded"
            res.instance("RANK-CLIPPED", f"{f.name}: {src(c)[:60]}", sample={"line": c.lineno, "n_eigenvecs": src(ne) if ne is not None else None, "verdict": verdict, "ok": ok})
            if not ok:
                ctx.finding("RANK-CLIPPED", f, c, f"{f.name}: the SVD at `{src(c)[:70]}` is not asked for min(rows, columns, requested rank) components ({verdict}): a core can then exceed the requested rank or the size of its unfolding, or the stored rank disagrees with the core's shape", construct=f"{f.name}: n_eigenvecs={src(ne) if ne is not None else None}")
