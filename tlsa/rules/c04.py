"""C04 — canonicalising / algebraic transforms of factorised tensors (partial: structural clauses).

What is decided (necessary conditions of "the represented tensor is unchanged"):

DEGREE-CONSERVED  dimensional analysis (rules/homog.py).  The dense tensor a CP / Tucker /
                  PARAFAC2 object represents is multilinear in (weights | core, factors,
                  projections).  A transform that leaves the represented tensor unchanged
                  must return an object whose represented tensor has the *same* homogeneity
                  degree in every input symbol (scale one input factor by c: both sides scale
                  by c).  Checked for cp_normalize, tucker_normalize, parafac2_normalise,
                  cp_flip_sign, and - with the extra operand of degree 1 - cp_mode_dot and
                  tucker_mode_dot (matrix and contracted-vector branch).
SCALE-FREE        canonical form of the normalisers: every returned factor has degree 0 in
                  all inputs (its columns cannot depend on the scale of the input), the scale
                  is carried by the weights / core alone.
SIGN-PARITY       cp_flip_sign: every sign vector (sign(.) / the sign removed by abs) enters
                  the represented tensor an even number of times (s*s == 1); an odd count flips
                  the sign of the component.
SIGN-NONZERO      a sign vector that multiplies a factor must not be able to vanish where the
                  component does not: sign(g) may be 0, which annihilates the column it
                  multiplies.  Safe when one of the multiplied values is g itself (then the
                  component is already 0) or when zeros are replaced first
                  (where(s == 0, 1, s)).

LOST-REBIND       the in-place flavour of a transform returns the operand object itself: a
                  component unpacked from it (`weights, factors = cp_tensor`) that is re-bound
                  (`weights = weights * ...`) on a path to `return cp_tensor` is lost -- only
                  element stores / in-place operators on the unpacked containers, or stores
                  back into the operand, reach the returned object (branch-consistent paths:
                  `if copy:` ... `if copy: return CPTensor(...) else: return cp_tensor`).

Not decided: equality of the represented tensors (only their degree / sign parity), unit
norm itself, the permutation alignment of cp_permute_factors, rank padding, CP -> PARAFAC2
conversion, the SVD compression round trip.
"""

from __future__ import annotations

import ast

from ..common import Ctx, call_name, is_name, src
from ..model import AnalysisError, own_scope_nodes
from .homog import N, ONE, Deg, Evaluator, ListV, Other, Top, ZERO, degree_of, fmt, subst_n, vadd

NONE_ = Other(None, True)


def F(sym="F", n=N):
    return ListV(n, {sym: ONE}, {})


def represented(kind, v):
    """degree of the dense tensor represented by the returned object (None: not evaluable)"""
    if not (isinstance(v, tuple) and v[0] in ("tuple", "obj")):
        return None
    parts = v[1] if v[0] == "tuple" else [v[1].get(k) for k in v[2]]
    if kind in ("cp", "tucker"):
        if len(parts) != 2 or not isinstance(parts[1], ListV):
            return None
        head = {} if (isinstance(parts[0], Other) and parts[0].is_none) else degree_of(parts[0])
        return vadd(head, parts[1].total()), parts[1]
    if kind == "parafac2":
        if len(parts) != 3 or not isinstance(parts[1], ListV) or not isinstance(parts[2], ListV):
            return None
        head = {} if (isinstance(parts[0], Other) and parts[0].is_none) else degree_of(parts[0])
        return vadd(vadd(head, parts[1].total()), parts[2].elem()), parts[1]
    return None


CP = lambda w: ("tuple", [w, F()])
SPECS = [
    # (function, kind, entry environment, expected degree of the represented tensor, scale_free factors?, label)
    ("tensorly.cp_tensor.cp_normalize", "cp", {"cp_tensor": CP(Deg({"W": ONE}))}, {"W": ONE, "F": N}, True, "weights given"),
    ("tensorly.cp_tensor.cp_normalize", "cp", {"cp_tensor": CP(NONE_)}, {"F": N}, True, "weights None"),
    ("tensorly.tucker_tensor.tucker_normalize", "tucker", {"tucker_tensor": ("tuple", [Deg({"G": ONE}), F()])}, {"G": ONE, "F": N}, True, ""),
    ("tensorly.parafac2_tensor.parafac2_normalise", "parafac2", {"parafac2_tensor": ("tuple", [Deg({"W": ONE}), F(n=(3, 0)), ListV(N, {"P": ONE}, {})])}, {"W": ONE, "F": (3, 0), "P": ONE}, True, "weights given"),
    ("tensorly.parafac2_tensor.parafac2_normalise", "parafac2", {"parafac2_tensor": ("tuple", [NONE_, F(n=(3, 0)), ListV(N, {"P": ONE}, {})])}, {"F": (3, 0), "P": ONE}, True, "weights None"),
    ("tensorly.cp_tensor.cp_flip_sign", "cp", {"cp_tensor": CP(Deg({"W": ONE})), "func": NONE_}, {"W": ONE, "F": N}, False, "default summary function"),
    ("tensorly.cp_tensor.cp_mode_dot", "cp", {"cp_tensor": CP(Deg({"W": ONE})), "matrix_or_vector": Deg({"M": ONE}), "copy": Other(True)}, {"W": ONE, "F": N, "M": ONE}, False, "copy=True"),
    ("tensorly.tucker_tensor.tucker_mode_dot", "tucker", {"tucker_tensor": ("tuple", [Deg({"G": ONE}), F()]), "matrix_or_vector": Deg({"M": ONE}), "copy": Other(True)}, {"G": ONE, "F": N, "M": ONE}, False, "copy=True"),
]


def run(ctx: Ctx):
    res = ctx.res
    res.rule("DEGREE-CONSERVED", "dimensional analysis: the object returned by cp_normalize / tucker_normalize / parafac2_normalise / cp_flip_sign represents a tensor of the same homogeneity degree in the weights (core), every factor and the projections as its input; cp_mode_dot / tucker_mode_dot add exactly degree 1 in the operand (every return path; weights present and absent)", floor=9)
    res.rule("SCALE-FREE", "every factor returned by a normaliser has degree 0 in all inputs: the scale is carried by the weights / core only", floor=5)
    res.rule("SIGN-PARITY", "cp_flip_sign: every sign vector enters the represented tensor an even number of times", floor=1)
    res.rule("SIGN-NONZERO", "a vector sign(g) that multiplies a stored factor cannot vanish where the component does not: one of the values it multiplies is g itself, or zeros of the sign are replaced first", floor=2)
    res.assume(
        "decides degrees and sign parity only: a transform can conserve both and still change the represented tensor (wrong index, wrong column order); the unit norm itself, permutation alignment, rank padding, CP->PARAFAC2 conversion and the SVD compression round trip are NOT decided",
        "the zero-norm replacement where(scales == 0, 1, scales) is evaluated as `scales` (the generic case); degree specification of dot / mode_dot / norm as in C02/C03 HOMOGENEITY",
        "cp_mode_dot / tucker_mode_dot are analysed with copy=True (with copy=False they edit the operand in place, which the value-based evaluator does not model)",
    )
    ctx.guarded(degree_conserved, ctx)
    ctx.guarded(sign_nonzero, ctx)
    res.rule("LOST-REBIND", "a transform that can return its operand itself (in-place flavour): on every branch-consistent path from unpacking the operand's components to `return <operand>`, no component name is re-bound without being stored back into the operand -- a re-bound local is a new object the returned operand never sees", floor=1)
    ctx.guarded(lost_rebind, ctx)
    from .c20 import perm_space

    res.rule("PERM-SPACE", "aligned component order: index-space typing of the matching permutation (shared with C20) -- cp_permute_factors picks the columns of the tensor to permute with a permutation whose values refer to that tensor and whose positions are the reference's components", floor=3)
    ctx.guarded(perm_space, ctx)
    res.rule("GUARD-EXACT", "normalisers: the scale that divides a factor and the scale absorbed into the weights / core are the same value, or differ only by a guard `where(<scale is exactly zero>, 1, scale)`; a guard with a threshold (eps, tolerance) divides a non-null column by 1 while the weights / core are still multiplied by its norm, which changes the represented tensor", floor=3)
    ctx.guarded(guard_exact, ctx)


def degree_conserved(ctx: Ctx):
    repo, res = ctx.repo, ctx.res
    for qname, kind, entry, expected, scale_free, label in SPECS:
        f = repo.func(qname)
        missing = [p for p in entry if p not in f.all_params]
        if missing:
            raise AnalysisError(f"DEGREE-CONSERVED: {qname} no longer has parameter(s) {missing}")
        env = {}
        for p in f.all_params:
            if p in entry:
                env[p] = entry[p]
            elif p in f.defaults and isinstance(f.defaults[p], ast.Constant):
                env[p] = Other(f.defaults[p].value, f.defaults[p].value is None)
            else:
                env[p] = Other()
        ev = Evaluator(ctx, f, {})
        ev.track_sign = True
        ev.run(env)
        outs = [(node, represented(kind, v), nfix) for node, v, nfix in ev.returns]
        outs = [(node, r, nfix) for node, r, nfix in outs if r is not None]
        cfg = f"{f.name}" + (f" [{label}]" if label else "")
        if not outs:
            raise AnalysisError(f"DEGREE-CONSERVED: no return of {qname} could be evaluated as a factorised tensor ({label})")
        for node, (got, flist), nfix in outs:
            exp = expected
            if nfix == "?":
                res.error(f"DEGREE-CONSERVED: a return of {cfg} sits under a length test the analysis cannot resolve; cannot decide")
                continue
            if nfix is not None and not isinstance(got, Top):
                got, exp = subst_n(got, nfix), subst_n(exp, nfix)
            sdeg = got.pop("S", None) if isinstance(got, dict) else None
            got_nos = got
            ok = got_nos == exp
            if isinstance(got_nos, Top) and got_nos.lost:
                # cannot decide THIS function; the other specifications are still decided
                res.error(f"DEGREE-CONSERVED: the degree of the object returned by {cfg} could not be computed ({got_nos.why}); cannot decide")
                continue
            res.instance("DEGREE-CONSERVED", f"{cfg}: {src(node)[:60]}", sample={"configuration": label, "degree": fmt(got_nos), "expected": fmt(exp), "ok": ok})
            if not ok:
                ctx.finding("DEGREE-CONSERVED", f, node, f"`{cfg}` returns an object that represents a tensor of degree {fmt(got_nos)}, but its input represents one of degree {fmt(exp)} (W = weights, G = core, F = a factor, P = a projection, M = the operand; N = number of factors): the transform cannot leave the represented tensor unchanged, some scale is lost or applied twice", construct=f"{cfg}: represented degree {fmt(got_nos)} != {fmt(exp)}")
            if scale_free:
                fd = flist.elem()
                vals = list(flist.over.values()) + flist.extra + ([flist.default] if flist.default is not None else [])
                bad = [v for v in vals if v not in ({},)]
                res.instance("SCALE-FREE", f"{cfg}: {src(node)[:60]}", sample={"factor_degrees": sorted({fmt(v) for v in vals}), "ok": not bad})
                if bad:
                    ctx.finding("SCALE-FREE", f, node, f"`{cfg}` returns a factor of degree {fmt(bad[0])}: a normalised factor must not depend on the scale of the inputs (unit-norm columns); the scale has to be moved into the weights / core", construct=f"{cfg}: factor degree {fmt(bad[0])}")
            if f.name == "cp_flip_sign":
                a, b = sdeg if sdeg is not None else (0, 0)
                even = a % 2 == 0 and b % 2 == 0
                res.instance("SIGN-PARITY", f"{cfg}: {src(node)[:60]}", sample={"sign_exponent": fmt({"S": (a, b)}) if (a, b) != (0, 0) else "0", "ok": even})
                if sdeg is None:
                    raise AnalysisError("SIGN-PARITY: cp_flip_sign no longer multiplies by sign vectors; cannot decide")
                if not even:
                    ctx.finding("SIGN-PARITY", f, node, f"the sign vectors enter the represented tensor {fmt({'S': (a, b)})} times in total, which is odd for some number of factors: a sign flip that is applied to one factor must be compensated in exactly one other place (s*s == 1)", construct=f"cp_flip_sign: sign exponent {fmt({'S': (a, b)})}")


# ---------------------------------------------------------------------------------
SIGN_FUNCS = ["tensorly.cp_tensor.cp_flip_sign"]


def sign_nonzero(ctx: Ctx):
    """every `s = sign(g)` (in the function or in a helper nested in it) whose value multiplies a
    stored list element"""
    repo, res = ctx.repo, ctx.res
    n = 0
    for q in SIGN_FUNCS:
        f = repo.func(q)
        # the function body and the bodies of its nested helpers, each scanned as one scope
        scopes = [f.node] + [x for x in ast.walk(f.node) if isinstance(x, ast.FunctionDef) and x is not f.node]
        for scope in scopes:
            nodes = [x for x in ast.walk(scope) if not any(isinstance(p, ast.FunctionDef) and p is not scope and any(y is x for y in ast.walk(p)) for p in scopes if p is not scope and p is not f.node or False)] if scope is f.node else list(ast.walk(scope))
            if scope is f.node:
                inner = [x for s2 in scopes[1:] for x in ast.walk(s2)]
                inner_ids = {id(x) for x in inner}
                nodes = [x for x in ast.walk(scope) if id(x) not in inner_ids]
            assigns = [s for s in nodes if isinstance(s, ast.Assign) and len(s.targets) == 1 and isinstance(s.targets[0], ast.Name)]
            for s in assigns:
                v = s.value
                if not (isinstance(v, ast.Call) and call_name(v) == "sign" and v.args):
                    continue
                name, d, g = s.targets[0].id, v, v.args[0]
                # zero replacement: every use of the sign vector sits inside where(name == 0, <replacement>, name)
                guards = [c for c in nodes if isinstance(c, ast.Call) and call_name(c) == "where" and len(c.args) == 3 and isinstance(c.args[0], ast.Compare) and is_name(c.args[0].left, name) and is_name(c.args[2], name)]
                guarded_ids = {id(x) for c in guards for x in ast.walk(c)}
                uses = [x for x in nodes if isinstance(x, ast.Name) and x.id == name and isinstance(x.ctx, ast.Load)]
                free_uses = [x for x in uses if id(x) not in guarded_ids]
                reassigned_guard = any(is_name(a.targets[0], name) and any(a.value is c for c in guards) for a in assigns)
                guarded = bool(guards) and (not free_uses or reassigned_guard)
                # the values this sign vector multiplies
                mult = []
                for st in nodes:
                    val = None
                    if isinstance(st, ast.Assign):
                        val = st.value
                    elif isinstance(st, ast.AugAssign) and isinstance(st.op, ast.Mult):
                        val = ast.BinOp(left=st.target, op=ast.Mult(), right=st.value)
                    elif isinstance(st, ast.Return):
                        val = st.value
                    if val is None:
                        continue
                    for b in ast.walk(val):
                        if isinstance(b, ast.BinOp) and isinstance(b.op, ast.Mult):
                            for side, other in ((b.left, b.right), (b.right, b.left)):
                                base = side
                                while isinstance(base, ast.Subscript):
                                    base = base.value
                                if is_name(base, name) and id(base) not in guarded_ids:
                                    mult.append(other)
                # abs(g) == g * sign(g): g itself is one of the multiplied values (then the component is already 0)
                self_paired = any(src(m) == src(g) for m in mult) or any(isinstance(c, ast.Call) and call_name(c) == "abs" and c.args and src(c.args[0]) == src(g) for c in nodes)
                ok = guarded or self_paired
                n += 1
                res.instance("SIGN-NONZERO", f"{f.qname}: {name} = {src(d)[:60]}", sample={"line": d.lineno, "multiplies": [src(m)[:40] for m in mult], "zero_replaced": guarded, "paired_with_its_argument": self_paired, "ok": ok})
                if mult and not ok:
                    ctx.finding("SIGN-NONZERO", f, d, f"`{name} = {src(d)[:80]}` is 0 wherever `{src(g)[:60]}` is 0, and it multiplies {', '.join('`' + src(m)[:40] + '`' for m in mult[:3])}: a component whose summary is exactly zero (e.g. a zero-mean column) is annihilated although it is not zero, so the represented tensor changes. Replace zeros of the sign by 1 first", construct=f"{f.name}: {name} = sign({src(g)[:60]}) unguarded")
    if n == 0:
        raise AnalysisError("SIGN-NONZERO: no sign vector found in cp_flip_sign")


# ---------------------------------------------------------------------------------
LOST_REBIND_MODULES = ["tensorly.cp_tensor", "tensorly.tucker_tensor", "tensorly.tt_tensor", "tensorly.tr_tensor", "tensorly.tt_matrix", "tensorly.parafac2_tensor"]


class _RebindRule:
    def __init__(self, f, operand):
        self.f, self.operand = f, operand

    def init_state(self):
        return (frozenset(), frozenset())  # component names unpacked from the operand, those re-bound since

    def transfer(self, node, st, ex):
        comps, rebound = st
        a = node.ast
        if a is None:
            return st
        if node.kind == "return" and isinstance(a, ast.Return) and is_name(a.value, self.operand) and rebound:
            for nm in sorted(rebound):
                ex.report(("LOST-REBIND", nm), f"`{nm}` was unpacked from `{self.operand}` and re-bound to a new object, but this path returns `{self.operand}` itself: the new `{nm}` never reaches the returned object (the transform silently drops that update in its in-place flavour)", node)
            return st
        if node.kind != "stmt":
            return st
        if isinstance(a, ast.Assign):
            # unpacking: a, b = operand
            if is_name(a.value, self.operand) and len(a.targets) == 1 and isinstance(a.targets[0], (ast.Tuple, ast.List)):
                names = frozenset(e.id for e in a.targets[0].elts if isinstance(e, ast.Name))
                return (comps | names, rebound - names)
            for t in a.targets:
                # stored back into the operand: operand.attr = name / operand[i] = name
                if isinstance(t, (ast.Attribute, ast.Subscript)) and is_name(t.value, self.operand) and isinstance(a.value, ast.Name) and a.value.id in rebound:
                    rebound = rebound - {a.value.id}
                for x in ([t] if isinstance(t, ast.Name) else (t.elts if isinstance(t, (ast.Tuple, ast.List)) else [])):
                    if isinstance(x, ast.Name) and x.id in comps:
                        rebound = rebound | {x.id}
                if is_name(t, self.operand):
                    return (frozenset(), frozenset())  # the operand itself is re-bound: a different object is returned
        elif isinstance(a, ast.AugAssign) and isinstance(a.target, ast.Name) and a.target.id in comps:
            # `w *= x` on an array is in place, on a Python number it re-binds: arrays here (components of a factorised tensor)
            pass
        return (comps, rebound)


def lost_rebind(ctx: Ctx):
    from ..cfg import build_cfg
    from ..explore import Explorer

    repo, res = ctx.repo, ctx.res
    n = 0
    for modname in LOST_REBIND_MODULES:
        mod = repo.module(modname)
        for f in [g for g in repo.functions.values() if g.module is mod]:
            if not f.call_params:
                continue
            rets = [r for r in own_scope_nodes(f.node) if isinstance(r, ast.Return) and isinstance(r.value, ast.Name) and r.value.id in f.call_params]
            for operand in sorted({r.value.id for r in rets}):
                unpacks = [s_ for s_ in own_scope_nodes(f.node) if isinstance(s_, ast.Assign) and is_name(s_.value, operand) and isinstance(s_.targets[0], (ast.Tuple, ast.List))]
                if not unpacks:
                    continue
                n += 1
                g = build_cfg(f.node, f.qname)
                ex = Explorer(g, _RebindRule(f, operand)).run()
                res.instance("LOST-REBIND", f"{f.qname}: return {operand}", sample={"states": ex.states, "paths": ex.paths_to_exit, "violations": len(ex.violations)})
                for v in ex.violations.values():
                    ctx.finding("LOST-REBIND", f, v.node.ast if v.node is not None else f.node, v.message, construct=f"{f.name}: `{v.key[1]}` re-bound before return {operand}", path=v.path)
    if n == 0:
        raise AnalysisError("LOST-REBIND: no transform returns its operand any more; the rule's anchors vanished")


# ---------------------------------------------------------------------------------
# GUARD-EXACT: the divisor and the absorbed multiplier of a normaliser agree
# ---------------------------------------------------------------------------------
NORMALISERS = ["tensorly.cp_tensor.cp_normalize", "tensorly.tucker_tensor.tucker_normalize", "tensorly.parafac2_tensor.parafac2_normalise"]


def _strip_layout(e):
    while isinstance(e, ast.Call) and (call_name(e) or "") in ("reshape", "transpose", "tensor", "copy") and e.args:
        e = e.args[0]
    return e


def _exact_zero_test(cond, scale_src):
    """(kind) 'zero' when cond is true exactly where the (non-negative) scale is 0, 'nonzero' for the
    complement, None when it is a test against something else (a threshold)."""
    if isinstance(cond, ast.UnaryOp) and isinstance(cond.op, ast.Not):
        k = _exact_zero_test(cond.operand, scale_src)
        return {"zero": "nonzero", "nonzero": "zero"}.get(k)
    if not (isinstance(cond, ast.Compare) and len(cond.ops) == 1):
        return None
    l, r, op = cond.left, cond.comparators[0], cond.ops[0]
    flip = {ast.Lt: ast.Gt, ast.LtE: ast.GtE, ast.Gt: ast.Lt, ast.GtE: ast.LtE, ast.Eq: ast.Eq, ast.NotEq: ast.NotEq}
    if src(_strip_layout(r)) == scale_src and not src(_strip_layout(l)) == scale_src:
        l, r, op = r, l, flip[type(op)]()
    if src(_strip_layout(l)) != scale_src:
        return None
    if not (isinstance(r, ast.Constant) and isinstance(r.value, (int, float)) and r.value == 0):
        return None
    # the scale is a norm: >= 0
    if isinstance(op, (ast.Eq, ast.LtE)):
        return "zero"
    if isinstance(op, (ast.NotEq, ast.Gt)):
        return "nonzero"
    return None


def guard_exact(ctx: Ctx):
    from .state import _resolve_at

    res = ctx.res
    n = 0
    from ..inline import with_inlined

    for qname in NORMALISERS:
        f = with_inlined(ctx.repo, ctx.repo.func(qname))  # the column scaling may live in a private helper
        stmts = [st for st in ast.walk(f.node) if isinstance(st, ast.stmt) and not isinstance(st, (ast.If, ast.For, ast.While, ast.With, ast.Try, ast.FunctionDef))]
        # names bound to column norms
        norm_names = set()
        for st in stmts:
            if isinstance(st, ast.Assign) and len(st.targets) == 1 and isinstance(st.targets[0], ast.Name) and isinstance(st.value, ast.Call) and (call_name(st.value) or "") == "norm":
                norm_names.add(st.targets[0].id)
        if not norm_names:
            raise AnalysisError(f"GUARD-EXACT: {qname} no longer computes column norms into a local; cannot decide")
        for st in stmts:
            for d in ast.walk(st):
                if not (isinstance(d, ast.BinOp) and isinstance(d.op, ast.Div)):
                    continue
                den = _strip_layout(d.right)
                for _ in range(4):  # through named temporaries, one definition at a time
                    if not (isinstance(den, ast.Name) and den.id not in norm_names):
                        break
                    nxt = _strip_layout(_resolve_at(den, st, f.node, depth=1))
                    if isinstance(nxt, ast.Name) and nxt.id == den.id:
                        break
                    den = nxt
                if isinstance(den, ast.Name) and den.id in norm_names:
                    n += 1
                    res.instance("GUARD-EXACT", f"{f.name}: / {src(d.right)[:40]}", sample={"divisor": src(den), "guard": None, "ok": True})
                    continue
                if isinstance(den, ast.Call) and (call_name(den) or "") == "where" and len(den.args) == 3:
                    cond, a, b = den.args
                    if isinstance(cond, ast.Name):
                        cond = _resolve_at(cond, st, f.node, depth=1)  # is_zero = norms == 0
                    sa, sb = _strip_layout(a), _strip_layout(b)
                    scale = sb if isinstance(sb, ast.Name) and sb.id in norm_names else (sa if isinstance(sa, ast.Name) and sa.id in norm_names else None)
                    if scale is None:
                        continue
                    n += 1
                    kind = _exact_zero_test(cond, scale.id)
                    want = "zero" if scale is sb else "nonzero"
                    ok = kind == want
                    res.instance("GUARD-EXACT", f"{f.name}: / {src(d.right)[:40]}", sample={"divisor": src(den)[:100], "guard": src(cond), "guard_is_exact_zero_test": ok, "ok": ok})
                    if not ok:
                        if kind is None:
                            ctx.finding("GUARD-EXACT", f, cond, f"{f.name}: the divisor `{src(den)[:90]}` replaces the norm `{scale.id}` by a constant under `{src(cond)[:60]}`, which is not an exact-zero test: a non-null column whose norm passes the test is left un-normalised while the weights / core are still multiplied by `{scale.id}`, so the represented tensor changes by that factor", construct=f"{f.name}: guard `{src(cond)[:50]}` is not an exact zero test")
                        else:
                            ctx.finding("GUARD-EXACT", f, cond, f"{f.name}: the guard `{src(cond)[:60]}` selects the constant for the non-null columns and the norm for the null ones (branches swapped)", construct=f"{f.name}: guard branches swapped")
    if n == 0:
        raise AnalysisError("GUARD-EXACT: no division by a column norm found in the normalisers; cannot decide")
