"""C17 — backend selection is a per-thread stack over a shared default.

Six structural premises (DESIGN §3 C17, R1-R6) decided on the source of
``backend/__init__.py``, ``tenalg/__init__.py``, ``backend/core.py``,
``tenalg/base_tenalg.py``.
"""

from __future__ import annotations

import ast

from ..cfg import build_cfg
from ..common import Ctx, call_name, is_const, is_name, kwarg, src
from ..explore import Explorer
from ..model import AnalysisError, ClassInfo, FunctionInfo, bind_call, own_scope_nodes

STATE_SHARED = ("_backend", "_default_backend")
STATE_CACHE = "_loaded_backends"
TLS = "_THREAD_LOCAL_DATA"
SLOT = "backend"

MANAGERS = [
    ("tensorly.backend", "BackendManager"),
    ("tensorly.tenalg", "TenalgBackendManager"),
]


# ---------------------------------------------------------------------------------
# pattern helpers
# ---------------------------------------------------------------------------------
def _is_tls_attr(e) -> bool:
    """``<x>._THREAD_LOCAL_DATA``"""
    return isinstance(e, ast.Attribute) and e.attr == TLS


def r1_lookup(e):
    """If ``e`` is a thread-slot-else-default lookup return (holder, default expr) else None.

    Accepted spellings:
        X._THREAD_LOCAL_DATA.__dict__.get("backend", D)
        getattr(X._THREAD_LOCAL_DATA, "backend", D)
    """
    if not isinstance(e, ast.Call):
        return None
    f = e.func
    if (
        isinstance(f, ast.Attribute)
        and f.attr == "get"
        and isinstance(f.value, ast.Attribute)
        and f.value.attr == "__dict__"
        and _is_tls_attr(f.value.value)
        and len(e.args) == 2
        and is_const(e.args[0], SLOT)
    ):
        return f.value.value.value, e.args[1]
    if (
        is_name(f, "getattr")
        and len(e.args) == 3
        and _is_tls_attr(e.args[0])
        and is_const(e.args[1], SLOT)
    ):
        return e.args[0].value, e.args[2]
    return None


def _is_shared_default(e, holder) -> bool:
    """``<holder>._backend``"""
    return (
        isinstance(e, ast.Attribute)
        and e.attr == "_backend"
        and ast.dump(e.value) == ast.dump(holder)
    )


def is_active_backend_expr(e) -> bool:
    """R1 lookup with the shared default, or a ``<x>.current_backend()`` call."""
    lk = r1_lookup(e)
    if lk is not None:
        return _is_shared_default(lk[1], lk[0])
    return (
        isinstance(e, ast.Call)
        and isinstance(e.func, ast.Attribute)
        and e.func.attr == "current_backend"
        and not e.args
        and not e.keywords
    )


def _parents(tree):
    par = {}
    for n in ast.walk(tree):
        for c in ast.iter_child_nodes(n):
            par[id(c)] = n
    return par


def _manager_method(repo, mgr: ClassInfo, name) -> FunctionInfo:
    f = mgr.find_method(name)
    if f is None:
        raise AnalysisError(f"anchor method vanished: {mgr.qname}.{name}")
    return f


def _store_kind(t):
    """Classify a store target: 'shared:<attr>' | 'cache' | 'tls' | None."""
    if isinstance(t, ast.Attribute):
        if t.attr in STATE_SHARED:
            return f"shared:{t.attr}"
        if t.attr == STATE_CACHE:
            return "cache"
        if t.attr == SLOT and _is_tls_attr(t.value):
            return "tls"
        if t.attr == TLS:
            return "tlsobj"
    if isinstance(t, ast.Subscript):
        b = t.value
        if isinstance(b, ast.Attribute) and b.attr == STATE_CACHE:
            return "cache"
        if isinstance(b, ast.Attribute) and b.attr == "__dict__" and _is_tls_attr(b.value):
            return "tls"
    return None


def state_stores(node):
    """Yield (kind, stmt/expr node) for every store to selection state inside ``node``."""
    for n in ast.walk(node):
        if isinstance(n, (ast.Assign, ast.AugAssign, ast.AnnAssign)):
            ts = n.targets if isinstance(n, ast.Assign) else [n.target]
            for t in ts:
                for x in [t] + (list(t.elts) if isinstance(t, (ast.Tuple, ast.List)) else []):
                    k = _store_kind(x)
                    if k:
                        yield k, n
        elif isinstance(n, ast.Delete):
            for t in n.targets:
                k = _store_kind(t)
                if k:
                    yield k, n
        elif isinstance(n, ast.Call):
            f = n.func
            # setattr(cls, "_backend", x) / setattr(tls, "backend", x)
            if is_name(f, "setattr") and len(n.args) >= 2 and isinstance(n.args[1], ast.Constant):
                a = n.args[1].value
                if a in STATE_SHARED:
                    yield f"shared:{a}", n
                elif a == STATE_CACHE:
                    yield "cache", n
                elif a == SLOT and _is_tls_attr(n.args[0]):
                    yield "tls", n
            # cache mutators, tls.__dict__ mutators
            if isinstance(f, ast.Attribute) and f.attr in (
                "update", "pop", "clear", "setdefault", "popitem", "__setitem__"
            ):
                b = f.value
                if isinstance(b, ast.Attribute) and b.attr == STATE_CACHE:
                    yield "cache", n
                if isinstance(b, ast.Attribute) and b.attr == "__dict__" and _is_tls_attr(b.value):
                    yield "tls", n


def _handle_expr(e, depth=0) -> bool:
    """an expression that only *names* a piece of selection state or the active backend:
    attribute chains on a name, X.current_backend(), the thread-slot-else-default lookup,
    getattr(<such>, <name>)"""
    if depth > 4:
        return False
    if isinstance(e, ast.Name):
        return True
    if isinstance(e, ast.Attribute):
        return _handle_expr(e.value, depth + 1)
    if is_active_backend_expr(e):
        return True
    if isinstance(e, ast.Call) and is_name(e.func, "getattr") and len(e.args) == 2 and _handle_expr(e.args[0], depth + 1) and isinstance(e.args[1], (ast.Name, ast.Constant)):
        return True
    return False


def _inline_trivial_closures(fn):
    """in place: a helper nested directly in `fn` that takes no parameters is inlined at its call sites --
    `helper()` as a statement is replaced by the helper's statements (when it returns nothing), `helper()` in
    an expression by the returned expression (when the body is one `return <expr>`)"""
    import copy

    helpers = {}
    for n in fn.body:
        lifted = set(getattr(n, "_lifted", ())) if isinstance(n, ast.FunctionDef) else set()
        if isinstance(n, ast.FunctionDef) and not (n.args.args or n.args.posonlyargs or n.args.vararg or n.args.kwarg) and {a.arg for a in n.args.kwonlyargs} <= lifted and not n.decorator_list:
            body = [b for b in n.body if not (isinstance(b, ast.Expr) and isinstance(b.value, ast.Constant) and isinstance(b.value.value, str))]
            if len(body) == 1 and isinstance(body[0], ast.Return) and body[0].value is not None:
                helpers[n.name] = ("expr", body[0].value)
            elif body and not any(isinstance(x, (ast.Return, ast.Yield, ast.YieldFrom)) for b in body for x in ast.walk(b)):
                helpers[n.name] = ("stmts", body)
    if not helpers:
        return
    # the name must only ever be called
    for n in ast.walk(fn):
        if isinstance(n, ast.Name) and n.id in helpers and isinstance(n.ctx, ast.Load):
            pass
    used_as_value = set()
    def plain(c):
        return not c.args and all(k.arg is not None and isinstance(k.value, ast.Name) and k.value.id == k.arg for k in c.keywords)

    calls = {id(c.func) for c in ast.walk(fn) if isinstance(c, ast.Call) and isinstance(c.func, ast.Name) and c.func.id in helpers and plain(c)}
    for n in ast.walk(fn):
        if isinstance(n, ast.Name) and n.id in helpers and isinstance(n.ctx, ast.Load) and id(n) not in calls:
            used_as_value.add(n.id)
    for h in used_as_value:
        helpers.pop(h, None)

    class T(ast.NodeTransformer):
        def visit_FunctionDef(self, node):
            if node is fn:
                return self.generic_visit(node)
            return node

        def visit_Expr(self, node):
            c = node.value
            if isinstance(c, ast.Call) and isinstance(c.func, ast.Name) and c.func.id in helpers and helpers[c.func.id][0] == "stmts" and plain(c):
                out = [copy.deepcopy(b) for b in helpers[c.func.id][1]]
                for b in out:
                    for x in ast.walk(b):
                        if hasattr(x, "lineno"):
                            ast.copy_location(x, node)
                return out
            return self.generic_visit(node)

        def visit_Call(self, node):
            node = self.generic_visit(node)
            if isinstance(node.func, ast.Name) and node.func.id in helpers and helpers[node.func.id][0] == "expr" and plain(node):
                new = copy.deepcopy(helpers[node.func.id][1])
                for x in ast.walk(new):
                    if hasattr(x, "lineno"):
                        ast.copy_location(x, node)
                return new
            return node

    T().visit(fn)
    # the inlined helpers are no longer called: their definitions are dropped
    fn.body = [n for n in fn.body if not (isinstance(n, ast.FunctionDef) and n.name in helpers)] or [ast.Pass()]
    ast.fix_missing_locations(fn)


def _inline_handle_aliases(fn):
    """in place: every Load of a local that has exactly one assignment `x = <handle expression>` (and is
    neither a parameter, nor re-bound, nor a loop / with / except target) is replaced by a copy of
    that expression carrying the position of the use"""
    import copy

    own = []
    stack = list(fn.body)
    while stack:
        n = stack.pop()
        own.append(n)
        for c in ast.iter_child_nodes(n):
            if not isinstance(c, (ast.FunctionDef, ast.AsyncFunctionDef, ast.ClassDef, ast.Lambda)):
                stack.append(c)
    params = {a.arg for a in fn.args.args + fn.args.kwonlyargs + fn.args.posonlyargs} | ({fn.args.vararg.arg} if fn.args.vararg else set()) | ({fn.args.kwarg.arg} if fn.args.kwarg else set())
    stores = {}
    for n in own:
        if isinstance(n, ast.Name) and isinstance(n.ctx, (ast.Store, ast.Del)):
            stores[n.id] = stores.get(n.id, 0) + 1
    # a *read* of the selection (current_backend(), the slot lookup) is only an alias while nothing in the
    # function can change the selection; object handles (cls._THREAD_LOCAL_DATA, cls._loaded_backends) always are
    writes = any(True for _ in state_stores(fn)) or any(isinstance(c, ast.Call) and call_name(c) in ("set_backend", "load_backend", "initialize_backend", "setattr") for c in own)

    def is_pure_handle(e):
        return isinstance(e, ast.Attribute) and (isinstance(e.value, ast.Name) or is_pure_handle(e.value))

    aliases = {}
    for n in own:
        if isinstance(n, ast.Assign) and len(n.targets) == 1 and isinstance(n.targets[0], ast.Name):
            nm = n.targets[0].id
            if nm not in params and stores.get(nm) == 1 and _handle_expr(n.value) and not isinstance(n.value, ast.Name):
                if is_pure_handle(n.value) or not writes:
                    aliases[nm] = n.value
    # `k = registry[name]` used only in the very next statement (`b = k()`): no state can change in between
    for blk in [x for x in [fn] + own for fld in ("body", "orelse", "finalbody") if isinstance(getattr(x, fld, None), list) for x in [getattr(x, fld)]]:
        for a, b in zip(blk, blk[1:]):
            if isinstance(a, ast.Assign) and len(a.targets) == 1 and isinstance(a.targets[0], ast.Name) and isinstance(a.value, ast.Subscript) and is_pure_handle(a.value.value) and isinstance(a.value.slice, ast.Name):
                nm = a.targets[0].id
                uses = [x for x in own if isinstance(x, ast.Name) and x.id == nm and isinstance(x.ctx, ast.Load)]
                if nm not in params and stores.get(nm) == 1 and uses and all(any(u is y for y in ast.walk(b)) for u in uses):
                    aliases[nm] = a.value
    if not aliases:
        return

    class T(ast.NodeTransformer):
        def visit_FunctionDef(self, node):
            return node if node is not fn else self.generic_visit(node)

        visit_AsyncFunctionDef = visit_FunctionDef

        def visit_Lambda(self, node):
            return node

        def visit_Name(self, node):
            if isinstance(node.ctx, ast.Load) and node.id in aliases:
                new = copy.deepcopy(aliases[node.id])
                for x in ast.walk(new):
                    if hasattr(x, "lineno") or isinstance(x, (ast.expr, ast.stmt)):
                        ast.copy_location(x, node)
                return T().visit(new)
            return node

    T().visit(fn)
    for n in own:
        if isinstance(n, ast.Assign) and len(n.targets) == 1 and isinstance(n.targets[0], ast.Name) and n.targets[0].id in aliases:
            n._inlined_alias = True
    ast.fix_missing_locations(fn)


# ---------------------------------------------------------------------------------
def run(ctx: Ctx):
    repo, res = ctx.repo, ctx.res
    res.rule("R1", "reader discipline: the active backend is only ever read as thread-slot-else-shared-default (or current_backend()); nothing else reads _backend / the thread slot", floor=6)
    res.rule("R2", "per-call dispatch: the dispatch wrapper looks the backend up inside the inner function on every call and never calls the captured method; use_dynamic_dispatch installs it for every name of _functions", floor=4)
    res.rule("R3", "writer discipline: selection state is stored only by set_backend/load_backend/initialize_backend; thread slot unconditional, shared stores only when not local_threadsafe, no store before a rejecting statement", floor=8)
    res.rule("R4", "context discipline: one yield inside try/finally, previous backend saved before entering and restored on every exit; with local_threadsafe=True no path through the context performs a shared write", floor=4)
    res.rule("R5", "instance-type agreement: the set_backend instance guard accepts every class load_backend can instantiate", floor=2)
    res.rule("R6", "independent managers: the tenalg manager re-declares every piece of selection state", floor=8)
    res.assume(
        "threading.local gives each thread its own attribute namespace (CPython semantics)",
        "single attribute loads/stores are atomic under the GIL",
        "the argument from R1-R6 to the per-thread-stack behaviour is the paper argument of DESIGN.md §3 C17",
    )

    mods = [repo.module(m) for m, _ in MANAGERS]
    mgrs = [repo.cls(f"{m}.{c}") for m, c in MANAGERS]
    # named temporaries for state handles (`tls = cls._THREAD_LOCAL_DATA`, `active = cls.current_backend()`,
    # `method = getattr(active, name)`) are seen through: their uses are replaced by the handle expression
    for m in mods:
        for fn in [n for n in ast.walk(m.tree) if isinstance(n, (ast.FunctionDef, ast.AsyncFunctionDef))]:
            _inline_trivial_closures(fn)
            for _ in range(4):  # a chain of temporaries (slots = tls.__dict__; active = slots.get(...); f = getattr(active, name))
                _inline_handle_aliases(fn)

    core = repo.module("tensorly.backend.core")
    base_tenalg = repo.module("tensorly.tenalg.base_tenalg")
    scan_mods = mods + [core, base_tenalg, repo.module("tensorly")]

    ctx.guarded(rule_R1, ctx, scan_mods)
    res.rule("R7", "no shadowing: a manager module is an instance of its manager class, and the dispatched functions / attributes are (non-data) descriptors on that class -- so a module-level binding of the same name (an import, an assignment, a def) in the manager's module wins over the dispatcher and pins one backend's implementation for every thread and selection. No name listed in `_functions` / `_attributes` is bound at module level in its manager's module", floor=2)
    ctx.guarded(rule_R7, ctx, mods, mgrs)
    ctx.guarded(rule_R2, ctx, mgrs)
    ctx.guarded(rule_R3, ctx, scan_mods, mgrs)
    ctx.guarded(rule_R4, ctx, mgrs)
    ctx.guarded(rule_R5, ctx, mgrs)
    ctx.guarded(rule_R6, ctx, mgrs)
    res.stats["managers"] = [m.qname for m in mgrs]
    res.stats["files_scanned"] = [m.rel for m in scan_mods]


# ---------------------------------------------------------------------------------
def _enclosing_name(repo, mod, node, par):
    n = node
    while id(n) in par:
        n = par[id(n)]
        fi = repo.function_of(n)
        if fi is not None:
            return fi
    return mod


def rule_R1(ctx: Ctx, scan_mods):
    repo, res = ctx.repo, ctx.res
    for mod in scan_mods:
        par = _parents(mod.tree)
        for n in ast.walk(mod.tree):
            # (a) every read of <x>._backend is the default of an R1 lookup on the same holder
            if isinstance(n, ast.Attribute) and n.attr == "_backend" and isinstance(n.ctx, ast.Load):
                where = _enclosing_name(repo, mod, n, par)
                p = par.get(id(n))
                ok = False
                lk = r1_lookup(p) if p is not None else None
                if lk is not None and lk[1] is n and _is_shared_default(n, lk[0]):
                    ok = True
                res.instance("R1", f"{getattr(where,'qname',mod.name)}:read _backend", sample={"line": n.lineno, "construct": src(p if p is not None else n), "ok": ok})
                if not ok:
                    ctx.finding("R1", where, n, "the shared default `_backend` is read without consulting the thread's own slot first: this reader ignores a thread-local selection", construct=p if isinstance(p, ast.expr) else n)
            # (b) every read of the thread slot has the shared default as fallback
            if isinstance(n, ast.Attribute) and n.attr == TLS and isinstance(n.ctx, ast.Load):
                where = _enclosing_name(repo, mod, n, par)
                p = par.get(id(n))
                # walk up to the full access expression
                top = n
                while id(top) in par and isinstance(par[id(top)], (ast.Attribute, ast.Subscript)) and getattr(par[id(top)], "value", None) is top:
                    top = par[id(top)]
                pp = par.get(id(top))
                if isinstance(pp, ast.Call) and (pp.func is top or top in pp.args):
                    full = pp
                else:
                    full = top
                # stores are R3's business
                if isinstance(top, ast.Attribute) and isinstance(top.ctx, ast.Store):
                    continue
                if isinstance(top, ast.Subscript) and isinstance(top.ctx, ast.Store):
                    continue
                # setattr(<tls>, "backend", v) is a store, not a read (R3's business)
                if isinstance(full, ast.Call) and is_name(full.func, "setattr") and full.args and full.args[0] is top and len(full.args) >= 2 and is_const(full.args[1], SLOT):
                    continue
                # the definition of an inlined handle alias (`tls = cls._THREAD_LOCAL_DATA`): every use was
                # replaced by the handle and is judged where it is used
                if isinstance(pp, ast.Assign) and pp.value is top and getattr(pp, "_inlined_alias", False):
                    continue
                lk = r1_lookup(full)
                ok = lk is not None and _is_shared_default(lk[1], lk[0])
                res.instance("R1", f"{getattr(where,'qname',mod.name)}:read thread slot", sample={"line": n.lineno, "construct": src(full), "ok": ok})
                if not ok:
                    ctx.finding("R1", where, n, "the per-thread slot is read without falling back to the shared default `<same holder>._backend`: a thread that never selected a backend does not observe the shared default (or observes another holder's)", construct=full)
    # (c) the two public readers return the lookup
    for mgr_mod, mgr_cls in MANAGERS:
        mgr = repo.cls(f"{mgr_mod}.{mgr_cls}")
        cb = _manager_method(repo, mgr, "current_backend")
        rets = [n for n in own_scope_nodes(cb.node) if isinstance(n, ast.Return)]
        res.instance("R1", f"{mgr.qname}.current_backend returns lookup")
        for r in rets:
            if r.value is None or not is_active_backend_expr(r.value):
                ctx.finding("R1", cb, r, "current_backend() does not return the thread-slot-else-shared-default lookup")
        if not rets:
            ctx.finding("R1", cb, cb.node, "current_backend() has no return", construct="def current_backend")
        gb = _manager_method(repo, mgr, "get_backend")
        rets = [n for n in own_scope_nodes(gb.node) if isinstance(n, ast.Return)]
        res.instance("R1", f"{mgr.qname}.get_backend returns name of lookup")
        for r in rets:
            v = r.value
            if not (isinstance(v, ast.Attribute) and v.attr == "backend_name" and is_active_backend_expr(v.value)):
                ctx.finding("R1", gb, r, "get_backend() does not return the backend_name of the thread-slot-else-shared-default lookup")
        if not rets:
            ctx.finding("R1", gb, gb.node, "get_backend() has no return", construct="def get_backend")
    # (d) dynamically dispatched attributes and method registration go through current_backend()
    bm = repo.module("tensorly.backend")
    dd = bm.classes.get("dynamically_dispatched_class_attribute")
    if dd is None or "__get__" not in dd.methods:
        raise AnalysisError("anchor vanished: dynamically_dispatched_class_attribute.__get__")
    g = dd.methods["__get__"]
    rets = [n for n in own_scope_nodes(g.node) if isinstance(n, ast.Return)]
    for r in rets:
        v = r.value
        ok = (
            isinstance(v, ast.Call)
            and is_name(v.func, "getattr")
            and len(v.args) == 2
            and is_active_backend_expr(v.args[0])
        )
        res.instance("R1", f"{g.qname}: return", sample={"line": r.lineno, "construct": src(r), "ok": ok})
        if not ok:
            ctx.finding("R1", g, r, "dispatched attribute is not read from the calling thread's active backend")
    if not rets:
        raise AnalysisError("dynamically_dispatched_class_attribute.__get__ has no return")


def rule_R7(ctx: Ctx, mods, mgrs):
    res = ctx.res
    for mod, mgr in zip(mods, mgrs):
        names = []
        for st in mgr.node.body:
            if isinstance(st, ast.Assign) and len(st.targets) == 1 and isinstance(st.targets[0], ast.Name) and st.targets[0].id in ("_functions", "_attributes") and isinstance(st.value, (ast.List, ast.Tuple)):
                names += [e.value for e in st.value.elts if isinstance(e, ast.Constant) and isinstance(e.value, str)]
        if not names:
            raise AnalysisError(f"R7: {mgr.qname} no longer lists its dispatched names in `_functions` / `_attributes`; cannot decide")
        bound = {}
        for st in mod.tree.body:
            if isinstance(st, (ast.Import, ast.ImportFrom)):
                for a in st.names:
                    bound.setdefault((a.asname or a.name).split(".")[0], st)
            elif isinstance(st, (ast.FunctionDef, ast.AsyncFunctionDef, ast.ClassDef)):
                bound.setdefault(st.name, st)
            elif isinstance(st, (ast.Assign, ast.AnnAssign, ast.AugAssign)):
                for t in (st.targets if isinstance(st, ast.Assign) else [st.target]):
                    for x in ast.walk(t):
                        if isinstance(x, ast.Name) and isinstance(x.ctx, ast.Store):
                            bound.setdefault(x.id, st)
            elif isinstance(st, (ast.For, ast.With, ast.Try, ast.If, ast.While)):
                for x in ast.walk(st):
                    if isinstance(x, ast.Name) and isinstance(x.ctx, ast.Store):
                        bound.setdefault(x.id, st)
                    elif isinstance(x, (ast.Import, ast.ImportFrom)):
                        for a in x.names:
                            bound.setdefault((a.asname or a.name).split(".")[0], x)
        clash = sorted(set(names) & set(bound))
        res.instance("R7", f"{mod.name}: {len(names)} dispatched names against {len(bound)} module-level bindings", sample={"shadowed": clash, "ok": not clash})
        for nm in clash:
            ctx.finding("R7", mod, bound[nm], f"`{nm}` is dispatched by {mgr.name} (listed in _functions / _attributes) but also bound at module level in {mod.name} by `{src(bound[nm])[:80]}`: the module object is an instance of the manager class and its own namespace is looked up before the class, so `{mod.name.rsplit('.', 1)[-1]}.{nm}` is this fixed object whatever backend a thread has selected", construct=f"{mod.name}: module-level `{nm}` shadows the dispatcher")


def rule_R2(ctx: Ctx, mgrs):
    repo, res = ctx.repo, ctx.res
    seen = set()
    for mgr in mgrs:
        d = _manager_method(repo, mgr, "dispatch_backend_method")
        if d.qname not in seen:
            seen.add(d.qname)
            params = d.call_params
            if len(params) < 2:
                raise AnalysisError(f"{d.qname}: unexpected signature {params}")
            name_p, method_p = params[0], params[1]
            rets = [n for n in own_scope_nodes(d.node) if isinstance(n, ast.Return)]
            inner = None
            for r in rets:
                if isinstance(r.value, ast.Name) and r.value.id in d.nested:
                    inner = d.nested[r.value.id]
                else:
                    ctx.finding("R2", d, r, "dispatch_backend_method returns something other than its per-call wrapper (a captured method is bound at definition time, so a later selection is not honoured)")
            res.instance("R2", f"{d.qname}: returns wrapper")
            if inner is None:
                if not rets:
                    raise AnalysisError(f"{d.qname}: no return")
            else:
                # the forwarding call: f(*args, **kwargs)
                va, kw = inner.vararg, inner.kwarg
                fwd = []
                for c in own_scope_nodes(inner.node):
                    if isinstance(c, ast.Call) and any(isinstance(a, ast.Starred) and is_name(a.value, va) for a in c.args) and any(k.arg is None and is_name(k.value, kw) for k in c.keywords):
                        fwd.append(c)
                res.instance("R2", f"{inner.qname}: forwarding call", sample={"calls": [src(c) for c in fwd]})
                if not fwd:
                    ctx.finding("R2", inner, inner.node, "the dispatch wrapper has no call forwarding (*args, **kwargs)", construct=f"def {inner.name}")
                for c in fwd:
                    f = c.func
                    ok = (
                        isinstance(f, ast.Call)
                        and is_name(f.func, "getattr")
                        and len(f.args) == 2
                        and is_active_backend_expr(f.args[0])
                        and is_name(f.args[1], name_p)
                    )
                    if not ok:
                        ctx.finding("R2", inner, c, "the dispatch wrapper does not look `name` up on the calling thread's active backend at call time")
                # captured method must not be called / returned from inside the wrapper
                for c in own_scope_nodes(inner.node):
                    if isinstance(c, ast.Call) and is_name(c.func, method_p):
                        ctx.finding("R2", inner, c, "the dispatch wrapper calls the method captured at definition time instead of the active backend's")
                # no backend value captured from the enclosing scope
                outer_assigned = {}
                for s in own_scope_nodes(d.node):
                    if isinstance(s, ast.Assign) and len(s.targets) == 1 and isinstance(s.targets[0], ast.Name):
                        outer_assigned[s.targets[0].id] = s.value
                for c in fwd:
                    f = c.func
                    if isinstance(f, ast.Call) and is_name(f.func, "getattr") and f.args and isinstance(f.args[0], ast.Name):
                        nm = f.args[0].id
                        if nm in outer_assigned and nm not in inner.local_names():
                            ctx.finding("R2", inner, c, f"the backend `{nm}` is looked up once when the wrapper is created, not on every call")
        # use_dynamic_dispatch installs the wrapper for every name in _functions (read on the function with its
        # local helpers expanded; the loop may run over a name bound to cls._functions, the installed value may be
        # built in an earlier statement or in one arm of a function / attribute switch)
        from ..inline import with_inlined
        from .state import _resolve_at

        u0 = _manager_method(repo, mgr, "use_dynamic_dispatch")
        u = with_inlined(repo, u0)
        ok = False

        def is_dispatch(v, nm):
            if isinstance(v, ast.Call) and is_name(v.func, "staticmethod") and v.args:
                v = v.args[0]
            if isinstance(v, ast.Call) and isinstance(v.func, ast.Attribute) and v.func.attr == "dispatch_backend_method":
                first = v.args[0] if v.args else next((k.value for k in v.keywords if k.arg == "name"), None)
                return is_name(first, nm)
            return False

        for loop in own_scope_nodes(u.node):
            if not (isinstance(loop, ast.For) and isinstance(loop.target, ast.Name)):
                continue
            it = loop.iter if isinstance(loop.iter, ast.Attribute) else _resolve_at(loop.iter, loop, u.node, depth=2)
            if not (isinstance(it, ast.Attribute) and it.attr == "_functions"):
                continue
            nm = loop.target.id
            for c in ast.walk(loop):
                if isinstance(c, ast.Call) and is_name(c.func, "setattr") and len(c.args) == 3 and is_name(c.args[1], nm):
                    v = c.args[2]
                    cands = [_resolve_at(v, c, u.node, depth=3)]
                    if isinstance(v, ast.Name):
                        cands += [st.value for st in ast.walk(loop) if isinstance(st, ast.Assign) and any(is_name(t, v.id) for t in st.targets)]
                    if any(is_dispatch(x, nm) for x in cands):
                        ok = True
        res.instance("R2", f"{u0.qname}: installs wrapper for every _functions name", sample={"ok": ok})
        if not ok:
            ctx.finding("R2", u0, u0.node, "use_dynamic_dispatch does not install dispatch_backend_method(name, ...) for every name of _functions", construct=f"def {u0.name} in {mgr.name}")
        # the module initialises dynamic dispatch: at import, directly, through a module-level helper it calls, or
        # by looking the method up by name
        mod = mgr.module
        init_ok = False
        helpers_ = {st.name: st for st in mod.tree.body if isinstance(st, ast.FunctionDef)}

        def executed(stmts, depth=0):
            out = []
            for st in stmts:
                if isinstance(st, (ast.FunctionDef, ast.AsyncFunctionDef, ast.ClassDef)):
                    continue
                out.append(st)
                if depth < 1:
                    for c in ast.walk(st):
                        if isinstance(c, ast.Call) and isinstance(c.func, ast.Name) and c.func.id in helpers_:
                            out += executed(helpers_[c.func.id].body, depth + 1)
            return out

        for st in executed(mod.tree.body):
            for c in ast.walk(st):
                if isinstance(c, ast.Call) and isinstance(c.func, ast.Attribute) and c.func.attr == "use_dynamic_dispatch":
                    init_ok = True
                if isinstance(c, ast.Call) and isinstance(c.func, ast.Call) and is_name(c.func.func, "getattr") and len(c.func.args) == 2:
                    key = c.func.args[1]
                    if is_const(key, "use_dynamic_dispatch"):
                        init_ok = True
                    elif isinstance(key, ast.Name) and isinstance(st, ast.For) and is_name(st.target, key.id) and isinstance(st.iter, (ast.Tuple, ast.List)) and any(is_const(e, "use_dynamic_dispatch") for e in st.iter.elts):
                        init_ok = True
        res.instance("R2", f"{mod.name}: module enables dynamic dispatch", sample={"ok": init_ok})
        if not init_ok:
            ctx.finding("R2", mod, None, f"{mod.name} no longer calls {mgr.name}.use_dynamic_dispatch() at import: dispatched functions are bound statically", construct=f"{mgr.name}.use_dynamic_dispatch()")


class _SetBackendRule:
    """Path rule for set_backend: order of rejecting statements vs stores."""

    def __init__(self, ctx, fi, lt_value):
        self.ctx, self.fi, self.lt = ctx, fi, lt_value

    def init_state(self):
        return (False, False, False)  # stored_any, tls_stored, shared_backend_stored

    def transfer(self, node, st, ex):
        stored, tls, shared = st
        a = node.ast
        if node.kind in ("stmt", "raise", "return", "test", "for", "with") and a is not None:
            rejecting = node.kind == "raise" or any(
                isinstance(c, ast.Call) and call_name(c) == "load_backend" for c in ast.walk(a)
            )
            if rejecting and stored:
                ex.report(("R3-order", src(a)), "a statement that can reject the selection runs after selection state was already written: a rejected selection leaves state changed", node)
            if node.kind == "stmt":
                for k, n in state_stores(a):
                    if k.startswith("shared") and self.lt is True:
                        ex.report(("R3-shared", src(n)), "shared default is written although local_threadsafe is true: a thread-local selection changes what other threads observe", node)
                    stored = True
                    if k == "tls":
                        tls = True
                    if k == "shared:_backend":
                        shared = True
        return (stored, tls, shared)

    def at_exit(self, kind, st, ex):
        if kind != "exit":
            return
        stored, tls, shared = st
        if not tls:
            ex.report(("R3-tls", "exit"), "set_backend can return without writing the calling thread's slot: the thread's most recent selection is not what it observes", None)
        if self.lt is False and not shared:
            ex.report(("R3-pub", "exit"), "set_backend(local_threadsafe=False) can return without publishing the shared default", None)


class _LoadBackendRule:
    def __init__(self):
        pass

    def init_state(self):
        return (False, None)  # stored, known(bool|None): name known?

    def transfer(self, node, st, ex):
        stored, known = st
        a = node.ast
        if node.kind == "stmt" and a is not None:
            for k, n in state_stores(a):
                if known is not True:
                    ex.report(("R3-load", src(n)), "load_backend stores into the cache on a path where the name was not checked against available_backend_names (or was found unknown)", node)
                stored = True
        return (stored, known)

    def edge(self, node, label, st, ex):
        stored, known = st
        if node.kind == "test":
            e = node.ast
            if isinstance(e, ast.Compare) and len(e.ops) == 1 and isinstance(e.ops[0], (ast.In, ast.NotIn)) and isinstance(e.comparators[0], ast.Attribute) and e.comparators[0].attr == "available_backend_names":
                is_in = isinstance(e.ops[0], ast.In)
                known = (label is True) == is_in
        return (stored, known)

    def at_exit(self, kind, st, ex):
        stored, known = st
        if kind == "exit" and known is not True:
            ex.report(("R3-load-exit", "exit"), "load_backend can return normally for a name that is not in available_backend_names (unknown names must raise)", None)


def rule_R3(ctx: Ctx, scan_mods, mgrs):
    repo, res = ctx.repo, ctx.res
    allowed = {
        "shared:_backend": {"set_backend"},
        "shared:_default_backend": {"set_backend", "initialize_backend"},
        "cache": {"load_backend"},
        "tls": {"set_backend"},
        "tlsobj": set(),
    }
    # (a) who may write
    for mod in scan_mods:
        par = _parents(mod.tree)
        for k, n in state_stores(mod.tree):
            where = _enclosing_name(repo, mod, n, par)
            fname = where.name if isinstance(where, FunctionInfo) else None
            in_class_body = False
            p = par.get(id(n))
            if isinstance(p, ast.ClassDef):
                in_class_body = True
            ok = in_class_body or (fname in allowed.get(k, set()) and isinstance(where, FunctionInfo) and where.cls is not None and where.cls.name.endswith("BackendManager"))
            res.instance("R3", f"{getattr(where,'qname',mod.name)}:{k}:{src(n)}", sample={"line": n.lineno, "store": k, "construct": src(n), "ok": ok})
            if not ok:
                ctx.finding("R3", where, n, f"selection state ({k}) is written outside the functions that own it (set_backend / load_backend / initialize_backend)")
    # (b) set_backend path rules
    done = set()
    for mgr in mgrs:
        sb = _manager_method(repo, mgr, "set_backend")
        if sb.qname in done:
            continue
        done.add(sb.qname)
        if "local_threadsafe" not in sb.all_params:
            raise AnalysisError(f"{sb.qname}: parameter local_threadsafe vanished")
        for lt in (True, False):
            g = build_cfg(sb.node, sb.qname)
            rule = _SetBackendRule(ctx, sb, lt)
            ex = Explorer(g, rule, {"local_threadsafe": lt}).run()
            res.instance("R3", f"{sb.qname}[local_threadsafe={lt}]", sample={"states": ex.states, "paths": ex.paths_to_exit})
            for v in ex.violations.values():
                ctx.finding("R3", sb, v.node.ast if v.node is not None else sb.node, v.message + f" [local_threadsafe={lt}]", construct=v.key[1] + f" @{v.key[0]}", path=v.path)
    # (c) load_backend: reject before any store
    for mgr in mgrs:
        lb = _manager_method(repo, mgr, "load_backend")
        if lb.qname in done:
            continue
        done.add(lb.qname)
        g = build_cfg(lb.node, lb.qname)
        ex = Explorer(g, _LoadBackendRule()).run()
        res.instance("R3", f"{lb.qname}: reject-before-store", sample={"states": ex.states, "paths": ex.paths_to_exit})
        for v in ex.violations.values():
            ctx.finding("R3", lb, v.node.ast if v.node is not None else lb.node, v.message, construct=v.key[1] + f" @{v.key[0]}", path=v.path)


class _ContextRule:
    """backend_context: saved -> entered -> yield -> restored on every exit."""

    def __init__(self, fi, backend_param, saved_names):
        self.fi = fi
        self.bp = backend_param
        self.saved_names = saved_names

    def init_state(self):
        return (frozenset(), False, False, False)  # saved vars, entered, yielded, restored

    def transfer(self, node, st, ex):
        saved, entered, yielded, restored = st
        a = node.ast
        if a is None or node.kind not in ("stmt", "return", "with", "test", "for"):
            return st
        if isinstance(a, (ast.FunctionDef, ast.AsyncFunctionDef, ast.ClassDef)):
            return st  # defining a helper executes nothing of its body
        for c in ast.walk(a):
            if isinstance(c, (ast.Yield, ast.YieldFrom)):
                if not entered:
                    ex.report(("R4-order", src(a)), "the context yields before the requested backend was selected", node)
                yielded = True
        if isinstance(a, ast.Assign) and len(a.targets) == 1 and isinstance(a.targets[0], ast.Name):
            if is_active_backend_expr(a.value):
                if entered:
                    ex.report(("R4-save-late", src(a)), "the previous backend is read after the new one was already selected: the context restores the backend it set itself", node)
                saved = saved | {a.targets[0].id}
            elif a.targets[0].id in saved:
                saved = saved - {a.targets[0].id}
        for c in ast.walk(a):
            if isinstance(c, ast.Call) and call_name(c) == "set_backend" and c.args:
                arg = c.args[0]
                if is_name(arg, self.bp):
                    entered = True
                elif isinstance(arg, ast.Name) and arg.id in saved:
                    if yielded:
                        restored = True
                    elif not entered:
                        # reached through the exception edge of the entering call: a rejected
                        # selection must leave every slot untouched, but set_backend(<saved>)
                        # stores the thread's current backend into its thread-local slot and,
                        # in the shared flavour, publishes it
                        ex.report(("R4-rejected-store", src(c)), "when the entering set_backend call raises (rejected selection) the context still runs set_backend on the saved backend: that pins the thread-local slot / republishes the shared default although nothing was selected", node)
                elif yielded:
                    ex.report(("R4-restore-what", src(c)), "after the yield the context selects something other than the backend saved on entry", node)
        return (saved, entered, yielded, restored)

    def at_exit(self, kind, st, ex):
        saved, entered, yielded, restored = st
        if yielded and not restored:
            ex.report(("R4-exit", kind), f"backend_context can leave ({'normally' if kind=='exit' else 'by exception'}) without restoring the previous backend", None)
        if kind == "exit" and not yielded:
            ex.report(("R4-noyield", kind), "backend_context can finish without yielding", None)


def rule_R4(ctx: Ctx, mgrs):
    repo, res = ctx.repo, ctx.res
    done = set()
    for mgr in mgrs:
        bc = _manager_method(repo, mgr, "backend_context")
        if bc.qname in done:
            continue
        done.add(bc.qname)
        res.instance("R4", f"{bc.qname}: contextmanager generator")
        if "contextmanager" not in bc.decorators:
            ctx.finding("R4", bc, bc.node, "backend_context is not a @contextmanager generator", construct="decorators of backend_context")
        yields = [n for n in own_scope_nodes(bc.node) if isinstance(n, (ast.Yield, ast.YieldFrom))]
        if len(yields) != 1:
            ctx.finding("R4", bc, bc.node, f"backend_context has {len(yields)} yield expressions; a context manager generator must yield exactly once", construct="yield count")
            continue
        y = yields[0]
        in_try_finally = False
        for t in own_scope_nodes(bc.node):
            if isinstance(t, ast.Try) and t.finalbody and any(x is y for b in t.body for x in ast.walk(b)):
                if any(isinstance(c, ast.Call) and call_name(c) == "set_backend" for fb in t.finalbody for c in ast.walk(fb)):
                    in_try_finally = True
        res.instance("R4", f"{bc.qname}: yield inside try/finally that restores", sample={"ok": in_try_finally})
        if not in_try_finally:
            ctx.finding("R4", bc, y, "the yield is not inside a try whose finally clause restores the previous backend: when the with-body raises, the context exits without restoring", construct="yield outside try/finally")
        params = bc.call_params
        if not params or "local_threadsafe" not in bc.all_params:
            raise AnalysisError(f"{bc.qname}: unexpected signature {bc.all_params}")
        g = build_cfg(bc.node, bc.qname)
        rule = _ContextRule(bc, params[0], set())
        ex = Explorer(g, rule).run()
        res.instance("R4", f"{bc.qname}: save/enter/yield/restore on every exit", sample={"states": ex.states, "paths": ex.paths_to_exit})
        for v in ex.violations.values():
            ctx.finding("R4", bc, v.node.ast if v.node is not None else bc.node, v.message, construct=f"{v.key[1]} @{v.key[0]}", path=v.path)
        # effect rule: under local_threadsafe=True no set_backend call may publish
        sb = _manager_method(repo, mgr, "set_backend")
        dflt = sb.defaults.get("local_threadsafe")
        for c in own_scope_nodes(bc.node):
            if isinstance(c, ast.Call) and call_name(c) == "set_backend":
                b = bind_call(c, sb, bound=True)
                arg = b.params.get("local_threadsafe")
                if arg is None and not b.star_kwargs:
                    arg = dflt
                ok = arg is not None and (is_name(arg, "local_threadsafe") or is_const(arg, True))
                # the parameter itself must not have been rebound
                if is_name(arg, "local_threadsafe"):
                    for s in own_scope_nodes(bc.node):
                        if isinstance(s, (ast.Assign, ast.AugAssign)):
                            ts = s.targets if isinstance(s, ast.Assign) else [s.target]
                            if any(is_name(t, "local_threadsafe") for t in ts):
                                ok = False
                res.instance("R4", f"{bc.qname}: {src(c)}", sample={"line": c.lineno, "local_threadsafe_arg": src(arg) if arg is not None else None, "ok": ok})
                if not ok:
                    ctx.finding("R4", bc, c, "with local_threadsafe=True this set_backend call still writes the shared default (its local_threadsafe argument is not the context's own flag): leaving/entering a thread-local context republishes a backend to every thread")


def rule_R5(ctx: Ctx, mgrs):
    repo, res = ctx.repo, ctx.res
    for mgr in mgrs:
        sb = _manager_method(repo, mgr, "set_backend")
        lb = _manager_method(repo, mgr, "load_backend")
        # class(es) load_backend instantiates: <K>.<registry>[name]()
        inst_bases = []
        for c in own_scope_nodes(lb.node):
            if isinstance(c, ast.Call) and isinstance(c.func, ast.Subscript) and isinstance(c.func.value, ast.Attribute):
                e = repo.resolve_expr(lb, lb.module, c.func.value.value)
                if e is not None and e.kind == "class":
                    inst_bases.append(e.value)
        if not inst_bases:
            raise AnalysisError(f"{lb.qname}: cannot find the registry instantiation")
        bparam = sb.call_params[0]
        guards = []
        for t in own_scope_nodes(sb.node):
            if isinstance(t, ast.Call) and is_name(t.func, "isinstance") and len(t.args) == 2 and is_name(t.args[0], bparam):
                guards.append(t)
        if not guards:
            raise AnalysisError(f"{sb.qname}: no isinstance guard on `{bparam}` found; R5 cannot be decided")
        for gcall in guards:
            t = gcall.args[1]
            tys = list(t.elts) if isinstance(t, ast.Tuple) else [t]
            for base in inst_bases:
                key = f"{mgr.qname}: guard {src(gcall)} vs instances of {base.qname}"
                ok = False
                why = ""
                if all(is_name(x, "str") for x in tys):
                    ok = True  # discriminates the *string* case: any instance type passes
                else:
                    for x in tys:
                        e = repo.resolve_expr(sb, sb.module, x)
                        if e is not None and e.kind == "class" and any(b is e.value for b in base.mro()):
                            ok = True
                    why = f"{[src(x) for x in tys]} is not a base of {base.qname}"
                res.instance("R5", key, sample={"ok": ok})
                if not ok:
                    ctx.finding("R5", sb, gcall, f"{mgr.name}: set_backend tells instances from names with {src(gcall)}, but {mgr.name}.load_backend instantiates subclasses of {base.name} ({why}); a saved backend *instance* is treated as a name and rejected, so backend_context of this manager cannot restore on exit", construct=f"{src(gcall)} for {mgr.name}")


R6_ATTRS = [
    "_THREAD_LOCAL_DATA",
    "_backend",
    "_loaded_backends",
    "_default_backend",
    "available_backend_names",
    "_ENV_DEFAULT_VAR",
    "_functions",
    "_attributes",
]


def rule_R6(ctx: Ctx, mgrs):
    repo, res = ctx.repo, ctx.res
    base = mgrs[0]
    for mgr in mgrs[1:]:
        if not any(b is base for b in mgr.mro()[1:]):
            res.instance("R6", f"{mgr.qname}: not derived from {base.name}")
            # still must own its state
        for a in R6_ATTRS:
            own = a in mgr.attrs
            res.instance("R6", f"{mgr.qname}.{a}", sample={"declared_in_subclass": own})
            if not own:
                ctx.finding("R6", mgr, mgr.node, f"{mgr.name} does not re-declare `{a}`: it shares that piece of selection state with {base.name}, so selecting one kind of backend changes the other", construct=f"{mgr.name}.{a}")
                continue
            v = mgr.attrs[a]
            if a == "_THREAD_LOCAL_DATA":
                ok = isinstance(v, ast.Call) and isinstance(v.func, ast.Attribute) and v.func.attr == "local" and not v.args
                if not ok:
                    ctx.finding("R6", mgr, v, f"{mgr.name}._THREAD_LOCAL_DATA is not a fresh threading.local(): the per-thread slot is shared with another manager")
            if a == "_loaded_backends":
                ok = (isinstance(v, ast.Call) and is_name(v.func, "dict") and not v.args and not v.keywords) or (isinstance(v, ast.Dict) and not v.keys)
                if not ok:
                    ctx.finding("R6", mgr, v, f"{mgr.name}._loaded_backends is not a fresh empty dict: the instance cache is shared or pre-populated")
            if a == "_backend":
                if not is_const(v, None):
                    ctx.finding("R6", mgr, v, f"{mgr.name}._backend must start as None and be published by set_backend only")
    # the base manager must also own a fresh threading.local
    v = base.attrs.get(TLS)
    ok = isinstance(v, ast.Call) and isinstance(v.func, ast.Attribute) and v.func.attr == "local"
    res.instance("R6", f"{base.qname}.{TLS}", sample={"ok": ok})
    if not ok:
        ctx.finding("R6", base, v if v is not None else base.node, f"{base.name}._THREAD_LOCAL_DATA is not a threading.local(): selections are not per-thread", construct=f"{base.name}.{TLS}")
