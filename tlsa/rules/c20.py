"""C20 — factor-similarity and error metrics (partial: scale behaviour).

That the congruence coefficient is the optimum over all matchings is a combinatorial /
numerical fact and is not decided.  The invariance half of the property has a clause that is
visible in the code: a metric that is invariant under column rescaling of either factor set
is homogeneous of degree 0 in each of them, and the error metrics have the degree their
definition gives them.

SCALE-BEHAVIOUR  dimensional analysis (rules/homog.py), the two factor sets / the two data
                 arrays being independent units A and B:
                   congruence_coefficient, correlation_index (all four methods),
                   R2_score, correlation, reflective_correlation_coefficient      degree 0
                   MSE, covariance, variance                                      degree 2
                   RMSE, standard_deviation                                       degree 1
                   leverage_score_dist                                            degree 0
                 and no sum / difference inside them combines different units (the `- 1`
                 of the correlation index is only unit-correct because the columns were
                 normalised first).
"""

from __future__ import annotations

from ..common import Ctx
from .homog import N, ONE, Deg, ListV, Other, run_units

A = Deg({"A": ONE})
B = Deg({"A": ONE})  # same unit as A: metrics that subtract the two arrays
LA = ListV(N, {"A": ONE}, {})
LB = ListV(N, {"B": ONE}, {})
R = "tensorly.metrics.regression."

SPECS = [
    ("tensorly.metrics.factors.congruence_coefficient", {"matrix1": LA, "matrix2": LB}, {}, "lists of factor matrices"),
    ("tensorly.metrics.factors.congruence_coefficient", {"matrix1": LA, "matrix2": LB, "absolute_value": Other(False)}, {}, "absolute_value=False"),
    ("tensorly.metrics.similarity.correlation_index", {"factors_1": LA, "factors_2": LB}, {}, "stacked"),
    ("tensorly.metrics.similarity.correlation_index", {"factors_1": LA, "factors_2": LB, "method": Other("max_score")}, {}, "max_score"),
    ("tensorly.metrics.similarity.correlation_index", {"factors_1": LA, "factors_2": LB, "method": Other("min_score")}, {}, "min_score"),
    ("tensorly.metrics.similarity.correlation_index", {"factors_1": LA, "factors_2": LB, "method": Other("avg_score")}, {}, "avg_score"),
    (R + "MSE", {"y_true": A, "y_pred": B}, {"A": (2, 0)}, ""),
    (R + "RMSE", {"y_true": A, "y_pred": B}, {"A": ONE}, ""),
    (R + "R2_score", {"X_original": A, "X_predicted": B}, {}, ""),
    (R + "reflective_correlation_coefficient", {"y_true": Deg({"A": ONE}), "y_pred": Deg({"B": ONE})}, {}, ""),
    (R + "covariance", {"y_true": Deg({"A": ONE}), "y_pred": Deg({"B": ONE})}, {"A": ONE, "B": ONE}, ""),
    (R + "variance", {"y": A}, {"A": (2, 0)}, ""),
    (R + "standard_deviation", {"y": A}, {"A": ONE}, ""),
    (R + "correlation", {"y_true": Deg({"A": ONE}), "y_pred": Deg({"B": ONE})}, {}, ""),
    ("tensorly.metrics.leverage_scores.leverage_score_dist", {"matrix": A}, {}, ""),
]


def run(ctx: Ctx):
    res = ctx.res
    res.rule("SCALE-BEHAVIOUR", "dimensional analysis of the similarity and error metrics: congruence coefficient, correlation index (four methods), R2, (reflective) correlation and leverage scores are homogeneous of degree 0 in each argument (invariant under rescaling), MSE / variance of degree 2, covariance of degree (1, 1), RMSE / standard deviation of degree 1, and no sum or difference inside them combines different units", floor=15)
    res.assume(
        "decides the scale behaviour only: invariance under column rescaling requires degree 0 (necessary); optimality of the matching, the [0, 1] range, permutation invariance and the exact definitions are NOT decided",
        "a single scale per factor matrix is used (per-column rescaling is the same argument column by column; the metrics normalise with axis=0 norms)",
    )
    ctx.guarded(
        run_units,
        ctx,
        "SCALE-BEHAVIOUR",
        SPECS,
        "A, B = units of the first / second argument",
        "the metric then changes when one factor set (or data array) is rescaled, so it is neither invariant to the scaling indeterminacy nor equal to its definition",
    )
