"""C20 — factor-similarity and error metrics (partial: scale behaviour).

That the congruence coefficient is the optimum over all matchings is a combinatorial /
numerical fact and is not decided.  The invariance half of the property has a clause that is
visible in the code: a metric that is invariant under column rescaling of either factor set
is homogeneous of degree 0 in each of them, and the error metrics have the degree their
definition gives them.

SCALE-BEHAVIOUR  dimensional analysis (rules/homog.py), the two factor sets / the two data
                 arrays being independent units A and B:
                   congruence_coefficient, correlation_index (all four methods),
                   R2_score, correlation, reflective_correlation_coefficient      degree 0
                   MSE, covariance, variance                                      degree 2
                   RMSE, standard_deviation                                       degree 1
                   leverage_score_dist                                            degree 0
                 and no sum / difference inside them combines different units (the `- 1`
                 of the correlation index is only unit-correct because the columns were
                 normalised first).
"""

from __future__ import annotations

from ..common import Ctx
from .homog import N, ONE, Deg, ListV, Other, run_units

A = Deg({"A": ONE})
B = Deg({"A": ONE})  # same unit as A: metrics that subtract the two arrays
LA = ListV(N, {"A": ONE}, {})
LB = ListV(N, {"B": ONE}, {})
R = "tensorly.metrics.regression."

SPECS = [
    ("tensorly.metrics.factors.congruence_coefficient", {"matrix1": LA, "matrix2": LB}, {}, "lists of factor matrices"),
    ("tensorly.metrics.factors.congruence_coefficient", {"matrix1": LA, "matrix2": LB, "absolute_value": Other(False)}, {}, "absolute_value=False"),
    ("tensorly.metrics.similarity.correlation_index", {"factors_1": LA, "factors_2": LB}, {}, "stacked"),
    ("tensorly.metrics.similarity.correlation_index", {"factors_1": LA, "factors_2": LB, "method": Other("max_score")}, {}, "max_score"),
    ("tensorly.metrics.similarity.correlation_index", {"factors_1": LA, "factors_2": LB, "method": Other("min_score")}, {}, "min_score"),
    ("tensorly.metrics.similarity.correlation_index", {"factors_1": LA, "factors_2": LB, "method": Other("avg_score")}, {}, "avg_score"),
    (R + "MSE", {"y_true": A, "y_pred": B}, {"A": (2, 0)}, ""),
    (R + "RMSE", {"y_true": A, "y_pred": B}, {"A": ONE}, ""),
    (R + "R2_score", {"X_original": A, "X_predicted": B}, {}, ""),
    (R + "reflective_correlation_coefficient", {"y_true": Deg({"A": ONE}), "y_pred": Deg({"B": ONE})}, {}, ""),
    (R + "covariance", {"y_true": Deg({"A": ONE}), "y_pred": Deg({"B": ONE})}, {"A": ONE, "B": ONE}, ""),
    (R + "variance", {"y": A}, {"A": (2, 0)}, ""),
    (R + "standard_deviation", {"y": A}, {"A": ONE}, ""),
    (R + "correlation", {"y_true": Deg({"A": ONE}), "y_pred": Deg({"B": ONE})}, {}, ""),
    ("tensorly.metrics.leverage_scores.leverage_score_dist", {"matrix": A}, {}, ""),
]


def run(ctx: Ctx):
    res = ctx.res
    res.rule("SCALE-BEHAVIOUR", "dimensional analysis of the similarity and error metrics: congruence coefficient, correlation index (four methods), R2, (reflective) correlation and leverage scores are homogeneous of degree 0 in each argument (invariant under rescaling), MSE / variance of degree 2, covariance of degree (1, 1), RMSE / standard deviation of degree 1, and no sum or difference inside them combines different units", floor=15)
    res.assume(
        "decides the scale behaviour only: invariance under column rescaling requires degree 0 (necessary); optimality of the matching, the [0, 1] range, permutation invariance and the exact definitions are NOT decided",
        "a single scale per factor matrix is used (per-column rescaling is the same argument column by column; the metrics normalise with axis=0 norms)",
    )
    res.rule("PERM-SPACE", "index-space typing of the matching permutation: congruence_coefficient returns, for each column of one argument, the matching column of the other (direction read from its source: rows / columns of the cross-product, order of linear_sum_assignment's result, dict(zip(...)) keys, enumeration); cp_permute_factors indexes the columns of the tensor to permute with a permutation whose values are column numbers of that same tensor and whose positions are the reference's components", floor=3)
    ctx.guarded(perm_space, ctx)
    res.rule("AXIS-FORWARD", "a metric that takes `axis` hands it to every metric of the same module it is built from (covariance, variance, standard deviation, MSE ...): a building block left at its default reduces over the whole array, so the slice-wise result is normalised by a global quantity", floor=3)
    ctx.guarded(axis_forward, ctx)
    res.rule("CONJ-LIVE", "in the similarity metrics a conjugation is applied to an operand of the cross-product, never to the product directly under abs / norm (where it has no effect)", floor=1)
    ctx.guarded(conj_live, ctx)
    ctx.guarded(
        run_units,
        ctx,
        "SCALE-BEHAVIOUR",
        SPECS,
        "A, B = units of the first / second argument",
        "the metric then changes when one factor set (or data array) is rescaled, so it is neither invariant to the scaling indeterminacy nor equal to its definition",
    )


# ---------------------------------------------------------------------------------
# AXIS-FORWARD: the reduction axis reaches every building block
# ---------------------------------------------------------------------------------
def axis_forward(ctx: Ctx):
    import ast

    from ..common import src
    from ..model import AnalysisError, bind_call, own_scope_nodes

    repo, res = ctx.repo, ctx.res
    n = 0
    for mod in repo.modules.values():
        if not mod.name.startswith("tensorly.metrics."):
            continue
        for f in mod.functions.values():
            if f.cls is not None or "axis" not in f.all_params:
                continue
            for c in own_scope_nodes(f.node):
                if not isinstance(c, ast.Call):
                    continue
                ct = repo.resolve_call(f, mod, c)
                if ct.kind != "repo" or len(ct.funcs) != 1 or "axis" not in ct.funcs[0].all_params or not ct.funcs[0].module.name.startswith("tensorly.metrics."):
                    continue
                g = ct.funcs[0]
                b = bind_call(c, g, ct.bound)
                a = b.params.get("axis") if b.ok else None
                ok = a is not None and any(isinstance(x, ast.Name) and x.id == "axis" for x in ast.walk(a))
                n += 1
                res.instance("AXIS-FORWARD", f"{f.qname}: {src(c)[:60]}", sample={"axis_argument": src(a) if a is not None else None, "ok": ok})
                if not ok:
                    ctx.finding("AXIS-FORWARD", f, c, f"{f.name}(…, axis) calls `{src(c)[:70]}` without handing on its `axis` ({'got ' + src(a) if a is not None else 'left at the default None'}): that building block reduces over the whole array, so for axis-wise use the result mixes slice-wise and global statistics (and is no longer the metric's definition per slice)", construct=f"{f.name}: {g.name} without axis")
    if n == 0:
        raise AnalysisError("AXIS-FORWARD: no metric with an `axis` parameter calls another metric any more; cannot decide")


# ---------------------------------------------------------------------------------
# PERM-SPACE: which factor set a matching permutation indexes
# ---------------------------------------------------------------------------------
import ast

from ..common import call_name, is_name, src
from ..model import AnalysisError, own_scope_nodes

CONGRUENCE = "tensorly.metrics.factors.congruence_coefficient"
PERMUTE = "tensorly.cp_tensor.cp_permute_factors"


def _families(fnode, seeds):
    """name -> family: a local assigned from / iterating over an expression that mentions names of
    exactly one family belongs to that family (flow-insensitive; a name reached from two families is
    MIXED).  Loop targets over zip(a, b) / enumerate(a) take the family of their own operand."""
    fam = dict(seeds)
    fixed = set(seeds)

    def family(e):
        fs = {fam[n.id] for n in ast.walk(e) if isinstance(n, ast.Name) and n.id in fam}
        return fs.pop() if len(fs) == 1 else None

    def give(name, v):
        if v is None or name in fixed:
            return False
        if name not in fam:
            fam[name] = v
            return True
        if fam[name] != v and fam[name] != "MIXED":
            fam[name] = "MIXED"
            return True
        return False

    changed = True
    while changed:
        changed = False
        for s in own_scope_nodes(fnode):
            if isinstance(s, ast.Assign) and len(s.targets) == 1 and isinstance(s.targets[0], ast.Name):
                changed |= give(s.targets[0].id, family(s.value))
            elif isinstance(s, (ast.For, ast.comprehension)):
                it, tg = s.iter, s.target
                if isinstance(it, ast.Call) and is_name(it.func, "zip") and isinstance(tg, ast.Tuple) and len(tg.elts) == len(it.args):
                    for e, a in zip(tg.elts, it.args):
                        if isinstance(e, ast.Name):
                            changed |= give(e.id, family(a))
                elif isinstance(it, ast.Call) and is_name(it.func, "enumerate") and it.args and isinstance(tg, ast.Tuple) and len(tg.elts) == 2 and isinstance(tg.elts[1], ast.Name):
                    changed |= give(tg.elts[1].id, family(it.args[0]))
                elif isinstance(tg, ast.Name) and not (isinstance(it, ast.Call) and is_name(it.func, "range")):
                    changed |= give(tg.id, family(it))
    return fam, family


def _perm_direction(ctx):
    """Read from congruence_coefficient's source which way the returned permutation goes:
    (index space, value space) as positions of its two matrix parameters.
    rows of  dot(transpose(a), b)  are the columns of a, its columns those of b;
    linear_sum_assignment(M) returns (row indices, column indices) of M; dict(zip(r, c)) maps
    r to c; [d[i] for i in range(<number of columns of X>)] is indexed like its keys."""
    from ..inline import with_inlined

    f = with_inlined(ctx.repo, ctx.repo.func(CONGRUENCE))  # the per-pair work may live in a private helper
    p1, p2 = f.pos_params[0], f.pos_params[1]
    nodes = list(own_scope_nodes(f.node))
    # the loop that pairs the two lists
    pair = None
    for s in nodes:
        if isinstance(s, ast.For) and isinstance(s.iter, ast.Call) and is_name(s.iter.func, "zip") and len(s.iter.args) == 2 and isinstance(s.target, ast.Tuple) and len(s.target.elts) == 2 and all(isinstance(e, ast.Name) for e in s.target.elts):
            a0, a1 = s.iter.args
            if isinstance(a0, ast.Name) and isinstance(a1, ast.Name) and {a0.id, a1.id} == {p1, p2}:
                pair = {s.target.elts[0].id: a0.id, s.target.elts[1].id: a1.id}
    if pair is None:
        raise AnalysisError("PERM-SPACE: congruence_coefficient no longer pairs its two arguments with zip(...); cannot decide")
    rows = cols = None
    # values derived from one member of a pair (norms, normalised copies) stay in its column space
    _, pfam = _families(f.node, pair)
    for c in nodes:
        if isinstance(c, ast.Call) and call_name(c) in ("dot", "matmul") and len(c.args) == 2:
            l, r = c.args
            if isinstance(l, ast.Name):
                from ..common import inline_locals

                l = inline_locals(f.node, l)
            if isinstance(l, ast.Call) and call_name(l) in ("transpose", "conj") and l.args:
                fl, fr = pfam(l.args[0]), pfam(r)
                if fl in (p1, p2) and fr in (p1, p2):
                    rows, cols = fl, fr
    if rows is None or rows == cols:
        raise AnalysisError("PERM-SPACE: the cross-product dot(transpose(a), b) of congruence_coefficient was not found; cannot decide")
    # (row_ind, col_ind) = linear_sum_assignment(...)
    ri = ci = None
    for s in nodes:
        if isinstance(s, ast.Assign) and isinstance(s.value, ast.Call) and call_name(s.value) == "linear_sum_assignment" and isinstance(s.targets[0], ast.Tuple) and len(s.targets[0].elts) == 2:
            ri, ci = (e.id if isinstance(e, ast.Name) else None for e in s.targets[0].elts)
    if not ri or not ci:
        raise AnalysisError("PERM-SPACE: linear_sum_assignment result is no longer unpacked as (rows, columns); cannot decide")
    # d = dict(zip(x, y)):  keys x, values y
    key_space = val_space = dname = None
    for s in nodes:
        if isinstance(s, ast.Assign) and isinstance(s.value, ast.Call) and is_name(s.value.func, "dict") and s.value.args and isinstance(s.value.args[0], ast.Call) and is_name(s.value.args[0].func, "zip") and len(s.value.args[0].args) == 2 and isinstance(s.targets[0], ast.Name):
            k, v = s.value.args[0].args
            if isinstance(k, ast.Name) and isinstance(v, ast.Name) and {k.id, v.id} == {ri, ci}:
                dname = s.targets[0].id
                key_space = rows if k.id == ri else cols
                val_space = cols if v.id == ci else rows
    if dname is None:
        raise AnalysisError("PERM-SPACE: the assignment is no longer turned into dict(zip(rows, columns)); cannot decide")
    # the returned list [d[i] for i in range(number of columns of X[0])]
    rets = [r for r in nodes if isinstance(r, ast.Return) and isinstance(r.value, ast.Tuple) and len(r.value.elts) == 2]
    if not rets:
        raise AnalysisError("PERM-SPACE: congruence_coefficient no longer returns (value, permutation); cannot decide")
    pname = rets[0].value.elts[1]
    comp = None
    for s in nodes:
        if isinstance(s, ast.Assign) and isinstance(pname, ast.Name) and is_name(s.targets[0], pname.id) and isinstance(s.value, ast.ListComp):
            comp = s.value
    if comp is None or not (isinstance(comp.elt, ast.Subscript) and is_name(comp.elt.value, dname)):
        raise AnalysisError("PERM-SPACE: the returned permutation is no longer [assignment[i] for i in ...]; cannot decide")
    from ..common import inline_locals

    rng_src = src(inline_locals(f.node, comp.generators[0].iter))
    # every matrix of both arguments has the same number of columns (validated on entry), so counting the
    # columns of either argument, or of the validated list of counts, enumerates the same keys
    ranged = p1 if p1 in rng_src and p2 not in rng_src else (p2 if p2 in rng_src and p1 not in rng_src else (f"{p1} / {p2}" if p1 in rng_src else None))
    validated = False
    for s in nodes:
        if isinstance(s, ast.If) and s.body and isinstance(s.body[-1], ast.Raise):
            t = src(inline_locals(f.node, s.test))
            if "unique" in t and p1 in t and p2 in t and "shape" in t:
                validated = True
    ok_internal = ranged is not None if validated else ranged == key_space
    return f, (p1, p2), key_space, val_space, ok_internal, ranged


def perm_space(ctx: Ctx):
    res = ctx.res
    f, (p1, p2), key_space, val_space, ok_internal, ranged = _perm_direction(ctx)
    res.instance("PERM-SPACE", f"{f.name}: direction of the returned permutation", sample={"indexed_by_columns_of": key_space, "values_are_columns_of": val_space, "ranged_over": ranged, "ok": ok_internal})
    if not ok_internal:
        ctx.finding("PERM-SPACE", f, f.node, f"congruence_coefficient builds its permutation from an assignment keyed by the columns of `{key_space}` but enumerates it over the columns of `{ranged}`: the keys and the enumeration refer to different factor sets", construct="congruence_coefficient: permutation keys vs enumeration")
    idx_pos = 0 if key_space == p1 else 1
    val_pos = 1 - idx_pos
    g = ctx.repo.func(PERMUTE)
    ref_p, cand_p = g.pos_params[0], g.pos_params[1]
    # families by name flow: a name assigned from an expression mentioning only one family belongs to it
    fam, family = _families(g.node, {ref_p: "REF", cand_p: "CAND"})

    calls = [(s, s.value) for s in own_scope_nodes(g.node) if isinstance(s, ast.Assign) and isinstance(s.value, ast.Call) and call_name(s.value) == "congruence_coefficient"]
    if not calls:
        raise AnalysisError("PERM-SPACE: cp_permute_factors no longer calls congruence_coefficient; cannot decide")
    n_uses = 0
    for s, c in calls:
        perm = None
        if len(c.args) >= 2 and isinstance(s.targets[0], ast.Tuple) and len(s.targets[0].elts) == 2 and isinstance(s.targets[0].elts[1], ast.Name):
            perm = s.targets[0].elts[1].id
        elif len(c.args) >= 2 and isinstance(s.targets[0], ast.Name):
            # r = congruence_coefficient(a, b); ... r[1] ...: names bound to (something built from) r[1]
            r = s.targets[0].id
            for s2 in own_scope_nodes(g.node):
                if isinstance(s2, ast.Assign) and isinstance(s2.targets[0], ast.Name) and any(isinstance(x, ast.Subscript) and is_name(x.value, r) and isinstance(x.slice, ast.Constant) and x.slice.value == 1 for x in ast.walk(s2.value)):
                    perm = s2.targets[0].id
        if perm is None:
            raise AnalysisError("PERM-SPACE: the congruence_coefficient call in cp_permute_factors is no longer `_, perm = congruence_coefficient(a, b)` (or its result indexed with [1]); cannot decide")
        idx_f, val_f = family(c.args[idx_pos]), family(c.args[val_pos])
        # names holding the permutation (perm = T.tensor(perm, ...))
        perms = {perm}
        for s2 in own_scope_nodes(g.node):
            if isinstance(s2, ast.Assign) and isinstance(s2.targets[0], ast.Name) and any(isinstance(n, ast.Name) and n.id in perms for n in ast.walk(s2.value)) and s2.targets[0].id not in fam:
                perms.add(s2.targets[0].id)
        for sub in own_scope_nodes(g.node):
            if isinstance(sub, ast.Subscript):
                idxs = sub.slice.elts if isinstance(sub.slice, ast.Tuple) else [sub.slice]
                if any(isinstance(i, ast.Name) and i.id in perms for i in idxs):
                    tf = family(sub.value)
                    if tf is None:
                        continue
                    n_uses += 1
                    ok = tf == val_f and idx_f == "REF"
                    res.instance("PERM-SPACE", f"cp_permute_factors: {src(sub)[:60]}", sample={"line": sub.lineno, "indexed_tensor": tf, "permutation_values_are_columns_of": val_f, "permutation_indexed_by_columns_of": idx_f, "ok": ok})
                    if not ok:
                        ctx.finding("PERM-SPACE", g, sub, f"`{src(sub)[:80]}` picks columns of the {('reference' if tf == 'REF' else 'tensor to permute')} with a permutation whose entries are column numbers of the {('reference' if val_f == 'REF' else 'tensor to permute')} (congruence_coefficient returns, for each column of its argument {idx_pos + 1}, the matching column of its argument {val_pos + 1}): the inverse matching is applied, which only coincides with the right one for self-inverse permutations", construct=f"cp_permute_factors: {src(sub)[:60]} uses a permutation into the other factor set")
    if n_uses == 0:
        raise AnalysisError("PERM-SPACE: the permutation is not used to index columns any more; cannot decide")


# ---------------------------------------------------------------------------------
# CONJ-LIVE: a conjugation that abs / norm swallows is a conjugation in the wrong place
# ---------------------------------------------------------------------------------
def conj_live(ctx: Ctx):
    """|conj(z)| == |z|: a `conj` applied to the *result* of a product directly under `abs` /
    `norm` has no effect.  The metrics are defined with X1^H X2 (conjugate ONE operand before the
    product); conj(X1^T X2) conjugates both and, under abs, neither -- for complex factors the
    metric is then |X1^T X2|."""
    res = ctx.res
    n = 0
    for modname in ("tensorly.metrics.similarity", "tensorly.metrics.factors", "tensorly.metrics.regression"):
        mod = ctx.repo.module(modname)
        for f in [g for g in ctx.repo.functions.values() if g.module is mod]:
            for c in own_scope_nodes(f.node):
                if isinstance(c, ast.Call) and call_name(c) == "conj" and c.args:
                    n += 1
                    # the innermost enclosing call
                    parent = None
                    for p in own_scope_nodes(f.node):
                        if isinstance(p, ast.Call) and any(a is c for a in p.args):
                            parent = p
                    dead = parent is not None and call_name(parent) in ("abs", "norm", "absolute") and isinstance(c.args[0], ast.Call) and call_name(c.args[0]) in ("dot", "matmul", "tensordot", "einsum", "inner")
                    res.instance("CONJ-LIVE", f"{f.qname}: {src(c)[:60]}", sample={"line": c.lineno, "directly_under": call_name(parent) if parent is not None else None, "ok": not dead})
                    if dead:
                        ctx.finding("CONJ-LIVE", f, c, f"`{src(parent)[:90]}`: the conjugation is applied to the product and then swallowed by `{call_name(parent)}` (|conj(z)| == |z|), so no operand is conjugated: for complex factor matrices the metric uses X1^T X2 instead of X1^H X2 and is no longer 0 / 1 for equivalent factor sets", construct=f"{f.name}: conj of a product under {call_name(parent)}")
    if n == 0:
        raise AnalysisError("CONJ-LIVE: no conjugation left in the similarity metrics; cannot decide (the Hermitian cross-product X1^H X2 needs one)")
