"""C15 — library calls never modify caller-owned inputs (full for the aliasing clause).

MUTATES-ARG: interprocedural may-alias + mutation-effect analysis on the abstract
interpreter.  The datum of a value is the set of *origins* it may share storage with:
``('P', p)`` = something reachable from parameter ``p`` of the public entry point under
analysis; the empty set = freshly created.  Containers and wrapper objects carry a second
origin set for their own identity.  A mutation (element store, in-place operator, mutator
method, ``index_update``, attribute store) of a value whose origin set is not empty writes
into caller-owned storage.
"""

from __future__ import annotations

import ast
from typing import Dict, List, Optional

from ..absint import NONE, Const, Dct, Domain, Fn, Interp, Leaf, Lst, Mod, Obj, Sym, Tup, V
from ..common import Ctx, src
from ..explore import is_kind
from ..model import AnalysisError, FunctionInfo
from .c18 import entry_points

E = frozenset()

VIEW_PRIMS = {
    "transpose", "reshape", "moveaxis", "flip", "squeeze", "ravel", "diagonal", "swapaxes", "expand_dims",
    "asarray", "atleast_2d", "atleast_1d", "real", "imag", "broadcast_to", "asanyarray", "ascontiguousarray", "view",
}
VIEW_METHODS = {"reshape", "ravel", "transpose", "squeeze", "view", "swapaxes", "diagonal"}
INPLACE_METHODS = {"fill", "sort", "resize", "put", "itemset", "partition", "setflags", "setfield", "byteswap"}
CONTAINER_MUTATORS = {"append", "remove", "pop", "insert", "extend", "clear", "sort", "reverse", "update", "add", "discard", "setdefault", "popitem"}
INPLACE_EXT = {"numpy.fill_diagonal", "numpy.put", "numpy.place", "numpy.copyto", "numpy.putmask", "numpy.random.shuffle"}

# (function containing the construct, construct text) -> reason; one named construct each
SUPPRESSED = {
    ("tensorly.tenalg.tenalg_utils._validate_contraction_modes", "modes1[i] += ndim1"): "modes1 is a list built by this function (list(modes1) / [modes1]) and its elements are Python ints: `+=` on an int rebinds the list slot, it cannot write into caller storage",
    ("tensorly.tenalg.tenalg_utils._validate_contraction_modes", "modes2[i] += ndim2"): "same as modes1: a fresh list of Python ints",
}

# (entry function, parameter) pairs documented as updated in place
DOCUMENTED_INPLACE = {
    ("tensorly.cp_tensor.cp_mode_dot", "cp_tensor"): "copy=False is documented to update the CP tensor in place",
    ("tensorly.tucker_tensor.tucker_mode_dot", "tucker_tensor"): "copy=False is documented to update the Tucker tensor in place",
    ("tensorly.solvers.nnls.hals_nnls", "V"): "the NNLS start matrix V is documented as overwritten",
    ("tensorly.backend.core.Backend.index_update", "tensor"): "index_update is the documented in-place primitive",
}


# ... and, where "in place" is an option, the parameter value under which the caller's argument must be left alone
INPLACE_OPTION = {
    ("tensorly.cp_tensor.cp_mode_dot", "cp_tensor"): ("copy", True),
    ("tensorly.tucker_tensor.tucker_mode_dot", "tucker_tensor"): ("copy", True),
}


class Alias(Domain):
    name = "points-to"

    def __init__(self, repo):
        self.repo = repo
        self.constructs = 0
        self.mut_seen = {}

    def bottom(self):
        return E

    def join_d(self, a, b):
        if a is None:
            return b
        if b is None:
            return a
        return a | b

    def const_d(self, c):
        return E

    def fresh_d(self, node=None):
        return E

    def unknown_d(self):
        return E

    def container_ident(self, node, it):
        return E

    def join_ident(self, a, b):
        if a is None:
            return b
        if b is None:
            return a
        return a | b

    # -- effects ---------------------------------------------------------------------------
    def mutate(self, origins, how, node, it):
        key = id(node)
        if key not in self.mut_seen:
            self.mut_seen[key] = 1
            self.constructs += 1
        if not origins:
            return
        f = it.stack[-1].f if it.stack else None
        for tok in origins:
            it.effect(tok, how, f.qname if f is not None else "?", getattr(node, "lineno", 0), src(node))

    # -- semantics ---------------------------------------------------------------------------
    def binop(self, op, a, b, node, it):
        return Leaf(E)

    def unop(self, op, a, node, it):
        return Leaf(E)

    def compare(self, a, b, node, it):
        return Leaf(E)

    def subscript(self, base, index, node, it):
        if isinstance(index, Const) and is_kind(index.c) and index.c.kind == "scalar-index":
            return Leaf(E)  # a[i, j]: a scalar of a matrix
        return base  # a row / slice view shares storage

    def attribute(self, base, attr, node, it):
        if isinstance(base, (Leaf, Sym)):
            if attr in ("shape", "ndim", "size", "dtype"):
                return Leaf(E)
            if attr in ("T", "real", "imag", "flat"):
                return Leaf(base.d) if isinstance(base, Leaf) else base
        return None

    def store_sub(self, base, index, value, node, it):
        if isinstance(base, Leaf):
            self.mutate(base.d, "element store into an array", node, it)
            return base
        if isinstance(base, Sym):
            self.mutate(base.d, "element store", node, it)
            return base
        return None

    def store_attr(self, base, attr, value, node, it):
        if isinstance(base, Sym):
            self.mutate(base.d, f"attribute store .{attr}", node, it)
            return base
        if isinstance(base, Obj) and base.ident:
            self.mutate(base.ident, f"attribute store .{attr}", node, it)
        return None

    def augassign(self, target, op, value, node, it):
        if isinstance(target, Leaf):
            self.mutate(target.d, "in-place operator on an array", node, it)
            return target
        if isinstance(target, Sym):
            self.mutate(target.d, "in-place operator", node, it)
            return target
        if isinstance(target, Lst):
            self.mutate(target.ident or E, "in-place list extension", node, it)
        return None

    def mutate_container(self, cont, how, node, it):
        if isinstance(cont, (Lst, Dct)):
            self.mutate(cont.ident or E, f"container mutation ({how})", node, it)
        elif isinstance(cont, Sym):
            self.mutate(cont.cd, f"container mutation ({how})", node, it)

    def unknown_call(self, name, args, kwargs, node, it):
        # user callables are assumed not to mutate; their result may alias their arguments
        d = E
        for a in list(args) + list(kwargs.values()):
            d = d | it.datum(a)
        return Sym(d)

    def prim(self, name, args, kwargs, node, it):
        last = name.rsplit(".", 1)[-1]
        a0 = args[0] if args else None
        if last in VIEW_PRIMS:
            d = it.datum(a0) if a0 is not None else E
            if isinstance(a0, (Lst, Tup)) :
                return Leaf(E)  # np.asarray(list) builds a new array
            return Leaf(d)
        if last == "index_update":
            if isinstance(a0, (Leaf, Sym)):
                self.mutate(a0.d, "index_update (in-place store)", node, it)
                return a0
            return Leaf(E)
        if last == "context":
            return Dct(E, Leaf(E))
        if last == "shape":
            return Lst(E, Leaf(E), ())
        if last in ("svd", "qr", "eigh", "lstsq", "partial_svd", "slogdet", "unique"):
            return Lst(E, Leaf(E), ())
        if last == "check_random_state":
            return Sym(E)
        if last in ("fill_diagonal", "copyto", "put", "place", "putmask"):
            if isinstance(a0, (Leaf, Sym)):
                self.mutate(a0.d, f"numpy.{last} (in place)", node, it)
            return NONE
        out = kwargs.get("out")
        if out is not None and isinstance(out, (Leaf, Sym)):
            self.mutate(out.d, "out= argument", node, it)
        return Leaf(E)

    def ext(self, dotted, args, kwargs, node, it):
        if dotted in INPLACE_EXT and args and isinstance(args[0], (Leaf, Sym)):
            self.mutate(args[0].d, f"{dotted} (in place)", node, it)
            return NONE
        if dotted.startswith("copy."):
            if dotted == "copy.copy" and args:
                a = args[0]
                if isinstance(a, (Lst, Dct)):
                    return Lst(E, a.default, a.over) if isinstance(a, Lst) else Dct(E, a.value)
                if isinstance(a, Sym):
                    return Lst(E, a, ())
            return Sym(E)
        if dotted.startswith("numpy") or dotted.startswith("scipy") or dotted.startswith("math"):
            return None
        return Sym(E)

    def method(self, name, recv, args, kwargs, node, it):
        if isinstance(recv, (Leaf, Sym)):
            if name in VIEW_METHODS:
                return Leaf(recv.d)
            if name in INPLACE_METHODS:
                self.mutate(recv.d, f"in-place method .{name}()", node, it)
                return NONE, recv
            if isinstance(recv, Sym) and name in CONTAINER_MUTATORS:
                self.mutate(recv.cd, f"container mutation (.{name})", node, it)
                return (recv if name == "pop" else NONE), recv
            if name == "copy":
                if isinstance(recv, Sym):
                    return Lst(E, recv, ())  # shallow copy: new container, same elements
                return Leaf(E)
            if name in ("items", "values", "keys", "get"):
                return Lst(E, recv, ()) if name != "get" else recv
            if name in ("astype", "tolist", "mean", "sum", "prod", "max", "min", "dot", "conj", "cumsum", "round", "clip", "std", "var", "any", "all", "argmax", "argmin", "argsort", "nonzero", "flatten", "item", "trace", "index", "count", "lower", "upper", "format", "join", "split", "startswith", "endswith", "strip"):
                return Leaf(E)
            if name in ("random_sample", "randn", "normal", "randint", "choice", "rand", "gamma", "uniform", "permutation", "standard_normal"):
                return Leaf(E)
            if name == "shuffle" and args and isinstance(args[0], (Leaf, Sym)):
                self.mutate(args[0].d, "shuffle (in place)", node, it)
                return NONE
        return None


# ---------------------------------------------------------------------------------
def _is_number_default(d) -> bool:
    if isinstance(d, ast.Constant):
        return isinstance(d.value, (int, float, complex)) and not isinstance(d.value, bool)
    if isinstance(d, ast.UnaryOp) and isinstance(d.operand, ast.Constant):
        return isinstance(d.operand.value, (int, float))
    return False


def symbolic_args(f: FunctionInfo):
    args = {}
    dflt = f.defaults
    for p in f.all_params:
        if p == f.self_name and f.cls is not None:
            args[p] = Obj(f.cls.qname, E, ())
        elif p == f.kwarg:
            args[p] = Dct(E, Sym(frozenset([("P", p)])))
        elif p == f.vararg:
            args[p] = Lst(E, Sym(frozenset([("P", p)])), ())
        elif p in dflt and _is_number_default(dflt[p]):
            args[p] = Leaf(E)  # a Python number: immutable, nothing to alias
        else:
            args[p] = Sym(frozenset([("P", p)]))
    return args


def run(ctx: Ctx):
    repo, res = ctx.repo, ctx.res
    res.rule("MUTATES-ARG", "no public entry point can reach (through aliases: names, views, slices, containers, wrapper objects, calls) an element store, in-place operator, mutator method, index_update or attribute store on an object reachable from one of its caller-owned arguments, except the documented in-place parameters", floor=200)
    res.assume(
        "user callables (callback, callable SVD) do not mutate their arguments",
        "NumPy primitives follow the semantics table: reshape/transpose/moveaxis/flip/squeeze/ravel/.T, slices and single-index subscripts may share storage; arithmetic, tl.copy, tl.tensor and every other math primitive return fresh arrays; a[i, j] is a scalar",
        "draws on a caller-supplied RandomState advance it by design and are not counted as mutation",
        "objects stored on self between calls are tracked within one method only",
        "parameters whose default is a number are numbers (immutable)",
    )
    dom = Alias(repo)
    it = Interp(repo, dom)
    entries = entry_points(repo)
    n_params = 0
    reported = set()
    for f in entries:
        if f.cls is not None and f.name == "__init__":
            # constructors only store references; wrappers are views on their operands by design
            pass
        args = symbolic_args(f)
        r = it.call_function(f, args)
        by_param = {}
        for eff in r.effects:
            tok, how, fq, line, construct = eff
            if (fq, construct) in SUPPRESSED:
                continue
            if tok[0] == "P":
                by_param.setdefault(tok[1], []).append(eff)
        for p in f.all_params:
            if p == f.self_name:
                continue
            n_params += 1
            effs = by_param.get(p, [])
            res.instance("MUTATES-ARG", f"{f.qname}({p})", nontrivial=True, sample={"entry": f.qname, "param": p, "mutations": [e[4][:70] for e in effs][:3]} if (effs or n_params % 90 == 0) else None)
            if not effs:
                continue
            if (f.qname, p) in DOCUMENTED_INPLACE:
                # documented as in place -- but when that is an option, the safe value of the option must be safe
                opt = INPLACE_OPTION.get((f.qname, p))
                if opt is None:
                    continue
                from ..absint import Const

                args2 = dict(symbolic_args(f))
                args2[opt[0]] = Const(opt[1])
                r2 = it.call_function(f, args2)
                effs = [e for e in r2.effects if e[0][0] == "P" and e[0][1] == p and (e[2], e[4]) not in SUPPRESSED]
                res.instance("MUTATES-ARG", f"{f.qname}({p}) with {opt[0]}={opt[1]}", nontrivial=True, sample={"entry": f.qname, "param": p, "option": f"{opt[0]}={opt[1]}", "mutations": [e[4][:70] for e in effs][:3]})
                if not effs:
                    continue
                how_suffix = f" although {opt[0]}={opt[1]} was requested"
            else:
                how_suffix = ""
            seen_sites = set()
            for tok, how, fq, line, construct in sorted(effs, key=lambda e: (e[2], e[3])):
                origin = repo.functions.get(fq)
                # one finding per (entry point, argument, kind of write): the key names the failing input -- which
                # public function modifies which caller-owned argument -- and survives re-wording the store
                # or moving it into a helper
                if how in seen_sites:
                    continue
                seen_sites.add(how)
                ctx.finding(
                    "MUTATES-ARG",
                    f,
                    None,
                    f"public `{f.name}` can write into its caller-owned argument `{p}`{how_suffix}: {how} `{construct[:90]}` at {origin.module.rel if origin else '?'}:{line} in `{fq.rsplit('.', 1)[-1]}`",
                    construct=f"{p} <- {how}" + (f" [{how_suffix.strip()}]" if how_suffix else ""),
                    mutating_function=fq,
                    line=line,
                    param=p,
                    how=how,
                )
                # point the report at the mutating construct
                ctx.res.findings[-1].file = origin.module.rel if origin else f.module.rel
                ctx.res.findings[-1].line = line
    res.stats.update(
        {
            "public_entry_points": len(entries),
            "entry_parameters_checked": n_params,
            "mutating_constructs_examined": dom.constructs,
            "summaries": it.summaries,
            "functions_analysed": len(it.functions_analysed),
            "cfg_node_visits": it.node_visits,
            "calls_resolved": it.calls_resolved,
            "calls_unresolved": it.calls_unresolved,
            "documented_inplace_parameters": [f"{a}({b})" for a, b in DOCUMENTED_INPLACE],
        }
    )
