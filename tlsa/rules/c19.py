"""C19 — regressors predict with the weights they expose (partial: CP / Tucker regressors).

FRESH-EXPOSURE: in ``CPRegressor.fit`` / ``TuckerRegressor.fit`` every attribute exposed
before ``return self`` is derived from the same final factor state (path exploration with the
version relation of C06), through the family's reconstruction applied to exactly the exposed
factor pair; ``predict`` reads only exposed attributes and contracts
``partial_tensor_to_vec(X)`` with one of them.

NOT decided: CP-PLSR's score / loadings / invariance clauses (numeric).
"""

from __future__ import annotations

import ast

from ..cfg import build_cfg, names_in
from ..common import Ctx, call_name, is_name, src
from ..explore import Explorer
from ..model import AnalysisError, own_scope_nodes
from .c06 import FreshRule
from .drivers import base_name, callee_name, flat_targets

REGRESSORS = {
    "tensorly.regression.cp_regression.CPRegressor": dict(
        model=["weights", "W"], derived=["weight_tensor_"], pair_attr="cp_weight_", to_tensor="cp_to_tensor", to_vec="cp_to_vec",
    ),
    "tensorly.regression.tucker_regression.TuckerRegressor": dict(
        model=["G", "W"], derived=["weight_tensor_"], pair_attr="tucker_weight_", to_tensor="tucker_to_tensor", to_vec="tucker_to_vec",
    ),
}


class ExposureRule(FreshRule):
    """FreshRule where the report sites are the ``self.<attr> = E`` stores."""

    def __init__(self, f, row, D):
        super().__init__(f, row, D)
        self.exposed = {}

    def relevant(self, n):
        if isinstance(n, ast.Attribute) and isinstance(n.ctx, ast.Store) and is_name(n.value, self.f.self_name):
            return True
        return super().relevant(n)

    def _assign(self, stmt, targets, value, sync, defined, last_ok, node, ex):
        if len(targets) == 1 and isinstance(targets[0], ast.Attribute) and is_name(targets[0].value, self.f.self_name):
            attr = targets[0].attr
            ns = names_in(value)
            if ns & (self.MC | self.D):
                undef = sorted(n for n in ns if n in self.D and n not in defined)
                if undef:
                    # the attribute would not be bound on this path (n_iter_max = 0): outside the rule
                    return None
                row = self.row_of(value, sync)
                stale = sorted(m for m in self.M if m not in row)
                self.exposed.setdefault(attr, src(value))
                if stale:
                    ex.report(("FRESH-EXPOSURE", src(stmt)), f"`self.{attr}` is exposed from `{src(value)}`, computed before `{'`, `'.join(stale)}` was last updated on this path: the exposed {attr} does not belong to the exposed factors", node, extra={"stale": stale})
            return (sync, defined, last_ok)
        return super()._assign(stmt, targets, value, sync, defined, last_ok, node, ex)


def run(ctx: Ctx):
    repo, res = ctx.repo, ctx.res
    res.rule("FRESH-EXPOSURE", "every attribute exposed by fit is computed from the current versions of all factor variables on every path (convergence break and iteration cap alike), through the family's reconstruction of exactly the exposed factor pair; predict reads only exposed attributes and contracts partial_tensor_to_vec(X) with one of them", floor=10)
    res.assume(
        "paths without a sweep (n_iter_max = 0, where weight_tensor_ is never bound) are outside the rule",
        "the reconstructions agree with each other (C03 VIEW-DELEGATES)",
        "NOT decided: the CP-PLSR clauses (numeric)",
    )
    res.rule("STATS-FROM-FIT", "CP_PLSR.predict / transform centre the query data with the means stored by fit: no statistic (mean / std / ...) of the query batch is computed, directly or through a helper whose statistic parameter keeps its None default", floor=2)
    ctx.guarded(stats_from_fit, ctx)
    res.rule("TRANSFORM-DELEGATES", "a regressor that offers both transform and fit_transform returns from fit_transform what transform returns for the same data after fit: every return of fit_transform is a call of `.transform(<its own arguments>)` on the fitted object -- not the model's own arrays handed out by reference (which a caller can overwrite, after which transform no longer agrees with the exposed scores)", floor=1)
    ctx.guarded(transform_delegates, ctx)
    res.rule("FILL-COMPLETE", "CP_PLSR.fit writes one column of every preallocated (all-zero) loading matrix per pass of its component loop `for c in range(n_components)`; that loop has no early exit (break / return) of its own, so no component is left at its zero initial value (loadings of every component have unit norm)", floor=2)
    ctx.guarded(fill_complete, ctx)
    for cq, spec in REGRESSORS.items():
        ci = repo.cls(cq)
        fit = ci.methods.get("fit")
        predict = ci.methods.get("predict")
        if fit is not None and predict is not None:
            from ..inline import with_inlined

            fit, predict = with_inlined(repo, fit), with_inlined(repo, predict)  # private methods are expanded
        if fit is None or predict is None:
            raise AnalysisError(f"{cq}: fit / predict vanished")
        for v in spec["model"] + spec["derived"]:
            if v not in fit.local_names():
                raise AnalysisError(f"{cq}.fit: variable `{v}` vanished")
        row = dict(model=spec["model"], errs="__none__", preserving=[])
        rule = ExposureRule(fit, row, set(spec["derived"]))
        g = build_cfg(fit.node, fit.qname, opaque=rule.opaque)
        ex = Explorer(g, rule, track="corr").run()
        res.instance("FRESH-EXPOSURE", f"{fit.qname}: path exploration", sample={"exposed": rule.exposed, "states": ex.states, "paths_to_exit": ex.paths_to_exit})
        for v in ex.violations.values():
            ctx.finding("FRESH-EXPOSURE", fit, v.node.ast, v.message, construct=v.key[1], path=v.path)
        # shape of the exposures
        pair = tuple(spec["model"])
        stores = {}
        for s in own_scope_nodes(fit.node):
            if isinstance(s, ast.Assign) and len(s.targets) == 1 and isinstance(s.targets[0], ast.Attribute) and is_name(s.targets[0].value, fit.self_name):
                stores[s.targets[0].attr] = s
        def is_pair(e):
            from ..common import inline_locals

            if isinstance(e, ast.Name) and e.id not in pair:
                e = inline_locals(fit.node, e, depth=1)  # tucker_weight = (G, W); self.tucker_weight_ = tucker_weight
            return isinstance(e, ast.Tuple) and tuple(src(x) for x in e.elts) == pair
        # weight_tensor_ = to_tensor((pair))
        wt_defs = [s for s in own_scope_nodes(fit.node) if isinstance(s, ast.Assign) and any(is_name(t, "weight_tensor_") for t in s.targets)]
        for s in wt_defs:
            ok = isinstance(s.value, ast.Call) and callee_name(s.value) == spec["to_tensor"] and s.value.args and is_pair(s.value.args[0]) and len(s.value.args) == 1 and not s.value.keywords
            res.instance("FRESH-EXPOSURE", f"{fit.qname}: {src(s)[:70]}", sample={"ok": ok})
            if not ok:
                ctx.finding("FRESH-EXPOSURE", fit, s, f"weight_tensor_ is not {spec['to_tensor']}(({', '.join(pair)})): the exposed weight tensor is not the reconstruction of the exposed factors")
        if not wt_defs:
            raise AnalysisError(f"{fit.qname}: weight_tensor_ is never computed")
        checks = {
            "weight_tensor_": lambda v: is_name(v, "weight_tensor_"),
            spec["pair_attr"]: is_pair,
            "vec_W_": lambda v: isinstance(v, ast.Call) and callee_name(v) == spec["to_vec"] and v.args and is_pair(v.args[0]) and len(v.args) == 1 and not v.keywords,
        }
        for attr, pred in checks.items():
            s = stores.get(attr)
            res.instance("FRESH-EXPOSURE", f"{fit.qname}: self.{attr}", sample={"store": src(s) if s is not None else None})
            if s is None:
                ctx.finding("FRESH-EXPOSURE", fit, fit.node, f"fit no longer exposes `{attr}`", construct=f"self.{attr} missing")
            elif not pred(s.value):
                ctx.finding("FRESH-EXPOSURE", fit, s, f"`self.{attr}` is not derived from the fitted pair ({', '.join(pair)}) through the family's reconstruction")
        # predict
        exposed_attrs = set(stores)
        init = ci.methods.get("__init__")
        if init is not None:
            for s in own_scope_nodes(init.node):
                if isinstance(s, ast.Assign) and len(s.targets) == 1 and isinstance(s.targets[0], ast.Attribute):
                    exposed_attrs.add(s.targets[0].attr)
        reads = {n.attr for n in own_scope_nodes(predict.node) if isinstance(n, ast.Attribute) and is_name(n.value, predict.self_name)}
        res.instance("FRESH-EXPOSURE", f"{predict.qname}: reads {sorted(reads)}")
        for a in sorted(reads - exposed_attrs):
            ctx.finding("FRESH-EXPOSURE", predict, predict.node, f"predict reads `self.{a}`, which fit does not expose", construct=f"predict reads self.{a}")
        rets = [r for r in own_scope_nodes(predict.node) if isinstance(r, ast.Return)]
        for r in rets:
            from ..common import inline_locals

            rv = inline_locals(predict.node, r, depth=6)  # flat_X = partial_tensor_to_vec(X); weights = self.weight_tensor_; ...
            dots = [c for c in ast.walk(rv) if isinstance(c, ast.Call) and call_name(c) in ("dot", "matmul", "tensordot")]
            ok = False
            for d in dots:
                if len(d.args) >= 2:
                    a0, a1 = d.args[0], d.args[1]
                    left = isinstance(a0, ast.Call) and call_name(a0) == "partial_tensor_to_vec" and a0.args and is_name(a0.args[0], predict.call_params[0])
                    # the exposed weights themselves, re-arranged at most (reshape / transpose): a cast, a copy
                    # with change or any arithmetic on the way means predict uses other numbers than it exposes
                    core = a1
                    while isinstance(core, ast.Call) and call_name(core) in ("reshape", "transpose", "ravel", "moveaxis", "tensor_to_vec", "partial_tensor_to_vec") and core.args:
                        core = core.args[0]
                    right = isinstance(core, ast.Attribute) and core.attr in ("weight_tensor_", "vec_W_") and is_name(core.value, predict.self_name)
                    if left and right:
                        ok = True
            res.instance("FRESH-EXPOSURE", f"{predict.qname}: {src(r)[:70]}", sample={"ok": ok})
            if not ok:
                ctx.finding("FRESH-EXPOSURE", predict, r, "predict does not contract partial_tensor_to_vec(X) with the exposed weight tensor / vectorised weights")
        if not rets:
            raise AnalysisError(f"{predict.qname}: no return")


# ---------------------------------------------------------------------------------
# STATS-FROM-FIT: the query batch is centred with the training statistics
# ---------------------------------------------------------------------------------
STAT_FUNCS = {"mean", "std", "var", "median", "average"}
PLSR = "tensorly.regression.cp_plsr.CP_PLSR"
QUERY_METHODS = {"predict": ["X"], "transform": ["X", "Y"]}


def _stat_sites(fnode, tainted, none_params):
    """statistic calls on a tainted value; `if p is None:` bodies are skipped when p is known
    to be given (not in none_params)"""
    out = []

    def walk(stmts, tainted):
        for s in stmts:
            if isinstance(s, ast.If):
                t = s.test
                if isinstance(t, ast.Compare) and len(t.ops) == 1 and isinstance(t.left, ast.Name) and isinstance(t.comparators[0], ast.Constant) and t.comparators[0].value is None:
                    is_none = isinstance(t.ops[0], (ast.Is, ast.Eq))
                    known_none = t.left.id in none_params
                    known_given = t.left.id in given_params
                    if known_none or known_given:
                        take_body = (is_none and known_none) or (not is_none and known_given)
                        walk(s.body if take_body else s.orelse, tainted)
                        continue
                walk(s.body, tainted)
                walk(s.orelse, tainted)
                continue
            for c in ast.walk(s):
                if isinstance(c, ast.Call) and call_name(c) in STAT_FUNCS and c.args and any(isinstance(n, ast.Name) and n.id in tainted for n in ast.walk(c.args[0])):
                    out.append(c)
            if isinstance(s, ast.Assign) and any(isinstance(n, ast.Name) and n.id in tainted for n in ast.walk(s.value)):
                for tg in s.targets:
                    for n in ast.walk(tg):
                        if isinstance(n, ast.Name):
                            tainted = tainted | {n.id}
            if isinstance(s, (ast.For, ast.While, ast.With, ast.Try)):
                walk(getattr(s, "body", []), tainted)
        return tainted

    given_params = set()
    return out, walk, given_params


def stats_from_fit(ctx: Ctx):
    """`predict` / `transform` must treat each sample independently of the rest of the batch:
    the query data is centred with the means stored by `fit` (self.X_mean_, self.Y_mean_), never
    with statistics recomputed from the query batch (directly or through a helper whose mean
    parameter keeps its `None` default)."""
    from ..model import bind_call

    repo, res = ctx.repo, ctx.res
    ci = repo.cls(PLSR)
    n = 0
    for mname, qparams in QUERY_METHODS.items():
        m = ci.methods.get(mname)
        if m is None:
            raise AnalysisError(f"STATS-FROM-FIT: {PLSR}.{mname} vanished")
        qs = [p for p in qparams if p in m.all_params]
        if not qs:
            raise AnalysisError(f"STATS-FROM-FIT: {PLSR}.{mname} no longer takes {qparams}")
        # names derived from the query arguments
        tainted = set(qs)
        changed = True
        while changed:
            changed = False
            for s in own_scope_nodes(m.node):
                if isinstance(s, ast.Assign) and any(isinstance(x, ast.Name) and x.id in tainted for x in ast.walk(s.value)):
                    for tg in s.targets:
                        for x in ast.walk(tg):
                            if isinstance(x, ast.Name) and x.id not in tainted and not (isinstance(tg, ast.Attribute)):
                                tainted.add(x.id)
                                changed = True
        bad = []
        for c in own_scope_nodes(m.node):
            if not isinstance(c, ast.Call):
                continue
            if call_name(c) in STAT_FUNCS and c.args and any(isinstance(x, ast.Name) and x.id in tainted for x in ast.walk(c.args[0])):
                bad.append((c, None))
                continue
            ct = repo.resolve_call(m, m.module, c)
            if ct.kind == "repo" and len(ct.funcs) == 1 and not ct.cha and ct.funcs[0].module.name.startswith("tensorly.regression"):
                g = ct.funcs[0]
                b = bind_call(c, g, ct.bound)
                inner_t = {p for p, a in b.params.items() if any(isinstance(x, ast.Name) and x.id in tainted for x in ast.walk(a))}
                if not inner_t:
                    continue
                given = {p for p, a in b.params.items() if not (isinstance(a, ast.Constant) and a.value is None)}
                none_p = {p for p in g.all_params if p not in given and p in g.defaults and isinstance(g.defaults[p], ast.Constant) and g.defaults[p].value is None}
                sites, walk, given_params = _stat_sites(g.node, inner_t, none_p)
                given_params |= given
                walk(g.node.body, set(inner_t))
                for x in sites:
                    bad.append((c, (g, x)))
        n += 1
        res.instance("STATS-FROM-FIT", f"{m.qname}", sample={"query_arguments": qs, "batch_statistics": [src(c)[:50] for c, _ in bad], "ok": not bad})
        for c, via in bad:
            extra = f" (through `{via[0].name}`: `{src(via[1])[:50]}`, reached because the call leaves the helper's statistic parameter at its `None` default)" if via else ""
            ctx.finding("STATS-FROM-FIT", m, c, f"`{ci.name}.{mname}` computes a statistic of the query batch at `{src(c)[:60]}`{extra}: a sample's result then depends on which other samples are in the batch, a single sample is centred to zero, and predictions no longer equal transform(X) contracted with the fitted coefficients -- the means stored by fit must be used", construct=f"{ci.name}.{mname}: statistic of the query batch {src(c)[:50]}")
    if n == 0:
        raise AnalysisError("STATS-FROM-FIT: nothing analysed")


# ---------------------------------------------------------------------------------
# FILL-COMPLETE: every component of the PLS model is written
# ---------------------------------------------------------------------------------
def fill_complete(ctx: Ctx):
    repo, res = ctx.repo, ctx.res
    f = repo.func("tensorly.regression.cp_plsr.CP_PLSR.fit")
    loops = []
    for lp in own_scope_nodes(f.node):
        if isinstance(lp, ast.For) and isinstance(lp.target, ast.Name) and isinstance(lp.iter, ast.Call) and is_name(lp.iter.func, "range") and any(isinstance(n, ast.Attribute) and n.attr == "n_components" for n in ast.walk(lp.iter)):
            # the loop stores column `c` of some exposed matrix
            c = lp.target.id
            from .state import _resolve_at

            # the index may be named first (`column = T.index[:, c]`)
            stores = [u for u in ast.walk(lp) if isinstance(u, ast.Call) and call_name(u) == "index_update" and len(u.args) >= 2 and any(isinstance(n, ast.Name) and n.id == c for n in ast.walk(_resolve_at(u.args[1], u, f.node, depth=2)))]
            if stores:
                loops.append((lp, c, stores))
    if not loops:
        raise AnalysisError("FILL-COMPLETE: the component loop of CP_PLSR.fit (for c in range(self.n_components) storing column c) was not found; cannot decide")
    for lp, c, stores in loops:
        res.instance("FILL-COMPLETE", f"{f.qname}: component loop over `{c}`", sample={"column_stores": len(stores)})

        def own_exits(block, inner):
            out = []
            for st in block:
                if isinstance(st, (ast.For, ast.While)):
                    out += own_exits(st.body, True) + own_exits(st.orelse, inner)
                    continue
                if isinstance(st, ast.Break) and not inner:
                    out.append(st)
                if isinstance(st, ast.Return):
                    out.append(st)
                for fld in ("body", "orelse", "finalbody"):
                    sub = getattr(st, fld, None)
                    if isinstance(sub, list) and sub and isinstance(sub[0], ast.stmt) and not isinstance(st, (ast.FunctionDef, ast.For, ast.While)):
                        out += own_exits(sub, inner)
                for h in getattr(st, "handlers", []) or []:
                    out += own_exits(h.body, inner)
            return out

        exits = own_exits(lp.body, False)
        res.instance("FILL-COMPLETE", f"{f.qname}: early exits of the component loop", sample={"exits": [src(e)[:40] for e in exits], "ok": not exits})
        for e in exits:
            ctx.finding("FILL-COMPLETE", f, e, f"the component loop `for {c} in {src(lp.iter)[:40]}` can be left early (`{src(e)[:40]}` at line {e.lineno}): the columns of the preallocated loading matrices that were not reached stay zero, so the model exposes components whose loadings do not have unit norm (and predict / transform use them)", construct=f"CP_PLSR.fit: early exit of the component loop ({src(e)[:30]})")


# ---------------------------------------------------------------------------------
# TRANSFORM-DELEGATES: fit_transform is fit followed by transform
# ---------------------------------------------------------------------------------
def transform_delegates(ctx: Ctx):
    from .state import _resolve_at

    repo, res = ctx.repo, ctx.res
    n = 0
    for ci in repo.classes.values():
        if not ci.module.name.startswith("tensorly.regression."):
            continue
        ft, tr = ci.methods.get("fit_transform"), ci.methods.get("transform")
        if ft is None or tr is None:
            continue
        n += 1
        rets = [r for r in own_scope_nodes(ft.node) if isinstance(r, ast.Return)]
        own_args = [p for p in ft.all_params if p != ft.self_name]
        for r in rets:
            v = _resolve_at(r.value, r, ft.node, depth=3) if r.value is not None else None
            ok, why = False, "does not return the result of transform"
            if isinstance(v, ast.Call) and isinstance(v.func, ast.Attribute) and v.func.attr == "transform":
                recv = v.func.value
                fitted = (isinstance(recv, ast.Call) and isinstance(recv.func, ast.Attribute) and recv.func.attr == "fit") or (
                    isinstance(recv, ast.Name) and recv.id == ft.self_name and any(isinstance(c, ast.Call) and isinstance(c.func, ast.Attribute) and c.func.attr == "fit" and getattr(c, "lineno", 0) <= r.lineno for c in own_scope_nodes(ft.node))
                )
                passed = [a.id for a in v.args if isinstance(a, ast.Name)] + [k.value.id for k in v.keywords if isinstance(k.value, ast.Name)]
                if not fitted:
                    why = "calls transform on an object that was not fitted first"
                elif passed[: len(own_args)] != own_args and sorted(passed) != sorted(own_args):
                    why = f"hands transform {passed} instead of its own arguments {own_args}"
                else:
                    ok = True
            res.instance("TRANSFORM-DELEGATES", f"{ft.qname}: {src(r)[:60]}", sample={"ok": ok})
            if not ok:
                ctx.finding("TRANSFORM-DELEGATES", ft, r, f"{ci.name}.fit_transform {why} (`{src(r)[:70]}`): what it returns need not be what transform returns for the training data -- and if it is the model's own arrays (self.<factors>[...]), the caller holds a reference into the fitted state, so editing the returned scores silently changes what predict / transform compute afterwards", construct=f"{ci.name}.fit_transform: not fit(...).transform(...)")
    if n == 0:
        raise AnalysisError("TRANSFORM-DELEGATES: no regressor offers both transform and fit_transform any more; cannot decide")
