"""C19 — regressors predict with the weights they expose (partial: CP / Tucker regressors).

FRESH-EXPOSURE: in ``CPRegressor.fit`` / ``TuckerRegressor.fit`` every attribute exposed
before ``return self`` is derived from the same final factor state (path exploration with the
version relation of C06), through the family's reconstruction applied to exactly the exposed
factor pair; ``predict`` reads only exposed attributes and contracts
``partial_tensor_to_vec(X)`` with one of them.

NOT decided: CP-PLSR's score / loadings / invariance clauses (numeric).
"""

from __future__ import annotations

import ast

from ..cfg import build_cfg, names_in
from ..common import Ctx, call_name, is_name, src
from ..explore import Explorer
from ..model import AnalysisError, own_scope_nodes
from .c06 import FreshRule
from .drivers import base_name, callee_name, flat_targets

REGRESSORS = {
    "tensorly.regression.cp_regression.CPRegressor": dict(
        model=["weights", "W"], derived=["weight_tensor_"], pair_attr="cp_weight_", to_tensor="cp_to_tensor", to_vec="cp_to_vec",
    ),
    "tensorly.regression.tucker_regression.TuckerRegressor": dict(
        model=["G", "W"], derived=["weight_tensor_"], pair_attr="tucker_weight_", to_tensor="tucker_to_tensor", to_vec="tucker_to_vec",
    ),
}


class ExposureRule(FreshRule):
    """FreshRule where the report sites are the ``self.<attr> = E`` stores."""

    def __init__(self, f, row, D):
        super().__init__(f, row, D)
        self.exposed = {}

    def relevant(self, n):
        if isinstance(n, ast.Attribute) and isinstance(n.ctx, ast.Store) and is_name(n.value, self.f.self_name):
            return True
        return super().relevant(n)

    def _assign(self, stmt, targets, value, sync, defined, last_ok, node, ex):
        if len(targets) == 1 and isinstance(targets[0], ast.Attribute) and is_name(targets[0].value, self.f.self_name):
            attr = targets[0].attr
            ns = names_in(value)
            if ns & (self.MC | self.D):
                undef = sorted(n for n in ns if n in self.D and n not in defined)
                if undef:
                    # the attribute would not be bound on this path (n_iter_max = 0): outside the rule
                    return None
                row = self.row_of(value, sync)
                stale = sorted(m for m in self.M if m not in row)
                self.exposed.setdefault(attr, src(value))
                if stale:
                    ex.report(("FRESH-EXPOSURE", src(stmt)), f"`self.{attr}` is exposed from `{src(value)}`, computed before `{'`, `'.join(stale)}` was last updated on this path: the exposed {attr} does not belong to the exposed factors", node, extra={"stale": stale})
            return (sync, defined, last_ok)
        return super()._assign(stmt, targets, value, sync, defined, last_ok, node, ex)


def run(ctx: Ctx):
    repo, res = ctx.repo, ctx.res
    res.rule("FRESH-EXPOSURE", "every attribute exposed by fit is computed from the current versions of all factor variables on every path (convergence break and iteration cap alike), through the family's reconstruction of exactly the exposed factor pair; predict reads only exposed attributes and contracts partial_tensor_to_vec(X) with one of them", floor=10)
    res.assume(
        "paths without a sweep (n_iter_max = 0, where weight_tensor_ is never bound) are outside the rule",
        "the reconstructions agree with each other (C03 VIEW-DELEGATES)",
        "NOT decided: the CP-PLSR clauses (numeric)",
    )
    for cq, spec in REGRESSORS.items():
        ci = repo.cls(cq)
        fit = ci.methods.get("fit")
        predict = ci.methods.get("predict")
        if fit is None or predict is None:
            raise AnalysisError(f"{cq}: fit / predict vanished")
        for v in spec["model"] + spec["derived"]:
            if v not in fit.local_names():
                raise AnalysisError(f"{cq}.fit: variable `{v}` vanished")
        row = dict(model=spec["model"], errs="__none__", preserving=[])
        rule = ExposureRule(fit, row, set(spec["derived"]))
        g = build_cfg(fit.node, fit.qname, opaque=rule.opaque)
        ex = Explorer(g, rule, track="corr").run()
        res.instance("FRESH-EXPOSURE", f"{fit.qname}: path exploration", sample={"exposed": rule.exposed, "states": ex.states, "paths_to_exit": ex.paths_to_exit})
        for v in ex.violations.values():
            ctx.finding("FRESH-EXPOSURE", fit, v.node.ast, v.message, construct=v.key[1], path=v.path)
        # shape of the exposures
        pair = tuple(spec["model"])
        stores = {}
        for s in own_scope_nodes(fit.node):
            if isinstance(s, ast.Assign) and len(s.targets) == 1 and isinstance(s.targets[0], ast.Attribute) and is_name(s.targets[0].value, fit.self_name):
                stores[s.targets[0].attr] = s
        def is_pair(e):
            return isinstance(e, ast.Tuple) and tuple(src(x) for x in e.elts) == pair
        # weight_tensor_ = to_tensor((pair))
        wt_defs = [s for s in own_scope_nodes(fit.node) if isinstance(s, ast.Assign) and any(is_name(t, "weight_tensor_") for t in s.targets)]
        for s in wt_defs:
            ok = isinstance(s.value, ast.Call) and callee_name(s.value) == spec["to_tensor"] and s.value.args and is_pair(s.value.args[0]) and len(s.value.args) == 1 and not s.value.keywords
            res.instance("FRESH-EXPOSURE", f"{fit.qname}: {src(s)[:70]}", sample={"ok": ok})
            if not ok:
                ctx.finding("FRESH-EXPOSURE", fit, s, f"weight_tensor_ is not {spec['to_tensor']}(({', '.join(pair)})): the exposed weight tensor is not the reconstruction of the exposed factors")
        if not wt_defs:
            raise AnalysisError(f"{fit.qname}: weight_tensor_ is never computed")
        checks = {
            "weight_tensor_": lambda v: is_name(v, "weight_tensor_"),
            spec["pair_attr"]: is_pair,
            "vec_W_": lambda v: isinstance(v, ast.Call) and callee_name(v) == spec["to_vec"] and v.args and is_pair(v.args[0]) and len(v.args) == 1 and not v.keywords,
        }
        for attr, pred in checks.items():
            s = stores.get(attr)
            res.instance("FRESH-EXPOSURE", f"{fit.qname}: self.{attr}", sample={"store": src(s) if s is not None else None})
            if s is None:
                ctx.finding("FRESH-EXPOSURE", fit, fit.node, f"fit no longer exposes `{attr}`", construct=f"self.{attr} missing")
            elif not pred(s.value):
                ctx.finding("FRESH-EXPOSURE", fit, s, f"`self.{attr}` is not derived from the fitted pair ({', '.join(pair)}) through the family's reconstruction")
        # predict
        exposed_attrs = set(stores)
        init = ci.methods.get("__init__")
        if init is not None:
            for s in own_scope_nodes(init.node):
                if isinstance(s, ast.Assign) and len(s.targets) == 1 and isinstance(s.targets[0], ast.Attribute):
                    exposed_attrs.add(s.targets[0].attr)
        reads = {n.attr for n in own_scope_nodes(predict.node) if isinstance(n, ast.Attribute) and is_name(n.value, predict.self_name)}
        res.instance("FRESH-EXPOSURE", f"{predict.qname}: reads {sorted(reads)}")
        for a in sorted(reads - exposed_attrs):
            ctx.finding("FRESH-EXPOSURE", predict, predict.node, f"predict reads `self.{a}`, which fit does not expose", construct=f"predict reads self.{a}")
        rets = [r for r in own_scope_nodes(predict.node) if isinstance(r, ast.Return)]
        for r in rets:
            dots = [c for c in ast.walk(r) if isinstance(c, ast.Call) and call_name(c) in ("dot", "matmul", "tensordot")]
            ok = False
            for d in dots:
                if len(d.args) >= 2:
                    a0, a1 = d.args[0], d.args[1]
                    left = isinstance(a0, ast.Call) and call_name(a0) == "partial_tensor_to_vec" and a0.args and is_name(a0.args[0], predict.call_params[0])
                    right = any(isinstance(x, ast.Attribute) and x.attr in ("weight_tensor_", "vec_W_") and is_name(x.value, predict.self_name) for x in ast.walk(a1))
                    if left and right:
                        ok = True
            res.instance("FRESH-EXPOSURE", f"{predict.qname}: {src(r)[:70]}", sample={"ok": ok})
            if not ok:
                ctx.finding("FRESH-EXPOSURE", predict, r, "predict does not contract partial_tensor_to_vec(X) with the exposed weight tensor / vectorised weights")
        if not rets:
            raise AnalysisError(f"{predict.qname}: no return")
