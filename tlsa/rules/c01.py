"""C01 — unfold / fold / vectorise / matricize (partial: structural clauses).

LAYOUT-ONLY     the tensor value reaches every return only through bijective layout
                primitives (reshape / moveaxis / transpose) and the sibling layout functions
INVERSE-MIRROR  fold / partial_fold undo the axis move and shape bookkeeping of
                unfold / partial_unfold (slot-wise comparison of the two ASTs)
FORWARD         the vec helpers delegate with mode=0 and forward skip_begin / skip_end
"""

from __future__ import annotations

import ast

from ..common import Ctx, call_name, inline_locals, is_const, is_name, src
from ..model import AnalysisError, bind_call, own_scope_nodes

BASE = "tensorly.base"
FUNCS = [
    "tensor_to_vec",
    "vec_to_tensor",
    "unfold",
    "fold",
    "partial_unfold",
    "partial_fold",
    "partial_tensor_to_vec",
    "partial_vec_to_tensor",
    "matricize",
]
LAYOUT_PRIMS = {"reshape", "moveaxis", "transpose"}
SHAPE_PRIMS = {"shape", "ndim"}


def _callee(ctx, fi, call):
    ct = ctx.repo.resolve_call(fi, fi.module, call)
    if ct.kind == "backend":
        return "prim", ct.name
    if ct.kind == "repo" and len(ct.funcs) == 1 and ct.funcs[0].module.name == BASE and ct.funcs[0].name in FUNCS:
        return "sibling", ct.funcs[0]
    if ct.kind == "repo" and len(ct.funcs) == 1:
        w = _layout_wrapper(ctx, ct.funcs[0])
        if w is not None:
            return "wrapper", (ct.funcs[0], w)
    if ct.kind == "repo":
        return "repo", ct.funcs[0]
    return ct.kind, ct.name


_WRAPPER_CACHE = {}


def _layout_wrapper(ctx, g, depth=0):
    """name of the parameter g re-arranges when g is nothing but `return <layout primitive>(param, ...)`
    (a private helper wrapping reshape / moveaxis / transpose); None otherwise"""
    cache = ctx.repo.__dict__.setdefault("_layout_wrapper_cache", {})  # per repository object (per overlay)
    key = g.qname
    if key in cache:
        return cache[key]
    cache[key] = None
    body = [b for b in g.node.body if not (isinstance(b, ast.Expr) and isinstance(b.value, ast.Constant))]
    rets = [r for r in own_scope_nodes(g.node) if isinstance(r, ast.Return)]
    out = None
    if len(rets) == 1 and rets[0].value is not None and body and body[-1] is rets[0] and depth < 2:
        v = inline_locals(g.node, rets[0].value)
        if isinstance(v, ast.Call):
            ct = ctx.repo.resolve_call(g, g.module, v)
            operand = None
            if ct.kind == "backend" and ct.name in LAYOUT_PRIMS:
                operand = v.args[0] if v.args else next((k.value for k in v.keywords if k.arg in ("tensor", "a", "x", "array")), None)
            if isinstance(operand, ast.Name) and operand.id in g.all_params:
                # nothing else in the helper touches the operand except shape reads
                others = [n for n in own_scope_nodes(g.node) if isinstance(n, ast.Name) and n.id == operand.id and isinstance(n.ctx, ast.Store)]
                if not others:
                    out = operand.id
    cache[key] = out
    return out


def _operand(ctx, fi, call):
    """The tensor operand of a layout call (first positional or first parameter by name)."""
    kind, tgt = _callee(ctx, fi, call)
    if kind == "prim":
        return call.args[0] if call.args else None
    if kind == "sibling":
        b = bind_call(call, tgt, bound=False)
        return b.params.get(tgt.pos_params[0])
    if kind == "wrapper":
        g, pname = tgt
        b = bind_call(call, g, bound=False)
        return b.params.get(pname)
    return None


def run(ctx: Ctx):
    repo, res = ctx.repo, ctx.res
    res.rule("LAYOUT-ONLY", "the tensor argument flows to every return only through reshape/moveaxis/transpose and sibling layout functions; elsewhere it is only read for shape/ndim (=> no entry dropped, duplicated, rounded or re-typed, given the primitives are bijections on entries)", floor=9)
    res.rule("AXIS-LIVE", "every ordering parameter (mode, row_modes, column_modes, skip_begin) reaches an axis argument of moveaxis/transpose (or a sibling layout call) on every return path, or selects that path by a test: a reshape alone cannot realise a requested ordering", floor=9)
    res.rule("INVERSE-MIRROR", "fold/partial_fold = moveaxis(reshape(u, L), D, S) with the same source/destination axis expressions as unfold/partial_unfold = reshape(moveaxis(t, S, D), ...), and L = shape with axis S popped and re-inserted at D", floor=2)
    res.rule("FORWARD", "partial_tensor_to_vec / partial_vec_to_tensor delegate with mode=0 and forward skip_begin, skip_end under their own names", floor=2)
    res.assume(
        "backend reshape / moveaxis / transpose are bijections on entries and keep the dtype (NumPy semantics; trusted)",
        "NOT decided: that the permutation is the documented one (index arithmetic of new_shape, skip_end, matricize's mode lists)",
    )
    res.rule("SHAPE-BY-POSITION", "lists derived from a shape are edited by position (pop(i) / insert(i, x) / del / slices), never by value (remove / index / count): mode sizes are not unique, so a value-based edit picks the first axis that merely has the same size (one instance per layout function scanned, plus one per list edit found)", floor=9)
    mod = repo.module(BASE)
    fis = {n: repo.func(f"{BASE}.{n}") for n in FUNCS}
    for n, fi in fis.items():
        ctx.guarded(layout_only, ctx, fi)
        ctx.guarded(axis_live, ctx, fi)
        ctx.guarded(shape_by_position, ctx, fi)
    from .shapeseq import skip_arity

    res.rule("SKIP-ARITY", "partial_unfold: the shape handed to the final reshape consists of exactly skip_begin leading mode sizes, the unfolded block, and exactly skip_end trailing mode sizes (symbolic list lengths as linear forms over the parameters and the tensor order; both ravel options)", floor=2)
    ctx.guarded(skip_arity, ctx, "SKIP-ARITY")
    ctx.guarded(inverse_mirror, ctx, fis["unfold"], fis["fold"])
    ctx.guarded(inverse_mirror, ctx, fis["partial_unfold"], fis["partial_fold"])
    ctx.guarded(forward, ctx, fis["partial_tensor_to_vec"], fis["partial_unfold"], {"mode": 0, "ravel_tensors": True})
    ctx.guarded(forward, ctx, fis["partial_vec_to_tensor"], fis["partial_fold"], {"mode": 0})
    res.rule("AXIS-AS-GIVEN", "the layout functions hand their ordering parameter (mode, skip_begin ...) to the primitives as given; if one of them re-binds it (normalising a negative mode), the correction is the tensor ORDER -- ndim(tensor) / len(shape) -- and nothing else: len(tensor) or shape[0] is a mode size", floor=9)
    for n, fi in fis.items():
        ctx.guarded(axis_as_given, ctx, fi)
    res.rule("PRIM-IS-NUMPY", "the NumPy backend's reshape / moveaxis / transpose -- the primitives whose NumPy semantics the other rules trust -- are NumPy's own functions: registered under their own name with getattr(np, name) / np.<name>, or a method of NumpyBackend that returns exactly np.<name>(its parameters). A wrapper that post-processes the result (copy, contiguity, conversion) is no longer the trusted bijection: it may drop what NumPy's function keeps (subclass, mask, strides, dtype)", floor=3)
    ctx.guarded(prim_is_numpy, ctx)


# ---------------------------------------------------------------------------------
# AXIS-AS-GIVEN: an ordering parameter is only ever corrected by the tensor order
# ---------------------------------------------------------------------------------
def _is_order_expr(e, fi):
    """ndim(t) / t.ndim / len(shape(t)) / len(t.shape) / len(<shape parameter>)"""
    if isinstance(e, ast.Call) and (call_name(e) or "") == "ndim":
        return True
    if isinstance(e, ast.Attribute) and e.attr == "ndim":
        return True
    if isinstance(e, ast.Call) and isinstance(e.func, ast.Name) and e.func.id == "len" and len(e.args) == 1:
        a = e.args[0]
        if isinstance(a, ast.Call) and (call_name(a) or "") == "shape":
            return True
        if isinstance(a, ast.Attribute) and a.attr == "shape":
            return True
        if isinstance(a, ast.Name) and (a.id == "shape" or a.id.endswith("_shape")):
            return True
    return False


def axis_as_given(ctx: Ctx, fi):
    res = ctx.res
    params = [p for p in ORDER_PARAMS if p in fi.all_params]
    stores = []
    for st in own_scope_nodes(fi.node):
        if isinstance(st, ast.Assign) and len(st.targets) == 1 and isinstance(st.targets[0], ast.Name) and st.targets[0].id in params:
            stores.append((st, st.targets[0].id, st.value))
        elif isinstance(st, ast.AugAssign) and isinstance(st.target, ast.Name) and st.target.id in params:
            stores.append((st, st.target.id, ast.BinOp(left=ast.Name(id=st.target.id, ctx=ast.Load()), op=st.op, right=st.value)))
    res.instance("AXIS-AS-GIVEN", f"{fi.qname}: ordering parameters {params}", sample={"rebound": [src(s_)[:50] for s_, _, _ in stores], "ok": True} if stores else None)
    for st, p, v in stores:
        ok = False
        # p + ORDER / ORDER + p / p % ORDER / a conditional between p and one of those
        def good(e):
            if isinstance(e, ast.Name) and e.id == p:
                return True
            if isinstance(e, ast.BinOp) and isinstance(e.op, (ast.Add, ast.Mod)):
                l, r = e.left, e.right
                if isinstance(l, ast.Name) and l.id == p and _is_order_expr(inline_locals(fi.node, r), fi):
                    return True
                if isinstance(e.op, ast.Add) and isinstance(r, ast.Name) and r.id == p and _is_order_expr(inline_locals(fi.node, l), fi):
                    return True
            if isinstance(e, ast.IfExp):
                return good(e.body) and good(e.orelse)
            if isinstance(e, (ast.List, ast.Tuple)) or (isinstance(e, ast.Call) and isinstance(e.func, ast.Name) and e.func.id in ("list", "tuple", "int") and len(e.args) == 1):
                return True  # a copy / conversion of a mode list, not arithmetic on it
            return False

        ok = good(v)
        if not ok:
            ctx.finding("AXIS-AS-GIVEN", fi, st, f"`{src(st)[:70]}` in {fi.name} re-binds the ordering parameter `{p}` with something other than `{p}` plus the tensor order (ndim / len(shape)): `len(tensor)` and `shape[0]` are the size of the first mode, so a negative `{p}` lands on another mode whenever that size differs from the order, and fold no longer inverts unfold", construct=f"{fi.name}: {p} corrected by {src(v)[:40]}")


# ---------------------------------------------------------------------------------
# PRIM-IS-NUMPY: the trusted base is what it is assumed to be
# ---------------------------------------------------------------------------------
def _module_registrations(repo, mod):
    """(name -> [(holder expression text, attribute name, node)]) for every `X.register_method(name, func)`
    executed at module level, read by a small evaluator of the registration loops: `for` over literal
    sequences (concatenations, names of module-level sequences of this module or of the module they are
    imported from, tuples of (module, names)), nested loops, positional or keyword arguments.
    Raises AnalysisError on a registration whose name or function it cannot evaluate."""
    consts = {}

    def module_consts(m):
        out = {}
        for st in m.tree.body:
            if isinstance(st, ast.Assign) and len(st.targets) == 1 and isinstance(st.targets[0], ast.Name) and isinstance(st.value, (ast.List, ast.Tuple, ast.BinOp)):
                out[st.targets[0].id] = (m, st.value)
        return out

    consts.update(module_consts(mod))
    for st in mod.tree.body:
        if isinstance(st, ast.ImportFrom):
            target = None
            if target is None:
                base = mod.name.rsplit(".", st.level)[0] if st.level else ""
                cand = (base + "." + st.module) if st.level and st.module else (st.module or base)
                target = repo.modules.get(cand)
            if target is not None:
                tc = module_consts(target)
                for a in st.names:
                    if a.name in tc:
                        consts[a.asname or a.name] = tc[a.name]

    def seq(e, env):
        """list of element nodes / values, or None"""
        if isinstance(e, (ast.List, ast.Tuple)):
            out = []
            for x in e.elts:
                if isinstance(x, ast.Starred):
                    inner = seq(x.value, env)  # [*names, "a", *["b"]]
                    if inner is None:
                        return None
                    out.extend(inner)
                else:
                    out.append(x)
            return out
        if isinstance(e, ast.BinOp) and isinstance(e.op, ast.Add):
            l, r = seq(e.left, env), seq(e.right, env)
            return None if l is None or r is None else l + r
        if isinstance(e, ast.Name):
            if e.id in env:
                v = env[e.id]
                return seq(v, env) if isinstance(v, ast.AST) else None
            if e.id in consts:
                return seq(consts[e.id][1], {})
        if isinstance(e, ast.Call) and isinstance(e.func, ast.Name) and e.func.id in ("list", "tuple", "sorted") and len(e.args) == 1:
            return seq(e.args[0], env)
        return None

    def val(e, env):
        for _ in range(8):
            if isinstance(e, ast.Name) and e.id in env:
                e = env[e.id]
            elif isinstance(e, ast.Subscript) and isinstance(val(e.slice, env), ast.Constant) and isinstance(val(e.slice, env).value, int):
                items = seq(e.value, env)
                i = val(e.slice, env).value
                if items is None or not (-len(items) <= i < len(items)):
                    return e
                e = items[i]
            else:
                break
        return e

    helpers = {st.name: st for st in mod.tree.body if isinstance(st, ast.FunctionDef)}

    def registers(node):
        return any(isinstance(c, ast.Call) and ((isinstance(c.func, ast.Attribute) and c.func.attr == "register_method") or (isinstance(c.func, ast.Name) and c.func.id in helpers and c.func.id in registering)) for c in ast.walk(node))

    registering = {n for n, h in helpers.items() if any(isinstance(c, ast.Call) and isinstance(c.func, ast.Attribute) and c.func.attr == "register_method" for c in ast.walk(h))}

    regs = {}

    def _close(e, env):
        """a sequence expression with the caller's names replaced by what they stand for"""
        items = seq(e, env)
        if items is None:
            return e
        return ast.Tuple(elts=[val(x, env) for x in items], ctx=ast.Load())

    def run(stmts, env):
        for st in stmts:
            if isinstance(st, ast.Assign) and len(st.targets) == 1:
                t = st.targets[0]
                if isinstance(t, ast.Name):
                    env[t.id] = val(st.value, env) if not isinstance(st.value, (ast.List, ast.Tuple, ast.BinOp)) else st.value
                elif isinstance(t, (ast.Tuple, ast.List)) and isinstance(st.value, (ast.Tuple, ast.List)) and len(t.elts) == len(st.value.elts):
                    vals = [val(x, env) for x in st.value.elts]
                    for t_, v_ in zip(t.elts, vals):
                        if isinstance(t_, ast.Name):
                            env[t_.id] = v_
                continue
            if isinstance(st, ast.For):
                items = seq(st.iter, env)
                if items is None and isinstance(st.iter, ast.Call) and isinstance(st.iter.func, ast.Name) and st.iter.func.id == "range" and len(st.iter.args) == 1:
                    a0 = st.iter.args[0]
                    n_ = None
                    if isinstance(a0, ast.Call) and isinstance(a0.func, ast.Name) and a0.func.id == "len" and len(a0.args) == 1:
                        inner = seq(a0.args[0], env)
                        n_ = len(inner) if inner is not None else None
                    elif isinstance(val(a0, env), ast.Constant) and isinstance(val(a0, env).value, int):
                        n_ = val(a0, env).value
                    if n_ is not None and n_ <= 400:
                        items = [ast.Constant(i) for i in range(n_)]
                has_reg = registers(st)
                if items is None:
                    if has_reg:
                        raise AnalysisError(f"PRIM-IS-NUMPY: the registration loop `for {src(st.target)} in {src(st.iter)[:60]}` of {mod.name} iterates over something that is not a literal sequence; cannot decide")
                    continue
                for it in items:
                    e2 = dict(env)
                    it = val(it, env)
                    if isinstance(st.target, ast.Name):
                        e2[st.target.id] = it
                    elif isinstance(st.target, (ast.Tuple, ast.List)) and isinstance(it, (ast.Tuple, ast.List)) and len(it.elts) == len(st.target.elts) and all(isinstance(t, ast.Name) for t in st.target.elts):
                        for t, x in zip(st.target.elts, it.elts):
                            e2[t.id] = val(x, env)
                    elif has_reg:
                        raise AnalysisError(f"PRIM-IS-NUMPY: cannot bind `{src(st.target)}` in a registration loop of {mod.name}; cannot decide")
                    run(st.body, e2)
                continue
            if isinstance(st, (ast.If, ast.With, ast.Try)):
                if registers(st):
                    raise AnalysisError(f"PRIM-IS-NUMPY: a registration of {mod.name} sits under `{type(st).__name__.lower()}`; cannot decide")
                continue
            for c in ast.walk(st) if not isinstance(st, (ast.FunctionDef, ast.ClassDef)) else []:
                if isinstance(c, ast.Call) and isinstance(c.func, ast.Name) and c.func.id in registering:
                    h = helpers[c.func.id]
                    ps = [a.arg for a in h.args.posonlyargs + h.args.args]
                    if len(c.args) > len(ps) or any(k.arg is None or k.arg not in ps for k in c.keywords) or h.args.vararg or h.args.kwarg:
                        raise AnalysisError(f"PRIM-IS-NUMPY: cannot bind the call `{src(c)[:70]}` of the registering helper {h.name}; cannot decide")
                    e2 = {}
                    for p_, a_ in zip(ps, c.args):
                        e2[p_] = val(a_, env) if not isinstance(a_, (ast.List, ast.Tuple, ast.BinOp)) else _close(a_, env)
                    for k in c.keywords:
                        e2[k.arg] = val(k.value, env) if not isinstance(k.value, (ast.List, ast.Tuple, ast.BinOp)) else _close(k.value, env)
                    run([b for b in h.body if not (isinstance(b, ast.Expr) and isinstance(b.value, ast.Constant))], e2)
                    continue
                if isinstance(c, ast.Call) and isinstance(c.func, ast.Attribute) and c.func.attr == "register_method":
                    a = list(c.args)
                    kw = {k.arg: k.value for k in c.keywords}
                    name = a[0] if a else kw.get("name")
                    func = a[1] if len(a) > 1 else kw.get("func")
                    name = val(name, env) if name is not None else None
                    if not (isinstance(name, ast.Constant) and isinstance(name.value, str)) or func is None:
                        raise AnalysisError(f"PRIM-IS-NUMPY: `{src(c)[:80]}` in {mod.name} registers under a name the rule cannot evaluate; cannot decide")
                    func = val(func, env)
                    holder = attr = None
                    if isinstance(func, ast.Call) and isinstance(func.func, ast.Name) and func.func.id == "getattr" and len(func.args) == 2:
                        h, n_ = val(func.args[0], env), val(func.args[1], env)
                        if isinstance(n_, ast.Constant) and isinstance(n_.value, str):
                            holder, attr = src(h), n_.value
                    elif isinstance(func, ast.Attribute):
                        holder, attr = src(val(func.value, env)), func.attr
                    regs.setdefault(name.value, []).append((holder, attr, c))

    run(mod.tree.body, {})
    return regs


def prim_is_numpy(ctx: Ctx):
    repo, res = ctx.repo, ctx.res
    mod = repo.module("tensorly.backend.numpy_backend")
    cls = mod.classes.get("NumpyBackend")
    if cls is None:
        raise AnalysisError("PRIM-IS-NUMPY: NumpyBackend vanished")
    np_names = {a.asname or a.name for st in mod.tree.body if isinstance(st, ast.Import) for a in st.names if a.name == "numpy"}
    if not np_names:
        raise AnalysisError("PRIM-IS-NUMPY: numpy_backend no longer imports numpy as a module; cannot decide")
    regs = _module_registrations(repo, mod)
    for prim in sorted(LAYOUT_PRIMS):
        m = cls.methods.get(prim)
        last = regs.get(prim, [])[-1] if regs.get(prim) else None
        if last is not None:
            # a registration replaces a method of the class body (setattr on the class, executed later)
            holder, attr, node = last
            ok = holder in np_names and attr == prim
            res.instance("PRIM-IS-NUMPY", f"numpy backend: {prim} registered", sample={"from": f"{holder}.{attr}", "ok": ok})
            if not ok:
                ctx.finding("PRIM-IS-NUMPY", mod, node, f"the NumPy backend registers `{prim}` as `{holder}.{attr}`, not as NumPy's own `{prim}`: the layout rules of C01 trust this primitive to be NumPy's entry bijection", construct=f"numpy backend: {prim} <- {holder}.{attr}")
            continue
        if m is None:
            raise AnalysisError(f"PRIM-IS-NUMPY: the NumPy backend neither registers nor defines `{prim}`; cannot decide")
        body = [b for b in m.node.body if not (isinstance(b, ast.Expr) and isinstance(b.value, ast.Constant))]
        ok, why = False, "is not a single `return np.%s(...)`" % prim
        if len(body) == 1 and isinstance(body[0], ast.Return) and isinstance(body[0].value, ast.Call):
            c = body[0].value
            f_ = c.func
            if isinstance(f_, ast.Attribute) and isinstance(f_.value, ast.Name) and f_.value.id in np_names and f_.attr == prim:
                params = [p_ for p_ in m.all_params if p_ not in ("self", "cls")]
                args_ok = all(isinstance(a, ast.Name) and a.id in params for a in c.args) and all(isinstance(k.value, ast.Name) and k.value.id in params for k in c.keywords if k.arg is not None) and not any(k.arg is None for k in c.keywords)
                first_ok = (c.args and isinstance(c.args[0], ast.Name) and params and c.args[0].id == params[0]) or any(isinstance(k.value, ast.Name) and params and k.value.id == params[0] for k in c.keywords)
                if args_ok and first_ok:
                    ok = True
                else:
                    why = "passes something other than its own parameters to NumPy"
            else:
                why = f"returns `{src(c)[:70]}`: the outermost call is not `np.{prim}`, so NumPy's result is post-processed (or not used)"
        res.instance("PRIM-IS-NUMPY", f"numpy backend: {prim} defined as a method", sample={"body": src(body[-1])[:100] if body else None, "ok": ok})
        if not ok:
            ctx.finding("PRIM-IS-NUMPY", m, m.node, f"NumpyBackend.{prim} {why}: unfold / fold / matricize are entry bijections only as far as this primitive is NumPy's own (what it keeps -- array subclass and mask, dtype, every entry -- a wrapper around it may not)", construct=f"NumpyBackend.{prim}: not NumPy's own")


# ---------------------------------------------------------------------------------
BY_VALUE = {"remove", "index", "count"}
BY_POSITION = {"pop", "insert", "append", "extend", "reverse", "copy"}


def shape_by_position(ctx: Ctx, fi):
    """which locals hold (a copy / slice / concatenation of) a shape, and how they are edited"""
    res = ctx.res
    shapes = {p for p in fi.all_params if p == "shape" or p.endswith("_shape")}

    def is_shape(e):
        if isinstance(e, ast.Name):
            return e.id in shapes
        if isinstance(e, ast.Attribute):
            return e.attr == "shape"
        if isinstance(e, ast.Call):
            nm = call_name(e)
            if nm == "shape":
                return True
            if nm in ("list", "tuple", "reversed") and e.args:
                return is_shape(e.args[0])
            return False
        if isinstance(e, ast.Subscript):
            return isinstance(e.slice, ast.Slice) and is_shape(e.value)
        if isinstance(e, ast.BinOp) and isinstance(e.op, ast.Add):
            return is_shape(e.left) or is_shape(e.right)
        if isinstance(e, (ast.ListComp, ast.GeneratorExp)):
            return any(is_shape(g.iter) for g in e.generators) and isinstance(e.elt, ast.Name)
        return False

    changed = True
    while changed:
        changed = False
        for s in own_scope_nodes(fi.node):
            if isinstance(s, ast.Assign) and is_shape(s.value):
                for t in s.targets:
                    if isinstance(t, ast.Name) and t.id not in shapes:
                        shapes.add(t.id)
                        changed = True
    res.instance("SHAPE-BY-POSITION", f"{fi.name}: scanned", sample={"shape_derived_names": sorted(shapes)})
    for c in own_scope_nodes(fi.node):
        if isinstance(c, ast.Call) and isinstance(c.func, ast.Attribute) and is_shape(c.func.value) and (c.func.attr in BY_VALUE or c.func.attr in BY_POSITION):
            ok = c.func.attr in BY_POSITION
            res.instance("SHAPE-BY-POSITION", f"{fi.name}: {src(c)[:60]}", sample={"line": c.lineno, "by_position": ok})
            if not ok:
                ctx.finding("SHAPE-BY-POSITION", fi, c, f"`{src(c)[:80]}` edits a shape by VALUE: `{c.func.attr}` finds the first axis whose size equals the argument, which is another axis whenever two modes have the same size (e.g. shape (2, 3, 2)); the layout functions must address axes by position", construct=f"{fi.name}: .{c.func.attr}() on a shape-derived list")


def layout_only(ctx: Ctx, fi):
    res = ctx.res
    tparam = fi.pos_params[0]
    aliases = {tparam}
    # aliases: names assigned a layout expression of the tensor
    changed = True

    def is_layout_expr(e):
        if isinstance(e, ast.Name):
            return e.id in aliases
        if isinstance(e, ast.Call):
            kind, tgt = _callee(ctx, fi, e)
            if (kind == "prim" and tgt in LAYOUT_PRIMS) or kind in ("sibling", "wrapper"):
                op = _operand(ctx, fi, e)
                return op is not None and is_layout_expr(op)
        return False

    while changed:
        changed = False
        for s in own_scope_nodes(fi.node):
            if isinstance(s, ast.Assign) and len(s.targets) == 1 and isinstance(s.targets[0], ast.Name):
                if s.targets[0].id not in aliases and is_layout_expr(s.value):
                    aliases.add(s.targets[0].id)
                    changed = True
    par = {}
    for n in ast.walk(fi.node):
        for c in ast.iter_child_nodes(n):
            par[id(c)] = n
    bad = []
    uses = 0
    for n in own_scope_nodes(fi.node):
        if isinstance(n, ast.Name) and n.id in aliases and isinstance(n.ctx, ast.Load):
            uses += 1
            p = par.get(id(n))
            ok = False
            if isinstance(p, ast.Attribute) and p.attr in ("shape", "ndim") and p.value is n:
                ok = True
            elif isinstance(p, ast.Call):
                kind, tgt = _callee(ctx, fi, p)
                if kind == "prim" and tgt in SHAPE_PRIMS and p.args and p.args[0] is n:
                    ok = True
                elif ((kind == "prim" and tgt in LAYOUT_PRIMS) or kind in ("sibling", "wrapper")) and _operand(ctx, fi, p) is n:
                    ok = True
            elif isinstance(p, ast.Assign) and p.value is n:
                ok = True  # plain alias
            elif isinstance(p, ast.keyword) and p.value is n:
                # handed to a helper nested in this function (a lifted closure variable, or an explicit argument):
                # fine when the helper itself only reads the shape of that parameter
                call = par.get(id(p))
                if isinstance(call, ast.Call):
                    kind, tgt = _callee(ctx, fi, call)
                    if kind in ("sibling", "wrapper") and _operand(ctx, fi, call) is n:
                        ok = True
                if not ok and isinstance(call, ast.Call) and isinstance(call.func, ast.Name):
                    helper = next((h for h in ast.walk(fi.node) if isinstance(h, ast.FunctionDef) and h is not fi.node and h.name == call.func.id), None)
                    if helper is not None and p.arg in {a.arg for a in helper.args.args + helper.args.kwonlyargs}:
                        hp = {}
                        for x in ast.walk(helper):
                            for c2 in ast.iter_child_nodes(x):
                                hp[id(c2)] = x
                        reads = [x for x in ast.walk(helper) if isinstance(x, ast.Name) and x.id == p.arg and isinstance(x.ctx, ast.Load)]
                        stores = [x for x in ast.walk(helper) if isinstance(x, ast.Name) and x.id == p.arg and isinstance(x.ctx, ast.Store)]

                        def shape_read(x):
                            q = hp.get(id(x))
                            if isinstance(q, ast.Attribute) and q.attr in ("shape", "ndim") and q.value is x:
                                return True
                            if isinstance(q, ast.Call) and q.args and q.args[0] is x:
                                k2, t2 = _callee(ctx, fi, q)
                                return k2 == "prim" and t2 in SHAPE_PRIMS
                            return False

                        ok = not stores and all(shape_read(x) for x in reads)
            if not ok:
                bad.append((n, p))
        elif isinstance(n, ast.Name) and n.id in aliases and isinstance(n.ctx, ast.Store) and n.id == tparam:
            # the parameter may be re-bound only to a layout expression of itself
            p = par.get(id(n))
            if not (isinstance(p, ast.Assign) and is_layout_expr(p.value)):
                bad.append((n, p))
    rets = [r for r in own_scope_nodes(fi.node) if isinstance(r, ast.Return)]
    res.instance("LAYOUT-ONLY", fi.qname, sample={"tensor_param": tparam, "uses": uses, "returns": [src(r) for r in rets]})
    for n, p in bad:
        ctx.finding("LAYOUT-ONLY", fi, n, f"the tensor `{n.id}` is used outside the layout primitives (reshape/moveaxis/transpose/sibling layout functions) and shape reads: entries may be combined, selected, copied with change or re-typed", construct=p if p is not None else n)
    if not rets:
        ctx.finding("LAYOUT-ONLY", fi, fi.node, "no return statement", construct=f"def {fi.name}")
    for r in rets:
        if r.value is None or not is_layout_expr(r.value):
            ctx.finding("LAYOUT-ONLY", fi, r, f"the returned value is not a chain of layout primitives applied to `{tparam}`: it is not a pure re-arrangement of the input entries")


# ---------------------------------------------------------------------------------
ORDER_PARAMS = ("mode", "row_modes", "column_modes", "skip_begin")


def _controls(fnode, target):
    """test expressions a statement is control-dependent on: tests of enclosing ifs and of
    earlier sibling ifs that leave the function (guards)."""
    out = []

    def walk(stmts, inherited):
        guards = list(inherited)
        for s in stmts:
            if s is target:
                out.extend(guards)
                return True
            if isinstance(s, ast.If):
                if walk(s.body, guards + [s.test]) or walk(s.orelse, guards + [s.test]):
                    return True
                if any(isinstance(x, ast.Return) for x in ast.walk(s)):
                    guards.append(s.test)  # an earlier `if ...: return` selects among layouts
            elif isinstance(s, (ast.For, ast.While, ast.With, ast.Try)):
                for fld in ("body", "orelse", "finalbody"):
                    if walk(getattr(s, fld, []) or [], guards):
                        return True
                for h in getattr(s, "handlers", []) or []:
                    if walk(h.body, guards):
                        return True
        return False

    walk(fnode.body, [])
    return out


def axis_live(ctx: Ctx, fi):
    from ..cfg import names_in
    from .c02 import dependent_returns

    res = ctx.res
    params = [p for p in ORDER_PARAMS if p in fi.all_params]
    rets = [r for r in own_scope_nodes(fi.node) if isinstance(r, ast.Return) and r.value is not None]
    for p in params:
        # names whose *value* is computed from p (pure data dependence, flow-insensitive)
        tainted = {p}
        changed = True
        while changed:
            changed = False
            for st in own_scope_nodes(fi.node):
                tg, val = None, None
                if isinstance(st, ast.Assign):
                    tg, val = st.targets, st.value
                elif isinstance(st, ast.AugAssign):
                    tg, val = [st.target], st.value
                elif isinstance(st, ast.For):
                    tg, val = [st.target], st.iter
                if tg is None or not (names_in(val) & tainted):
                    continue
                for t in tg:
                    for x in ast.walk(t):
                        if isinstance(x, ast.Name) and x.id not in tainted:
                            tainted.add(x.id)
                            changed = True
        # values of the locals a return is built from (named temporaries: moved = moveaxis(...); return reshape(moved, ...))
        local_defs = {}
        for st in own_scope_nodes(fi.node):
            if isinstance(st, ast.Assign):
                for t in st.targets:
                    if isinstance(t, ast.Name):
                        local_defs.setdefault(t.id, []).append(st.value)
        for r in rets:
            axis_args = []
            exprs, seen_names, work = [r.value], set(), [r.value]
            while work:
                e = work.pop()
                for x in ast.walk(e):
                    if isinstance(x, ast.Name) and x.id in local_defs and x.id not in seen_names:
                        seen_names.add(x.id)
                        for v in local_defs[x.id]:
                            exprs.append(v)
                            work.append(v)
            for c in (n for e in exprs for n in ast.walk(e)):
                if isinstance(c, ast.Call):
                    kind, tgt = _callee(ctx, fi, c)
                    if kind == "prim" and tgt == "moveaxis":
                        axis_args.extend(c.args[1:3])
                    elif kind == "prim" and tgt == "transpose":
                        axis_args.extend(c.args[1:2])
                        axis_args.extend(k.value for k in c.keywords if k.arg in ("axes",))
                    elif kind == "sibling":
                        # a sibling layout function given the parameter does the re-ordering
                        b = bind_call(c, tgt, bound=False)
                        axis_args.extend(v for k, v in b.params.items() if k in ORDER_PARAMS)
            by_data = any(names_in(a) & tainted for a in axis_args)
            by_ctrl = any(names_in(t) & tainted for t in _controls(fi.node, r))
            ok = by_data or by_ctrl
            res.instance("AXIS-LIVE", f"{fi.qname}: `{p}` -> {src(r)[:60]}", sample={"axis_arguments": [src(a) for a in axis_args], "by_data": by_data, "by_control": by_ctrl})
            if not ok:
                ctx.finding("AXIS-LIVE", fi, r, f"this return of `{fi.name}` re-arranges the tensor without `{p}` reaching any axis argument (moveaxis / transpose) and without being selected by a test on `{p}`: a reshape alone cannot order entries by `{p}`, so the layout requested through `{p}` is ignored on this path", construct=f"{src(r)[:90]} ignores {p}")


def _canon(e):
    """Canonical form of an axis expression: sorted sum terms (commutativity of +)."""
    terms = []

    def flat(x, sign=1):
        if isinstance(x, ast.BinOp) and isinstance(x.op, ast.Add):
            flat(x.left, sign)
            flat(x.right, sign)
        elif isinstance(x, ast.BinOp) and isinstance(x.op, ast.Sub):
            flat(x.left, sign)
            flat(x.right, -sign)
        elif isinstance(x, ast.Constant) and x.value == 0:
            pass
        else:
            terms.append(("-" if sign < 0 else "+") + ast.unparse(x))

    flat(e)
    return tuple(sorted(terms))


def _prim_call(ctx, fi, e, name):
    if isinstance(e, ast.Call):
        kind, tgt = _callee(ctx, fi, e)
        if kind == "prim" and tgt == name:
            return True
    return False


class _Reported(Exception):
    pass


def inverse_mirror(ctx: Ctx, fwd, inv):
    try:
        return _inverse_mirror(ctx, fwd, inv)
    except _Reported:
        return None


def _inverse_mirror(ctx: Ctx, fwd, inv):
    from ..inline import with_inlined

    res = ctx.res
    key = f"{fwd.name} <-> {inv.name}"
    fwd, inv = with_inlined(ctx.repo, fwd), with_inlined(ctx.repo, inv)  # the bookkeeping may live in a private helper
    # forward: return reshape(moveaxis(t, S, D), ...)
    frets = [r for r in own_scope_nodes(fwd.node) if isinstance(r, ast.Return)]
    irets = [r for r in own_scope_nodes(inv.node) if isinstance(r, ast.Return)]
    if len(frets) != 1 or len(irets) != 1:
        raise AnalysisError(f"INVERSE-MIRROR {key}: expected exactly one return in each function; schema no longer applies")
    fr, ir = inline_locals(fwd.node, frets[0].value), inline_locals(inv.node, irets[0].value)
    for n in list(ast.walk(fr)) + list(ast.walk(ir)):
        if not hasattr(n, "lineno"):
            n.lineno, n.col_offset = frets[0].lineno, 0
    if not (_prim_call(ctx, fwd, fr, "reshape") and fr.args and _prim_call(ctx, fwd, fr.args[0], "moveaxis") and len(fr.args[0].args) == 3):
        raise AnalysisError(f"INVERSE-MIRROR {key}: {fwd.name} is no longer reshape(moveaxis(t, S, D), shape); cannot decide")
    S, D = fr.args[0].args[1], fr.args[0].args[2]
    if not (_prim_call(ctx, inv, ir, "moveaxis") and len(ir.args) == 3 and _prim_call(ctx, inv, ir.args[0], "reshape") and len(ir.args[0].args) == 2):
        raise AnalysisError(f"INVERSE-MIRROR {key}: {inv.name} is no longer moveaxis(reshape(u, L), D, S); cannot decide")
    D2, S2 = ir.args[1], ir.args[2]
    L = ir.args[0].args[1]
    res.instance("INVERSE-MIRROR", key, sample={"forward": src(fr), "inverse": src(ir), "S": src(S), "D": src(D), "S'": src(S2), "D'": src(D2)})
    S, D = inline_locals(fwd.node, S), inline_locals(fwd.node, D)
    S2, D2 = inline_locals(inv.node, S2), inline_locals(inv.node, D2)
    if _canon(S) != _canon(S2) or _canon(D) != _canon(D2):
        ctx.finding("INVERSE-MIRROR", inv, ir, f"{inv.name} moves axis {src(D2)} -> {src(S2)} but {fwd.name} moved {src(S)} -> {src(D)}: the inverse does not undo the forward axis move")
    # shape bookkeeping, read by a small interpreter of list states over the straight-line body:
    #   list(shape) = FULL;  x = L.pop(i): L = MINUS(i), x = DIM(i);  L.insert(j, x) / [x] + L /
    #   [x, *L] / L[:j] + [x] + L[j:]  = MOVED(i, j).  The list handed to reshape must be MOVED(S, D).
    env = {}
    where = {}

    def is_pop(v):
        return isinstance(v, ast.Call) and isinstance(v.func, ast.Attribute) and v.func.attr == "pop" and isinstance(v.func.value, ast.Name) and len(v.args) == 1

    def do_pop(v, node):
        lst = v.func.value.id
        st = env.get(lst)
        if st and st[0] == "alias":
            ctx.finding("INVERSE-MIRROR", inv, v, f"{inv.name} edits `{lst}` in place (`{src(v)}`), and `{lst}` can be the caller's own `{st[1]}` (it is only copied for some argument kinds): after the call the caller's shape has the axis moved, so folding again with the same shape object re-arranges into the wrong shape", construct=f"{lst}.pop on the caller's {st[1]}")
            raise _Reported()
        if not st or st[0] != "full":
            raise AnalysisError(f"INVERSE-MIRROR {key}: `{src(v)}` pops from a list that is not a fresh copy of the shape; cannot decide")
        env[lst] = ("minus", st[1], v.args[0])
        where[lst] = node
        return ("dim", st[1], v.args[0], lst)

    def ev(e):
        if isinstance(e, ast.Name):
            if e.id not in env and e.id in inv.all_params:
                return ("alias", e.id)  # the caller's own object
            return env.get(e.id)
        if isinstance(e, ast.IfExp):
            a_, b_ = ev(e.body), ev(e.orelse)
            if (a_ and a_[0] == "alias") or (b_ and b_[0] == "alias"):
                al = a_ if a_ and a_[0] == "alias" else b_
                other = b_ if al is a_ else a_
                if other and other[0] in ("full", "alias") and other[1] == al[1]:
                    return al  # on some inputs the list is the caller's
            if a_ and b_ and a_ == b_:
                return a_
            return None
        if isinstance(e, ast.Call) and is_name(e.func, "list") and len(e.args) == 1 and isinstance(e.args[0], ast.Name) and e.args[0].id in inv.all_params:
            return ("full", e.args[0].id)
        if isinstance(e, ast.Call) and is_name(e.func, "list") and len(e.args) == 1:
            return ev(e.args[0])
        if isinstance(e, ast.Call) and is_name(e.func, "tuple") and len(e.args) == 1:
            return ev(e.args[0])
        if isinstance(e, (ast.List, ast.Tuple)):
            # [x, *L] / [x]
            if len(e.elts) == 2 and isinstance(e.elts[1], ast.Starred):
                x, l = ev(e.elts[0]), ev(e.elts[1].value)
                if x and l and x[0] == "dim" and l[0] == "minus" and x[1] == l[1] and _canon(x[2]) == _canon(l[2]):
                    return ("moved", l[1], l[2], ast.Constant(0), e)
            if len(e.elts) == 1:
                x = do_pop(e.elts[0], e) if is_pop(e.elts[0]) else ev(e.elts[0])  # [L.pop(i)] + L
                if x and x[0] == "dim":
                    return ("single",) + x[1:]
            return None
        if isinstance(e, ast.BinOp) and isinstance(e.op, ast.Add):
            parts = []
            stack = [e]
            while stack:
                n = stack.pop()
                if isinstance(n, ast.BinOp) and isinstance(n.op, ast.Add):
                    stack.append(n.right)
                    stack.append(n.left)
                else:
                    parts.append(n)
            vals = [ev(x_) for x_ in parts]
            if len(parts) == 2 and vals[0] and vals[1] and vals[0][0] == "single" and vals[1][0] == "minus" and vals[0][1] == vals[1][1] and _canon(vals[0][2]) == _canon(vals[1][2]):
                return ("moved", vals[1][1], vals[1][2], ast.Constant(0), e)
            if len(parts) == 3 and vals[1] and vals[1][0] == "single":
                lo, hi = parts[0], parts[2]
                if isinstance(lo, ast.Subscript) and isinstance(hi, ast.Subscript) and isinstance(lo.slice, ast.Slice) and isinstance(hi.slice, ast.Slice) and lo.slice.lower is None and hi.slice.upper is None and lo.slice.upper is not None and hi.slice.lower is not None and _canon(lo.slice.upper) == _canon(hi.slice.lower):
                    l1, l2 = ev(lo.value), ev(hi.value)
                    if l1 and l2 and l1 == l2 and l1[0] == "minus" and l1[1] == vals[1][1] and _canon(l1[2]) == _canon(vals[1][2]):
                        return ("moved", l1[1], l1[2], lo.slice.upper, e)
            return None
        return None

    for s in inv.node.body:
        if isinstance(s, ast.Assign) and len(s.targets) == 1 and isinstance(s.targets[0], ast.Name):
            if is_pop(s.value):
                env[s.targets[0].id] = do_pop(s.value, s)
            else:
                v = ev(s.value)
                if v is not None:
                    env[s.targets[0].id] = v
                    where[s.targets[0].id] = s
                else:
                    env.pop(s.targets[0].id, None)
        elif isinstance(s, ast.Expr) and isinstance(s.value, ast.Call) and isinstance(s.value.func, ast.Attribute) and isinstance(s.value.func.value, ast.Name) and s.value.func.value.id in env:
            c = s.value
            lst = c.func.value.id
            if c.func.attr == "insert" and len(c.args) == 2:
                ins_idx, ins_val = c.args
                x = do_pop(ins_val, s) if is_pop(ins_val) else ev(ins_val)
                st = env.get(lst)
                if st and st[0] == "minus" and x and x[0] == "dim" and x[1] == st[1] and _canon(x[2]) == _canon(st[2]):
                    env[lst] = ("moved", st[1], st[2], ins_idx, c)
                elif st and st[0] == "minus":
                    ctx.finding("INVERSE-MIRROR", inv, ins_idx, f"{inv.name} re-inserts `{src(ins_val)}`, which is not the size popped from the shape", construct=f"{lst}.insert({src(ins_idx)}, {src(ins_val)})")
                    return
                else:
                    raise AnalysisError(f"INVERSE-MIRROR {key}: `{src(c)}` inserts into a list the rule does not follow; cannot decide")
            elif c.func.attr in ("append", "extend", "remove", "reverse", "sort", "clear", "pop"):
                raise AnalysisError(f"INVERSE-MIRROR {key}: `{src(c)}` edits the intermediate shape in a way the rule does not follow; cannot decide")
    # the list handed to reshape: evaluated in the original (not inlined) return expression's terms
    Lv = ev(L) if not isinstance(L, ast.Name) else env.get(L.id)
    if Lv is None:
        raw = irets[0].value
        # the inlined expression may have replaced the list name by its definition: try the un-inlined names
        for n in ast.walk(raw):
            if isinstance(n, ast.Name) and n.id in env and env[n.id][0] == "moved":
                Lv = env[n.id]
    if Lv is None or Lv[0] != "moved":
        raise AnalysisError(f"INVERSE-MIRROR {key}: shape bookkeeping of {inv.name} is not list(shape) with one size moved ({Lv[0] if Lv else 'unrecognised'}); cannot decide")
    _, shape_param, pop_idx, ins_idx, node = Lv
    pop_idx, ins_idx = inline_locals(inv.node, pop_idx), inline_locals(inv.node, ins_idx)  # folded_axis = skip_begin + mode
    if shape_param not in inv.all_params:
        raise AnalysisError(f"INVERSE-MIRROR {key}: the intermediate shape of {inv.name} is not built from a parameter; cannot decide")
    lname = L.id if isinstance(L, ast.Name) else "shape"
    if _canon(pop_idx) != _canon(S):
        ctx.finding("INVERSE-MIRROR", inv, pop_idx, f"{inv.name} pops axis {src(pop_idx)} from the target shape but {fwd.name} moved axis {src(S)}: the intermediate shape does not match the unfolding", construct=f"{lname}.pop({src(pop_idx)})")
    if _canon(ins_idx) != _canon(D):
        ctx.finding("INVERSE-MIRROR", inv, node, f"{inv.name} re-inserts at {src(ins_idx)} but {fwd.name} moved the axis to {src(D)}", construct=f"{lname}.insert({src(ins_idx)}, <popped size>)")


def forward(ctx: Ctx, wrapper, target, fixed):
    res = ctx.res
    rets = [r for r in own_scope_nodes(wrapper.node) if isinstance(r, ast.Return)]
    if len(rets) != 1 or not isinstance(rets[0].value, ast.Call):
        raise AnalysisError(f"FORWARD: {wrapper.name} is no longer a single delegating return; cannot decide")
    call = rets[0].value
    ct = ctx.repo.resolve_call(wrapper, wrapper.module, call)
    if ct.kind != "repo" or ct.funcs[0] is not target:
        raise AnalysisError(f"FORWARD: {wrapper.name} no longer delegates to {target.name}; cannot decide")
    b = bind_call(call, target, bound=False)
    res.instance("FORWARD", f"{wrapper.name} -> {target.name}", sample={"call": src(call)})
    if not b.ok:
        ctx.finding("FORWARD", wrapper, call, f"delegating call does not bind: {b.problems}")
        return
    for p in ("skip_begin", "skip_end"):
        a = b.params.get(p)
        if a is None or not is_name(a, p):
            ctx.finding("FORWARD", wrapper, call, f"`{p}` is not forwarded under its own name to {target.name} (got {src(a) if a is not None else 'the default'})", construct=f"{wrapper.name}: {p}")
    for p, v in fixed.items():
        a = b.params.get(p)
        if a is None:
            d = target.defaults.get(p)
            a = d
        if a is not None:
            a = inline_locals(wrapper.node, a)  # first_mode = 0; partial_unfold(tensor, first_mode, ...)
        if a is None or not is_const(a, v):
            ctx.finding("FORWARD", wrapper, call, f"`{p}` must be {v!r} in the delegation to {target.name} (got {src(a) if a is not None else 'nothing'})", construct=f"{wrapper.name}: {p}")
    # the operand is passed unmodified
    op = b.params.get(target.pos_params[0])
    if not is_name(op, wrapper.pos_params[0]):
        ctx.finding("FORWARD", wrapper, call, "the operand is not passed unmodified to the delegate", construct=f"{wrapper.name}: operand")
    if "shape" in wrapper.all_params and "shape" in target.all_params:
        a = b.params.get("shape")
        if not is_name(a, "shape"):
            ctx.finding("FORWARD", wrapper, call, "`shape` is not forwarded unmodified", construct=f"{wrapper.name}: shape")
