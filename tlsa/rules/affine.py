"""BLOCK-INDEPENDENT — an exact coordinate update does not depend on the coordinate's old value.

The exact minimiser of  f(x_k ; all other coordinates)  over x_k is a function of the other
coordinates only.  An update rule whose result still depends on the old x_k (after
cancellation) is not that minimiser: it is a damped / shifted step whose fixed point solves a
different problem.  `hals_nnls` writes its row update as

      num = UtM[k] - dot(UtU[k], V) + UtU[k, k] * V[k]        den = UtU[k, k] (+ 2 * ridge)
      V[k] <- clip(num / den)

where the dependence on V[k] cancels between `dot(UtU[k], V)` (which contains
UtU[k, k] * V[k]) and the explicit correction.  Plain def-use dependence cannot see the
cancellation, so this rule interprets the arithmetic of the update over an **affine-form
domain**: every value is  alpha * v + beta  with v = V[k, :] the old row and alpha, beta
rational functions of opaque atoms (the source text of v-free sub-expressions).  The rule is
`alpha(new row) == 0` as a rational function, for every combination of the optional
sparsity / ridge coefficients.  (An abstract domain of affine forms with symbolic
coefficients over one straight-line region: no paths are enumerated and no solver is asked;
polynomial normal form decides equality.)
"""

from __future__ import annotations

import ast
from fractions import Fraction
from itertools import product
from typing import Dict, Optional, Tuple

from ..common import Ctx, call_name, is_name, src
from ..model import AnalysisError, own_scope_nodes

# ---------------------------------------------------------------------------------
# polynomials over opaque atoms: {monomial (sorted tuple of atoms): Fraction}
# ---------------------------------------------------------------------------------
Poly = Dict[Tuple[str, ...], Fraction]


def p_const(c) -> Poly:
    return {(): Fraction(c)} if c else {}


def p_atom(a: str) -> Poly:
    return {(a,): Fraction(1)}


def p_add(a: Poly, b: Poly, sign=1) -> Poly:
    out = dict(a)
    for m, c in b.items():
        out[m] = out.get(m, 0) + sign * c
    return {m: c for m, c in out.items() if c != 0}


def p_mul(a: Poly, b: Poly) -> Poly:
    out: Poly = {}
    for m1, c1 in a.items():
        for m2, c2 in b.items():
            m = tuple(sorted(m1 + m2))
            out[m] = out.get(m, 0) + c1 * c2
    return {m: c for m, c in out.items() if c != 0}


def p_str(a: Poly) -> str:
    if not a:
        return "0"
    parts = []
    for m, c in sorted(a.items()):
        t = "*".join(m) if m else ""
        parts.append((f"{c}*" if c != 1 and t else (str(c) if not t else "")) + t)
    return " + ".join(parts)


class Rat:
    """P / Q (never normalised by a gcd: equality is cross-multiplication)"""

    def __init__(self, p: Poly, q: Optional[Poly] = None):
        self.p, self.q = p, (q if q is not None else p_const(1))

    def __add__(self, o):
        return Rat(p_add(p_mul(self.p, o.q), p_mul(o.p, self.q)), p_mul(self.q, o.q))

    def __sub__(self, o):
        return Rat(p_add(p_mul(self.p, o.q), p_mul(o.p, self.q), -1), p_mul(self.q, o.q))

    def __mul__(self, o):
        return Rat(p_mul(self.p, o.p), p_mul(self.q, o.q))

    def __truediv__(self, o):
        return Rat(p_mul(self.p, o.q), p_mul(self.q, o.p))

    def is_zero(self):
        return not self.p

    def __repr__(self):
        return f"({p_str(self.p)}) / ({p_str(self.q)})"


ZERO_R, ONE_R = Rat({}), Rat(p_const(1))


class Aff:
    """alpha * v + beta"""

    def __init__(self, alpha: Rat, beta: Rat):
        self.alpha, self.beta = alpha, beta


class Lost(Exception):
    pass


class AffineEval:
    def __init__(self, iterate: str, index: str, config: Dict[str, bool]):
        self.V, self.k, self.config = iterate, index, config
        self.env: Dict[str, Aff] = {}
        self.defs: Dict[str, ast.AST] = {}  # latest plain definition of a local that does not involve the iterate

    def is_row(self, e) -> bool:
        """V[k, :] / V[k]"""
        if isinstance(e, ast.Subscript) and is_name(e.value, self.V):
            s = e.slice
            if is_name(s, self.k):
                return True
            if isinstance(s, ast.Tuple) and len(s.elts) == 2 and is_name(s.elts[0], self.k) and isinstance(s.elts[1], ast.Slice) and s.elts[1].lower is None and s.elts[1].upper is None:
                return True
        return False

    def mentions_iterate(self, e) -> bool:
        return any(isinstance(n, ast.Name) and n.id == self.V for n in ast.walk(e))

    def free(self, e) -> Aff:
        if any(isinstance(n, ast.Name) and n.id in self.env and (self.env[n.id] is None or not self.env[n.id].alpha.is_zero()) for n in ast.walk(e)):
            raise Lost(f"`{src(e)[:60]}` uses a value that depends on the old row in a way the affine domain does not model")
        return Aff(ZERO_R, Rat(p_atom(src(e))))

    def ev(self, e) -> Aff:
        if isinstance(e, ast.Constant) and isinstance(e.value, (int, float)) and not isinstance(e.value, bool):
            return Aff(ZERO_R, Rat(p_const(Fraction(e.value).limit_denominator(10**9))))
        if isinstance(e, ast.Name):
            if e.id in self.env:
                if self.env[e.id] is None:
                    raise Lost(f"`{e.id}` could not be expressed as an affine form of the old row")
                return self.env[e.id]
            if e.id == self.V:
                raise Lost("the whole iterate is used outside dot(A[k, :], V) / V[k, :]")
            return Aff(ZERO_R, Rat(p_atom(e.id)))
        if self.is_row(e):
            return Aff(ONE_R, ZERO_R)
        if isinstance(e, ast.UnaryOp) and isinstance(e.op, ast.USub):
            x = self.ev(e.operand)
            return Aff(ZERO_R - x.alpha, ZERO_R - x.beta)
        if isinstance(e, ast.BinOp):
            a, b = self.ev(e.left), self.ev(e.right)
            if isinstance(e.op, ast.Add):
                return Aff(a.alpha + b.alpha, a.beta + b.beta)
            if isinstance(e.op, ast.Sub):
                return Aff(a.alpha - b.alpha, a.beta - b.beta)
            if isinstance(e.op, ast.Mult):
                if not a.alpha.is_zero() and not b.alpha.is_zero():
                    raise Lost(f"`{src(e)[:60]}` is quadratic in the old row")
                if a.alpha.is_zero():
                    return Aff(a.beta * b.alpha, a.beta * b.beta)
                return Aff(b.beta * a.alpha, b.beta * a.beta)
            if isinstance(e.op, ast.Div):
                if not b.alpha.is_zero():
                    raise Lost(f"`{src(e)[:60]}` divides by a value that depends on the old row")
                return Aff(a.alpha / b.beta, a.beta / b.beta)
            raise Lost(f"operator in `{src(e)[:60]}`")
        if isinstance(e, ast.Call):
            nm = call_name(e)
            if nm in ("dot", "matmul") and len(e.args) == 2 and is_name(e.args[1], self.V):
                a0 = e.args[0]
                if isinstance(a0, ast.Name) and a0.id in self.defs:
                    a0 = self.defs[a0.id]  # gram_row = A[k, :]; dot(gram_row, V)
                # dot(A[k, :], V) = sum_j A[k, j] V[j, :]: the coefficient of V[k, :] is A[k, k]
                if isinstance(a0, ast.Subscript) and isinstance(a0.value, ast.Name) and isinstance(a0.slice, ast.Tuple) and len(a0.slice.elts) == 2 and is_name(a0.slice.elts[0], self.k) and isinstance(a0.slice.elts[1], ast.Slice):
                    diag = f"{a0.value.id}[{self.k}, {self.k}]"
                    return Aff(Rat(p_atom(diag)), Rat(p_atom(f"sum_j!={self.k} {a0.value.id}[{self.k}, j] {self.V}[j]")))
                raise Lost(f"`{src(e)[:60]}`: a product with the whole iterate that is not dot(A[{self.k}, :], {self.V})")
            if nm in ("clip", "maximum", "where", "abs", "copy", "reshape", "transpose", "tensor") and e.args:
                # clamps are the identity on the interior of the feasible set: the dependence on v is that of the argument
                idx = 2 if nm == "where" and len(e.args) == 3 else 0
                return self.ev(e.args[idx])
            if not self.mentions_iterate(e):
                return self.free(e)
            raise Lost(f"unmodelled call `{src(e)[:60]}` on the iterate")
        if isinstance(e, ast.Subscript):
            if not self.mentions_iterate(e):
                base = e.value
                if isinstance(base, ast.Name) and base.id in self.env and self.env[base.id] is None:
                    raise Lost(f"`{base.id}` could not be expressed as an affine form of the old row")
                if isinstance(base, ast.Name) and base.id in self.env and not self.env[base.id].alpha.is_zero():
                    return self.env[base.id]
                # canonical text for A[k, k]
                return Aff(ZERO_R, Rat(p_atom(src(e))))
            raise Lost(f"`{src(e)[:60]}` reads the iterate at another position")
        if not self.mentions_iterate(e):
            return self.free(e)
        raise Lost(f"`{src(e)[:60]}`")

    fnode = None  # the analysed function: option tests may be spelled through named flags

    def decide(self, t) -> Optional[bool]:
        s = src(t)
        if s in self.config:
            return self.config[s]
        if self.fnode is not None:
            from ..common import inline_locals

            s = src(inline_locals(self.fnode, t))
            if s in self.config:
                return self.config[s]
        return None

    def block(self, stmts):
        """returns the affine form stored into the row, or None"""
        stored = None
        for s in stmts:
            if isinstance(s, ast.Assign) and len(s.targets) == 1:
                t = s.targets[0]
                if isinstance(t, ast.Name) and t.id == self.V:
                    # V = index_update(V, index[k, :], newV)
                    c = s.value
                    if isinstance(c, ast.Call) and call_name(c) == "index_update" and len(c.args) == 3 and is_name(c.args[0], self.V):
                        stored = self.ev(c.args[2])
                        continue
                    raise Lost(f"`{src(s)[:60]}` re-binds the iterate")
                if self.is_row(t):
                    stored = self.ev(s.value)
                    continue
                if isinstance(t, ast.Name):
                    self.defs.pop(t.id, None)
                    if not self.mentions_iterate(s.value) and not any(isinstance(n, ast.Name) and n.id in self.env for n in ast.walk(s.value)):
                        self.defs[t.id] = s.value
                    try:
                        self.env[t.id] = self.ev(s.value)
                    except Lost:
                        self.env[t.id] = None  # only an error if it reaches the stored row
                        continue
            elif isinstance(s, ast.AugAssign) and isinstance(s.target, ast.Name):
                cur = self.env.get(s.target.id)
                if cur is None and s.target.id in self.env:
                    continue
                fake = ast.BinOp(left=ast.Name(id=s.target.id, ctx=ast.Load()), op=s.op, right=s.value)
                try:
                    self.env[s.target.id] = self.ev(fake)
                except Lost:
                    self.env[s.target.id] = None
            elif isinstance(s, ast.If):
                d = self.decide(s.test)
                if d is True:
                    r = self.block(s.body)
                elif d is False:
                    r = self.block(s.orelse)
                else:
                    # branches that do not touch the update (safety nets, error raising) are skipped
                    touched = {n.id for b in s.body + s.orelse for n in ast.walk(b) if isinstance(n, ast.Name) and isinstance(n.ctx, ast.Store)}
                    r = None
                    if any(self.is_row(t) for b in s.body + s.orelse for n in ast.walk(b) if isinstance(n, ast.Assign) for t in n.targets):
                        continue  # e.g. `if nonzero_rows and all(V[k] == 0): V[k] = eps * max(V)`: a safety net, not the update
                    if touched & set(self.env):
                        raise Lost(f"`if {src(s.test)[:50]}` changes a value of the update and is not one of the configured options")
                if r is not None:
                    stored = r
        return stored


def _env_get(ev: AffineEval, name):
    v = ev.env.get(name)
    if v is None and name in ev.env:
        raise Lost(f"`{name}` could not be expressed as an affine form of the old row")
    return v


def _inline_helper_calls(f, stmts):
    """`T = h(a, b, kw=c)` with h a helper nested in f whose body is straight-line code (ifs allowed)
    ending in its only `return E`, called with plain names / constants: replaced by the body with the
    parameters substituted, the helper's own locals renamed, and `T = E` -- the same computation,
    so the update arithmetic can be read where it is used."""
    import copy

    helpers = getattr(f, "nested", {})

    def expand(st):
        if not (isinstance(st, ast.Assign) and len(st.targets) == 1 and isinstance(st.value, ast.Call) and isinstance(st.value.func, ast.Name) and st.value.func.id in helpers):
            return None
        h = helpers[st.value.func.id]
        if len(getattr(f, "nested_all", {}).get(h.name, [h])) != 1:
            return None
        body = [b for b in h.node.body if not (isinstance(b, ast.Expr) and isinstance(b.value, ast.Constant))]
        if not body or not isinstance(body[-1], ast.Return) or body[-1].value is None:
            return None
        inner = [n for b in body[:-1] for n in ast.walk(b)]
        if any(isinstance(n, (ast.Return, ast.For, ast.While, ast.Try, ast.With, ast.FunctionDef, ast.Lambda, ast.Yield)) for n in inner):
            return None
        a = h.node.args
        if a.vararg or a.kwarg:
            return None
        c = st.value
        pos = [x.arg for x in a.posonlyargs + a.args]
        if len(c.args) > len(pos) or any(isinstance(x, ast.Starred) for x in c.args) or any(k.arg is None for k in c.keywords):
            return None
        sub = dict(zip(pos, c.args))
        for k in c.keywords:
            sub[k.arg] = k.value
        allp = pos + [x.arg for x in a.kwonlyargs]
        if any(p_ not in sub for p_ in allp):
            return None  # defaults in play: leave the call alone
        if not all(isinstance(v, (ast.Name, ast.Constant)) for v in sub.values()):
            return None
        stored = {n.id for b in body for n in ast.walk(b) if isinstance(n, ast.Name) and isinstance(n.ctx, ast.Store)}
        if stored & set(allp):
            return None  # a parameter is re-bound inside the helper

        class R(ast.NodeTransformer):
            def visit_Name(self, n):
                if n.id in sub and isinstance(n.ctx, ast.Load):
                    return copy.deepcopy(sub[n.id])
                if n.id in stored:
                    return ast.copy_location(ast.Name(id=f"{h.name}__{n.id}", ctx=n.ctx), n)
                return n

        out = [R().visit(copy.deepcopy(b)) for b in body[:-1]]
        ret = R().visit(copy.deepcopy(body[-1].value))
        out.append(ast.copy_location(ast.Assign(targets=[copy.deepcopy(st.targets[0])], value=ret, type_comment=None), st))
        for o in out:
            ast.fix_missing_locations(o)
        return out

    res = []
    for st in stmts:
        ex = expand(st)
        if ex is not None:
            res.extend(ex)
            continue
        if isinstance(st, (ast.If, ast.For, ast.While)):
            st = copy.copy(st)
            st.body = _inline_helper_calls(f, st.body)
            st.orelse = _inline_helper_calls(f, st.orelse)
        res.append(st)
    return res


def block_independent(ctx: Ctx, rule: str, qname: str, iterate: str, options):
    """options: list of test sources that switch an optional coefficient on"""
    f = ctx.repo.func(qname)
    res = ctx.res
    if iterate not in f.all_params:
        raise AnalysisError(f"{rule}: {qname} no longer has the iterate parameter `{iterate}`")
    # the coordinate loop: for k in range(...) whose body stores into the iterate at k
    loops = []
    for n in own_scope_nodes(f.node):
        if isinstance(n, ast.For) and isinstance(n.target, ast.Name):
            k = n.target.id
            stores = [s for s in ast.walk(n) if isinstance(s, ast.Assign) and isinstance(s.value, ast.Call) and call_name(s.value) == "index_update" and len(s.value.args) == 3 and is_name(s.value.args[0], iterate) and any(isinstance(x, ast.Name) and x.id == k for x in ast.walk(s.value.args[1]))]
            if stores and not any(isinstance(m, ast.For) and m is not n and any(s in list(ast.walk(m)) for s in stores) for m in ast.walk(n)):
                loops.append(n)
    if not loops:
        raise AnalysisError(f"{rule}: the coordinate loop of {qname} (a for-loop that stores row k of `{iterate}`) was not found; cannot decide")
    from ..common import inline_locals

    present = set()
    for n in ast.walk(f.node):
        if isinstance(n, (ast.If, ast.IfExp)):
            present.add(src(n.test))
            present.add(src(inline_locals(f.node, n.test)))
    missing = [o for o in options if o not in present]
    if missing:
        raise AnalysisError(f"{rule}: the option tests {missing} vanished from {qname}; the configuration table is stale")
    for loop in loops:
        k = loop.target.id
        # the update proper sits under `if UtU[k, k]:`-like guards: descend through single guards
        for combo in product([False, True], repeat=len(options)):
            cfg = dict(zip(options, combo))
            label = ", ".join(f"{o.split(' ')[0]} {'given' if v else 'None'}" for o, v in cfg.items()) or "no options"
            ev = AffineEval(iterate, k, cfg)
            ev.fnode = f.node

            def run(stmts):
                out = None
                for s in stmts:
                    if isinstance(s, ast.If) and ev.decide(s.test) is None and any(isinstance(x, ast.Call) and call_name(x) == "index_update" for b in s.body for x in ast.walk(b)):
                        r = run(s.body)
                        out = r if r is not None else out
                    else:
                        r = ev.block([s])
                        out = r if r is not None else out
                return out

            try:
                stored = run(_inline_helper_calls(f, loop.body))
                if stored is None:
                    raise Lost("no store of the updated row was evaluated")
            except Lost as e:
                raise AnalysisError(f"{rule}: {qname} [{label}]: {e}; cannot decide")
            ok = stored.alpha.is_zero()
            res.instance(rule, f"{qname} [{label}]", sample={"coefficient_of_old_row": p_str(stored.alpha.p) + " / " + p_str(stored.alpha.q) if not ok else "0", "ok": ok})
            if not ok:
                ctx.finding(rule, f, loop, f"`{f.name}` [{label}]: the updated row still depends on its old value, with coefficient ({p_str(stored.alpha.p)}) / ({p_str(stored.alpha.q)}) after cancellation. The exact minimiser over row {k} is a function of the other rows only; an update that keeps part of the old row is a damped step whose fixed point is not the stationary point of the (penalised) objective", construct=f"{f.name} [{label}]: coefficient of the old row {p_str(stored.alpha.p)}")
