"""C03 — factorised tensors and their views (partial: structural clauses).

CTOR-VALIDATES  every wrapper constructor validates its operand before storing anything,
                and shape / rank come from the validator
VIEW-DELEGATES  derived views hand the unmodified operand (and mode) to the family's
                dense reconstruction and only re-arrange its result
"""

from __future__ import annotations

import ast
import copy

from ..cfg import build_cfg
from ..common import Ctx, call_name, is_name, src
from ..explore import Explorer
from ..model import AnalysisError, bind_call, own_scope_nodes

FAMILIES = {
    # module -> (wrapper class, validator, dense reconstruction, view-name prefix)
    "tensorly.cp_tensor": ("CPTensor", "_validate_cp_tensor", "cp_to_tensor", "cp"),
    "tensorly.tucker_tensor": ("TuckerTensor", "_validate_tucker_tensor", "tucker_to_tensor", "tucker"),
    "tensorly.tt_tensor": ("TTTensor", "_validate_tt_tensor", "tt_to_tensor", "tt"),
    "tensorly.tr_tensor": ("TRTensor", "_validate_tr_tensor", "tr_to_tensor", "tr"),
    "tensorly.tt_matrix": ("TTMatrix", "_validate_tt_matrix", "tt_matrix_to_tensor", "tt_matrix"),
    "tensorly.parafac2_tensor": ("Parafac2Tensor", "_validate_parafac2_tensor", "parafac2_to_tensor", "parafac2"),
}
LAYOUT_FUNCS = {"tensor_to_vec", "vec_to_tensor", "unfold", "fold", "partial_unfold", "partial_fold", "partial_tensor_to_vec", "partial_vec_to_tensor", "matricize"}
LAYOUT_PRIMS = {"reshape", "moveaxis", "transpose"}
VIEW_SUFFIXES = ("_to_vec", "_to_unfolded", "_to_matrix")
METHOD_TO_SUFFIX = {"to_tensor": "_to_tensor", "to_vec": "_to_vec", "to_unfolded": "_to_unfolded", "to_unfolding": "_to_unfolded", "to_matrix": "_to_matrix"}
STATE_ATTRS = {"factors", "weights", "core", "projections", "shape", "rank"}


def run(ctx: Ctx):
    repo, res = ctx.repo, ctx.res
    res.rule("CTOR-VALIDATES", "in every wrapper __init__, each path reaches the first store of a state attribute only after calling the family's validator on the unmodified operand; shape and rank are taken from its result", floor=6)
    res.rule("VIEW-DELEGATES", "every delegating view (function or wrapper method) passes its operand and mode unmodified to the family's dense reconstruction / sibling view and wraps the result only in layout functions", floor=28)
    res.assume(
        "HOMOGENEITY decides only the multilinearity degree of the reconstructions (a necessary condition): wrong indices, wrong transposes or wrong coefficients with the right degree are NOT decided; neither is whether the validators' individual checks are the right ones",
        "HOMOGENEITY trusts the degree specification of the tenalg primitives (khatri_rao / kronecker / multi_mode_dot / mode_dot / dot / einsum: sum of the operand degrees minus the skipped operand)",
        "layout functions are pure re-arrangements (C01)",
    )
    from .homog import run_homogeneity

    res.rule("HOMOGENEITY", "dimensional analysis: every value returned by cp_to_tensor / cp_to_unfolded / cp_to_vec / cp_norm, tucker_to_tensor / _unfolded / _vec, tt_to_tensor / tt_to_vec, tr_to_tensor and parafac2_to_slice has the homogeneity degree of the defining contraction (degree 1 in the weights or core, degree 1 in every factor; mask degree 1 when given), for weights present and absent, on every return path", floor=20)
    ctx.guarded(run_homogeneity, ctx, "HOMOGENEITY", ("tensorly.cp_tensor", "tensorly.tucker_tensor", "tensorly.tt_tensor", "tensorly.tr_tensor", "tensorly.parafac2_tensor"))
    res.rule("REJECT-TWO-SIDED", "every rejecting test of a validator (an `if` whose body raises) is either an (in)equality / count test, or compares a quantity that is non-negative by construction (abs / norm / even power, possibly reduced by max / sum) with its tolerance: a signed deviation compared one-sidedly accepts every factor set that deviates in the other direction", floor=20)
    res.rule("CHECKS-INDEPENDENT", "in every factorised-tensor validator, a rejecting check (a raise) is never the elif / else arm of a test of the factor-loop index against a position (index == 0, index == n - 1) unless both arms test the same index against different constants: first and last position coincide for a one-factor tensor, and the chained check would be skipped there", floor=8)
    res.rule("NORM-DELEGATES", "every `norm` method of a factorised-tensor wrapper (and of the common base class) returns either the family's factor-based norm function applied to the wrapper itself (degree-checked by HOMOGENEITY) or the backend norm of the wrapper's own dense reconstruction: the norm of a *component* (core, weights, one factor) is not the norm of the represented tensor", floor=2)
    ctx.guarded(norm_delegates, ctx)
    res.rule("BUFFER-CONTEXT", "in the factorised-tensor modules, a buffer allocated with **context(X) that receives values through index_update(buffer, index, V) takes its context from something computed from everything V is computed from (following the function's own assignments, loop targets and calls): the buffer's dtype is the view's dtype, and a context taken from one factor truncates the other factors' values", floor=2)
    n_buf = 0
    for modname, (cls, validator, dense, prefix) in FAMILIES.items():
        n_buf += ctx.guarded(buffer_context, ctx, repo.module(modname)) or 0
    res.instance("BUFFER-CONTEXT", "factorised-tensor modules: buffers filled through index_update", sample={"sites": n_buf})
    for modname, (cls, validator, dense, prefix) in FAMILIES.items():
        mod = repo.module(modname)
        ci = repo.cls(f"{modname}.{cls}")
        vf = repo.func(f"{modname}.{validator}")
        df = _dense(repo, modname, dense)
        ctx.guarded(ctor_validates, ctx, ci, vf)
        ctx.guarded(views, ctx, mod, ci, df, prefix)
        ctx.guarded(reject_two_sided, ctx, vf)
        ctx.guarded(checks_independent, ctx, vf)


def _dense(repo, modname, dense):
    q = f"{modname}.{dense}"
    if repo.has_func(q):
        return [repo.func(q)]
    # tt_matrix_to_tensor is the dispatched tenalg operation
    mod = repo.module(modname)
    e = repo.resolve_binding(mod, dense)
    if e is not None and e.kind == "tenalg":
        fs = [repo.tenalg_impls[b].get(e.value) for b in ("core", "einsum")]
        fs = [f for f in fs if f is not None]
        if fs:
            return fs
    if e is not None and e.kind == "func":
        return [e.value]
    raise AnalysisError(f"dense reconstruction {q} vanished")


class _CtorRule:
    def __init__(self, init, validator, repo):
        self.f, self.v, self.repo = init, validator, repo
        self.operand = init.call_params[0]

    def init_state(self):
        return (False, frozenset())  # validated, names holding (shape, rank)

    def transfer(self, node, st, ex):
        validated, vnames = st
        a = node.ast
        if a is None or node.kind not in ("stmt", "test", "return", "for", "with"):
            return st
        for c in ast.walk(a):
            if isinstance(c, ast.Call):
                ct = self.repo.resolve_call(self.f, self.f.module, c)
                if ct.kind == "repo" and self.v in ct.funcs:
                    if c.args and is_name(c.args[0], self.operand):
                        validated = True
                        if isinstance(a, ast.Assign) and a.value is c:
                            vnames = vnames | frozenset(x.id for t in a.targets for x in ast.walk(t) if isinstance(x, ast.Name))
                    else:
                        ex.report(("CTOR-VALIDATES", src(c)), f"the validator is applied to `{src(c.args[0]) if c.args else ''}`, not to the constructor's operand `{self.operand}`", node)
        if node.kind == "stmt" and isinstance(a, ast.Assign):
            # re-binding the operand before validation would validate something else
            for t in a.targets:
                if isinstance(t, ast.Attribute) and is_name(t.value, self.f.self_name) and t.attr in STATE_ATTRS:
                    if not validated:
                        ex.report(("CTOR-VALIDATES", src(a)), f"`self.{t.attr}` is stored on a path that has not validated the operand: a structurally invalid factor set is wrapped silently", node)
                    if t.attr in ("shape", "rank"):
                        used = {x.id for x in ast.walk(a.value) if isinstance(x, ast.Name)}
                        if not (used & vnames):
                            ex.report(("CTOR-VALIDATES", src(a)), f"`self.{t.attr}` is not taken from the validator's result", node)
                if is_name(t, self.operand) and not validated:
                    ex.report(("CTOR-VALIDATES", src(a)), f"the operand `{self.operand}` is re-bound before validation", node)
        return (validated, vnames)


def ctor_validates(ctx, ci, vf):
    res = ctx.res
    init = ci.methods.get("__init__")
    if init is None:
        raise AnalysisError(f"{ci.qname}.__init__ vanished")
    g = build_cfg(init.node, init.qname)
    ex = Explorer(g, _CtorRule(init, vf, ctx.repo)).run()
    stores = [s for s in own_scope_nodes(init.node) if isinstance(s, ast.Assign) and any(isinstance(t, ast.Attribute) and t.attr in STATE_ATTRS for t in s.targets)]
    res.instance("CTOR-VALIDATES", init.qname, sample={"validator": vf.name, "state_stores": [src(s) for s in stores], "states": ex.states})
    if not stores:
        raise AnalysisError(f"{init.qname}: no state store found")
    for v in ex.violations.values():
        ctx.finding("CTOR-VALIDATES", init, v.node.ast, v.message, construct=v.key[1], path=v.path)


NN_CALLS = {"abs", "norm", "square", "absolute"}
SIGN_KEEPING = {"max", "min", "sum", "mean", "amax", "amin", "sqrt", "reshape", "transpose", "to_numpy", "float", "tensor", "real"}
TWO_SIDED_CALLS = {"allclose", "isclose", "array_equal"}


def _non_negative(e, defs, depth=0) -> bool:
    """is the value of `e` non-negative by construction (syntactic, sound: False when unsure)"""
    if depth > 6:
        return False
    if isinstance(e, ast.Name):
        d = defs.get(e.id)
        return len(d) == 1 and _non_negative(d[0], defs, depth + 1) if d else False
    if isinstance(e, ast.Constant):
        return isinstance(e.value, (int, float)) and not isinstance(e.value, bool) and e.value >= 0
    if isinstance(e, ast.Call):
        nm = call_name(e)
        if nm in NN_CALLS:
            return True
        if nm in SIGN_KEEPING and e.args:
            return _non_negative(e.args[0], defs, depth + 1)
        return False
    if isinstance(e, ast.BinOp):
        if isinstance(e.op, ast.Pow) and isinstance(e.right, ast.Constant) and isinstance(e.right.value, int) and e.right.value % 2 == 0:
            return True
        if isinstance(e.op, (ast.Mult, ast.Add, ast.Div)):
            return _non_negative(e.left, defs, depth + 1) and _non_negative(e.right, defs, depth + 1)
        return False
    return False


_ALLOCATORS = {"zeros", "ones", "empty", "full", "zeros_like", "ones_like", "eye"}
_SHAPE_ONLY = {"shape", "len", "ndim", "range", "max", "min", "prod", "int"}


def _buffer_roots(fnode):
    """roots(e): the parameters / unpacked components an expression's VALUES (hence its dtype) come from, following the
    function's own assignments, loop targets (zip / enumerate position-aware) and calls (union of the arguments)."""
    assigns, loops, unpacked = {}, {}, {}
    params = {a.arg for a in ast.walk(fnode.args) if isinstance(a, ast.arg)}

    def bind_loop(target, it):
        if isinstance(it, ast.Call) and isinstance(it.func, ast.Name) and it.func.id == "enumerate" and isinstance(target, ast.Tuple) and len(target.elts) == 2:
            for n_ in ast.walk(target.elts[0]):
                if isinstance(n_, ast.Name):
                    loops.setdefault(n_.id, []).append(None)  # a position: carries no values of the data
            bind_loop(target.elts[1], it.args[0])
        elif isinstance(it, ast.Call) and isinstance(it.func, ast.Name) and it.func.id == "zip" and isinstance(target, ast.Tuple) and len(target.elts) == len(it.args):
            for t_, a_ in zip(target.elts, it.args):
                bind_loop(t_, a_)
        else:
            for n_ in ast.walk(target):
                if isinstance(n_, ast.Name):
                    loops.setdefault(n_.id, []).append(it)

    for x in own_scope_nodes(fnode):
        if isinstance(x, ast.Assign):
            for t in x.targets:
                if isinstance(t, ast.Name):
                    assigns.setdefault(t.id, []).append(x.value)
                elif isinstance(t, (ast.Tuple, ast.List)):
                    for n_ in ast.walk(t):
                        if isinstance(n_, ast.Name):
                            unpacked.setdefault(n_.id, []).append(x.value)
        elif isinstance(x, ast.AugAssign) and isinstance(x.target, ast.Name):
            assigns.setdefault(x.target.id, []).append(x.value)
        elif isinstance(x, (ast.For, ast.comprehension)):
            bind_loop(x.target, x.iter)

    def roots(e, seen=frozenset()):
        if e is None or isinstance(e, ast.Constant):
            return set()
        if isinstance(e, ast.Name):
            if e.id in seen:
                return set()
            out = set()
            if e.id in params:
                out.add(e.id)
            if e.id in unpacked:
                out.add(e.id)  # a component of the unpacked object: a leaf of its own
            for v in assigns.get(e.id, []):
                out |= roots(v, seen | {e.id})
            for it in loops.get(e.id, []):
                if it is not None:
                    out |= roots(it, seen | {e.id})
            return out
        if isinstance(e, ast.Attribute):
            return set() if e.attr in ("shape", "ndim", "size", "dtype") else roots(e.value, seen)
        if isinstance(e, ast.Subscript):
            return roots(e.value, seen)
        if isinstance(e, ast.Call):
            if call_name(e) in _SHAPE_ONLY:
                return set()
            out = set()
            for a in list(e.args) + [k.value for k in e.keywords]:
                out |= roots(a.value if isinstance(a, ast.Starred) else a, seen)
            if isinstance(e.func, ast.Attribute) and not isinstance(e.func.value, ast.Name):
                out |= roots(e.func.value, seen)
            return out
        out = set()
        for c in ast.iter_child_nodes(e):
            if isinstance(c, ast.expr):
                out |= roots(c, seen)
        return out

    return roots, assigns, unpacked


def buffer_context(ctx, mod):
    """A dense view that is assembled in a pre-allocated buffer (zero-padded PARAFAC2 slices, padded TT cores) has the
    dtype of the buffer, whatever is stored into it.  The buffer's context must therefore come from the stored values
    themselves (or from something computed from everything they are computed from): a context taken from one factor
    truncates the contraction of an integer factor with floating-point ones."""
    res = ctx.res
    n = 0
    for f in [g for g in ctx.repo.functions.values() if g.module is mod]:
        sites = [c for c in own_scope_nodes(f.node) if isinstance(c, ast.Call) and call_name(c) == "index_update" and len(c.args) == 3 and isinstance(c.args[0], ast.Name)]
        if not sites:
            continue
        roots, assigns, unpacked = _buffer_roots(f.node)
        for c in sites:
            allocs = [v for v in assigns.get(c.args[0].id, []) if isinstance(v, ast.Call) and call_name(v) in _ALLOCATORS]
            for al in allocs:
                ctxs = [k.value for k in al.keywords if k.arg is None and isinstance(k.value, ast.Call) and call_name(k.value) == "context" and k.value.args]
                if not ctxs:
                    continue
                n += 1
                have = roots(ctxs[0].args[0])
                need = roots(c.args[2])

                def covered(leaf, depth=0):
                    if leaf in have:
                        return True
                    srcs = unpacked.get(leaf, [])
                    if not srcs or depth > 3:
                        return False
                    return all(all(covered(r, depth + 1) for r in roots(e)) and roots(e) for e in srcs)

                missing = sorted(l for l in need if not covered(l))
                res.instance("BUFFER-CONTEXT", f"{f.qname}: {src(c)[:60]}", sample={"buffer_context_from": sorted(have), "stored_values_from": sorted(need), "ok": not missing})
                if missing:
                    ctx.finding("BUFFER-CONTEXT", f, al, f"{f.name}: the buffer `{c.args[0].id}` is allocated in the context (dtype) of `{src(ctxs[0].args[0])[:40]}`, which is computed from {sorted(have)} only, but `{src(c.args[2])[:60]}` stored into it is also computed from {missing}: when those have a wider dtype (integer `{sorted(have)[0] if have else '?'}`, floating-point others) the stored values are truncated to the buffer's dtype and the view no longer equals the defining contraction. Take the context from the stored values", construct=f"{f.name}: buffer {c.args[0].id} typed by {src(ctxs[0].args[0])[:30]}")
    return n


def _terminates(body) -> bool:
    return bool(body) and isinstance(body[-1], (ast.Raise, ast.Return, ast.Continue, ast.Break))


def _position_test(t, index_names):
    """`i == E` / `E == i` for a loop index i: returns (i, E) or None"""
    if isinstance(t, ast.Compare) and len(t.ops) == 1 and isinstance(t.ops[0], ast.Eq):
        l, r = t.left, t.comparators[0]
        if isinstance(l, ast.Name) and l.id in index_names:
            return l.id, r
        if isinstance(r, ast.Name) and r.id in index_names:
            return r.id, l
    if isinstance(t, ast.BoolOp) and isinstance(t.op, ast.And):
        for v in t.values:
            got = _position_test(v, index_names)
            if got:
                return got
    return None


def checks_independent(ctx, vf):
    """Boundary conditions of a format are checked per position of the factor loop: first factor, last factor.  The
    two positions coincide for a one-factor tensor, so a check of the last position that is the `elif` / `else` arm of
    the first position's test is never run there.  Position tests against two different constants exclude each other
    and are accepted; anything else (0 against n - 1) is not exclusive."""
    from ..inline import with_inlined

    res = ctx.res
    vf = with_inlined(ctx.repo, vf)
    index_names = set()
    for s in own_scope_nodes(vf.node):
        if isinstance(s, (ast.For, ast.comprehension)):
            it = s.iter
            if isinstance(it, ast.Call) and isinstance(it.func, ast.Name) and it.func.id == "enumerate" and isinstance(s.target, ast.Tuple) and isinstance(s.target.elts[0], ast.Name):
                index_names.add(s.target.elts[0].id)
            elif isinstance(it, ast.Call) and isinstance(it.func, ast.Name) and it.func.id == "range" and isinstance(s.target, ast.Name):
                index_names.add(s.target.id)
    n = 0
    for s in own_scope_nodes(vf.node):
        if not isinstance(s, ast.If):
            continue
        first = _position_test(s.test, index_names)
        if first is None:
            continue
        n += 1
        verdict = "independent"
        if s.orelse and not _terminates(s.body):
            lost = [x for y in s.orelse for x in ast.walk(y) if isinstance(x, ast.Raise)]
            if lost:
                second = _position_test(s.orelse[0].test, index_names) if len(s.orelse) == 1 and isinstance(s.orelse[0], ast.If) else None
                exclusive = second is not None and second[0] == first[0] and isinstance(first[1], ast.Constant) and isinstance(second[1], ast.Constant) and first[1].value != second[1].value
                if not exclusive:
                    verdict = "LOST-AT-COINCIDENCE"
                    other = f"`{src(s.orelse[0].test)[:50]}`" if second is not None else "the other arm"
                    ctx.finding("CHECKS-INDEPENDENT", vf, s, f"{vf.name}: the rejecting check under {other} is the else-arm of the position test `{src(s.test)[:50]}`: when both positions are the same factor (a one-factor tensor: 0 == n - 1) the second check is never run and an object violating that boundary condition is accepted and reconstructed", construct=f"{vf.name}: check chained behind {src(s.test)[:40]}")
        res.instance("CHECKS-INDEPENDENT", f"{vf.qname}: {src(s.test)[:60]}", sample={"line": s.lineno, "verdict": verdict})
    res.instance("CHECKS-INDEPENDENT", f"{vf.qname}: position tests on a factor-loop index", sample={"tests": n, "loop_indices": sorted(index_names)})


def reject_two_sided(ctx, vf):
    from ..inline import with_inlined

    res = ctx.res
    vf = with_inlined(ctx.repo, vf)  # per-element checks may live in a private helper
    defs = {}
    for s in own_scope_nodes(vf.node):
        if isinstance(s, ast.Assign) and len(s.targets) == 1 and isinstance(s.targets[0], ast.Name):
            defs.setdefault(s.targets[0].id, []).append(s.value)
        elif isinstance(s, (ast.AugAssign, ast.For, ast.comprehension)):
            t = s.target
            for n in ast.walk(t):
                if isinstance(n, ast.Name):
                    defs.setdefault(n.id, []).extend([None, None])  # not a single definition
    n = 0
    for s in own_scope_nodes(vf.node):
        if not (isinstance(s, ast.If) and any(isinstance(b, ast.Raise) for b in s.body)):
            continue
        for c in ast.walk(s.test):
            if not isinstance(c, ast.Compare) or len(c.ops) != 1:
                continue
            n += 1
            op, l, r = c.ops[0], c.left, c.comparators[0]
            verdict = "equality"
            if isinstance(op, (ast.Lt, ast.LtE, ast.Gt, ast.GtE)):
                tol, qty = None, None
                if isinstance(r, ast.Constant) and isinstance(r.value, float):
                    tol, qty = r, l
                elif isinstance(l, ast.Constant) and isinstance(l.value, float):
                    tol, qty = l, r
                if tol is None:
                    verdict = "count / ordering test without a tolerance"
                elif _non_negative(qty, defs):
                    verdict = "tolerance on a non-negative quantity"
                else:
                    verdict = "ONE-SIDED"
            res.instance("REJECT-TWO-SIDED", f"{vf.qname}: {src(c)[:70]}", sample={"line": c.lineno, "verdict": verdict})
            if verdict == "ONE-SIDED":
                ctx.finding("REJECT-TWO-SIDED", vf, c, f"the rejecting test `{src(c)[:100]}` compares a SIGNED quantity with a tolerance: deviations in the other direction (e.g. P.T @ P - I negative: shrunk, zero or anti-correlated columns) are accepted and the factor set is silently reconstructed. Take abs / a norm of the deviation first", construct=f"{vf.name}: one-sided tolerance test {src(c)[:80]}")
    if n == 0:
        raise AnalysisError(f"REJECT-TWO-SIDED: {vf.qname} has no rejecting test at all")


# ---------------------------------------------------------------------------------
def _single_return(f):
    body = [s for s in f.node.body if not (isinstance(s, ast.Expr) and isinstance(s.value, ast.Constant))]
    if len(body) == 1 and isinstance(body[0], ast.Return) and body[0].value is not None:
        return body[0]
    # named temporaries followed by the return: the same delegation written in several statements
    if body and isinstance(body[-1], ast.Return) and body[-1].value is not None and all(isinstance(s, ast.Assign) and len(s.targets) == 1 and isinstance(s.targets[0], ast.Name) for s in body[:-1]):
        from ..common import inline_locals

        v = inline_locals(f.node, body[-1].value, depth=6)
        if not any(isinstance(n, ast.Name) and n.id in {s.targets[0].id for s in body[:-1]} for n in ast.walk(v)):
            r = ast.Return(value=v)
            ast.copy_location(r, body[-1])
            ast.fix_missing_locations(r)
            return r
    return None


def _peel(ctx, f, e, operand, mode_param, allowed_cores, problems):
    """Peel layout wrappers off ``e``; return the core call (or None)."""
    while isinstance(e, ast.Call):
        ct = ctx.repo.resolve_call(f, f.module, e)
        if ct.kind == "repo" and any(c in ct.funcs for c in allowed_cores):
            return e, ct
        is_layout = (ct.kind == "backend" and ct.name in LAYOUT_PRIMS) or (ct.kind == "repo" and len(ct.funcs) == 1 and ct.funcs[0].module.name == "tensorly.base" and ct.funcs[0].name in LAYOUT_FUNCS)
        if not is_layout:
            problems.append(f"`{src(e)[:70]}` wraps the reconstruction in `{ct.name}`, which is not a layout function")
            return None, None
        # the mode handed to unfold must be the view's own mode parameter
        if ct.kind == "repo" and ct.funcs[0].name == "unfold":
            b = bind_call(e, ct.funcs[0], False)
            m = b.params.get("mode")
            if mode_param is not None and not is_name(m, mode_param):
                problems.append(f"unfold is given mode `{src(m) if m is not None else None}` instead of the view's own `{mode_param}`")
        if e.args:
            e = e.args[0]
        else:
            # the operand by keyword
            first = None
            if ct.kind == "repo":
                b = bind_call(e, ct.funcs[0], False)
                first = b.params.get(ct.funcs[0].pos_params[0]) if b.ok else None
            else:
                first = next((k.value for k in e.keywords if k.arg in ("tensor", "a", "x")), None)
            if first is None:
                problems.append("layout call without operand")
                return None, None
            e = first
    problems.append(f"the innermost expression `{src(e)[:60]}` is not a call of the family's reconstruction")
    return None, None


def _is_unfold_definition(repo, value, core, mode_param):
    """``value`` is the body of base.unfold written out, with the reconstruction as tensor and the view's
    own mode as mode (the comparison is with the definition as it stands in tensorly.base today)"""
    if mode_param is None or not repo.has_func("tensorly.base.unfold"):
        return False
    u = repo.func("tensorly.base.unfold")
    ur = _single_return(u)
    if ur is None or len(u.pos_params) < 2:
        return False
    t_, m_ = u.pos_params[0], u.pos_params[1]

    class Sub(ast.NodeTransformer):
        def visit_Name(self, n):
            if n.id == t_:
                return copy.deepcopy(core)
            if n.id == m_:
                return ast.Name(id=mode_param, ctx=ast.Load())
            return n

        def visit_Attribute(self, n):
            self.generic_visit(n)
            if isinstance(n.value, ast.Name) and n.value.id in ("tl", "T", "tensorly"):
                return ast.Name(id=n.attr, ctx=ast.Load())  # backend functions under whichever alias
            return n

    class Strip(Sub):
        def visit_Name(self, n):
            return n

    want = Strip().visit(Sub().visit(copy.deepcopy(ur.value)))
    got = Strip().visit(copy.deepcopy(value))
    return ast.dump(want) == ast.dump(got)


def _check_core_call(ctx, f, call, ct, operand, problems, forward_names):
    callee = ct.funcs[0]
    b = bind_call(call, callee, ct.bound)
    if not b.ok:
        problems.append(f"call does not bind: {b.problems}")
        return
    first = callee.call_params[0] if ct.bound or callee.binds_first else callee.pos_params[0]
    a = b.params.get(first)
    # a shallow copy of the operand is the operand
    while isinstance(a, ast.Call) and isinstance(a.func, ast.Name) and a.func.id in ("list", "tuple") and len(a.args) == 1 and not a.keywords:
        a = a.args[0]
    if isinstance(a, ast.Subscript) and isinstance(a.slice, ast.Slice) and a.slice.lower is None and a.slice.upper is None and a.slice.step is None:
        a = a.value
    if not is_name(a, operand):
        problems.append(f"the operand handed to {callee.name} is `{src(a) if a is not None else None}`, not the unmodified `{operand}`")
    for p in forward_names:
        if p in callee.all_params and p != first:
            a = b.params.get(p)
            if a is None or not is_name(a, p):
                problems.append(f"`{p}` is not forwarded under its own name to {callee.name} (got {src(a) if a is not None else 'the default'})")


def views(ctx, mod, ci, dense_fs, prefix):
    from ..inline import with_inlined

    repo, res = ctx.repo, ctx.res
    fam_funcs = {n: f for n, f in mod.functions.items() if n.startswith(prefix + "_to_")}
    # functional views
    for name, f in sorted(fam_funcs.items()):
        if not name.endswith(VIEW_SUFFIXES):
            continue
        f = with_inlined(repo, f)  # the delegation may pass through a private helper
        r = _single_return(f)
        if r is None:
            continue  # not a delegation (e.g. cp_to_unfolded computes directly): not an instance
        operand = f.pos_params[0]
        mode_param = "mode" if "mode" in f.all_params else None
        problems = []
        core, ct = _peel(ctx, f, r.value, operand, mode_param, dense_fs, problems)
        if core is not None:
            fwd = [p for p in f.all_params if p not in (operand, "mode")]
            _check_core_call(ctx, f, core, ct, operand, problems, fwd)
            if name.endswith("_to_unfolded") and not any(isinstance(x, ast.Call) and call_name(x) == "unfold" for x in ast.walk(r.value)) and not _is_unfold_definition(repo, r.value, core, mode_param):
                problems.append("an unfolded view that does not unfold")
        res.instance("VIEW-DELEGATES", f.qname, sample={"return": src(r), "ok": not problems})
        for p in problems:
            ctx.finding("VIEW-DELEGATES", f, r, f"{name}: {p}: this view can disagree with the dense reconstruction", construct=f"{src(r)} :: {p[:60]}")
    # wrapper methods
    for mname, suffix in METHOD_TO_SUFFIX.items():
        m = ci.methods.get(mname)
        if m is None:
            continue
        target_name = prefix + suffix
        r = _single_return(m)
        if r is None:
            raise AnalysisError(f"{m.qname} is no longer a single delegating return; cannot decide")
        problems = []
        v = r.value
        if not isinstance(v, ast.Call):
            problems.append("does not delegate")
        else:
            ct = repo.resolve_call(m, m.module, v)
            tgt = fam_funcs.get(target_name)
            allowed = [tgt] if tgt is not None else []
            if suffix == "_to_tensor":
                allowed = dense_fs
            if ct.kind != "repo" or not any(a in ct.funcs for a in allowed):
                problems.append(f"delegates to `{ct.name}` instead of the family's `{target_name}`")
            else:
                callee = ct.funcs[0]
                b = bind_call(v, callee, ct.bound)
                if not b.ok:
                    problems.append(f"call does not bind: {b.problems}")
                else:
                    a = b.params.get(callee.pos_params[0])
                    if not is_name(a, m.self_name):
                        problems.append(f"passes `{src(a) if a is not None else None}` instead of the unmodified object")
                    for p in m.call_params:
                        if p in callee.all_params:
                            a = b.params.get(p)
                            if a is None or not is_name(a, p):
                                problems.append(f"`{p}` is not forwarded unmodified (got {src(a) if a is not None else 'the default'})")
        res.instance("VIEW-DELEGATES", m.qname, sample={"return": src(r), "ok": not problems})
        for p in problems:
            ctx.finding("VIEW-DELEGATES", m, r, f"{ci.name}.{mname}: {p}", construct=f"{src(r)} :: {p[:60]}")


def norm_delegates(ctx):
    repo, res = ctx.repo, ctx.res
    classes = [repo.cls("tensorly._factorized_tensor.FactorizedTensor")] + [repo.cls(f"{m}.{c}") for m, (c, _, _, _) in FAMILIES.items()]
    prefixes = {f"{m}.{c}": p for m, (c, _, _, p) in FAMILIES.items()}
    n = 0
    for ci in classes:
        m = ci.methods.get("norm")
        if m is None:
            continue
        n += 1
        rets = [r for r in own_scope_nodes(m.node) if isinstance(r, ast.Return) and r.value is not None]
        ok = bool(rets)
        why = ""
        for r in rets:
            v = r.value
            good = False
            if isinstance(v, ast.Call):
                nm = call_name(v)
                # <family>_norm(self)
                if nm == f"{prefixes.get(ci.qname, '?')}_norm" and v.args and is_name(v.args[0], m.self_name):
                    good = True
                # norm(self.to_tensor())
                if nm == "norm" and v.args and isinstance(v.args[0], ast.Call) and isinstance(v.args[0].func, ast.Attribute) and v.args[0].func.attr == "to_tensor" and is_name(v.args[0].func.value, m.self_name):
                    good = True
            if not good:
                ok = False
                why = src(v)[:80]
        res.instance("NORM-DELEGATES", f"{ci.qname}.norm", sample={"returns": [src(r.value)[:60] for r in rets], "ok": ok})
        if not ok:
            ctx.finding("NORM-DELEGATES", m, m.node, f"`{ci.name}.norm` returns `{why}`: that is not the family's factor-based norm of the wrapper nor the norm of its dense reconstruction. The norm of one component equals the norm of the represented tensor only for special factors (e.g. orthonormal ones), which the wrapper does not guarantee", construct=f"{ci.name}.norm returns {why}")
    if n == 0:
        raise AnalysisError("NORM-DELEGATES: no `norm` method found on the wrappers or their base class")
