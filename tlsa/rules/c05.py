"""C05 — the SVD interface (partial: structural clauses).

That the returned triple is *the* truncated SVD (true singular values, orthonormal vectors,
optimal error) is a numerical fact about LAPACK results and is not decided.  Three clauses
are visible in the code:

SVD-SCALING      dimensional analysis (rules/homog.py): the SVD of c*A is (U, c*S, V).  Every
                 method (truncated_svd, symeig_svd, randomized_svd) and svd_interface with
                 each of them must return singular vectors of degree 0 in the matrix and
                 singular values of degree 1, and must not add quantities of different degree
                 on the way (symeig: S = sqrt(eig(A A^T)), V = A^T U / S).  Orthonormal
                 vectors cannot depend on the scale of the input, so this is necessary for
                 "orthonormal singular vectors" and "true singular values".
FLIP-PAIRED      sign resolution must not change the product U diag(S) V: in each branch of
                 svd_flip the sign vector multiplies U *and* V (s*s == 1), nothing else.
NONNEG-OPTION    the non-negative option: both factors returned by make_svd_non_negative are
                 built from clipped / absolute-valued operands by sign-preserving operators
                 (abstract interpretation over {non-negative, any}, data and singular vectors
                 arbitrary, singular values non-negative), for nndsvd and nndsvda; and
                 svd_interface returns exactly that pair when the option is on.
DISPATCH-AGREE   svd_interface's string dispatch: the branch `method == "<name>"` selects the
                 function called <name>, and SVD_FUNS lists exactly these names.
"""

from __future__ import annotations

import ast

from ..common import Ctx, is_name, src
from ..model import AnalysisError, own_scope_nodes
from .homog import ONE, Deg, Other, run_units

A = Deg({"A": ONE})
TRIPLE = [{}, {"A": ONE}, {}]
S = "tensorly.tenalg.svd."
SPECS = [
    (S + "truncated_svd", {"matrix": A}, TRIPLE, ""),
    (S + "symeig_svd", {"matrix": A}, TRIPLE, ""),
    (S + "randomized_svd", {"matrix": A}, TRIPLE, ""),
    (S + "svd_interface", {"matrix": A}, TRIPLE, "truncated_svd"),
    (S + "svd_interface", {"matrix": A, "method": Other("symeig_svd")}, TRIPLE, "symeig_svd"),
    (S + "svd_interface", {"matrix": A, "method": Other("randomized_svd")}, TRIPLE, "randomized_svd"),
    (S + "svd_interface", {"matrix": A, "flip_sign": Other(False)}, TRIPLE, "no sign resolution"),
    (S + "svd_interface", {"matrix": A, "u_based_flip_sign": Other(False)}, TRIPLE, "V-based sign resolution"),
]


def run(ctx: Ctx):
    res = ctx.res
    res.rule("SVD-SCALING", "dimensional analysis: truncated_svd, symeig_svd, randomized_svd and svd_interface (each method; with, without and with V-based sign resolution) return singular vectors of degree 0 and singular values of degree 1 in the matrix, and combine no quantities of different degree on the way (backend svd / eigh / qr taken by specification)", floor=24)
    res.rule("FLIP-PAIRED", "in each branch of svd_flip the sign vector multiplies both U and V and nothing else: the product U diag(S) V is unchanged", floor=2)
    res.rule("DISPATCH-AGREE", "svd_interface: the branch `method == \"<name>\"` selects the function named <name>; SVD_FUNS lists exactly the dispatched names", floor=3)
    res.assume(
        "decides scale behaviour, sign pairing and dispatch only; the values of the singular triplets, orthonormality itself, ordering, optimal truncation, the randomized method's accuracy and the non-negative option are NOT decided",
        "backend primitives by specification: svd -> (scale-free, degree of the argument, scale-free); eigh -> (eigenvalues: degree of the argument, eigenvectors: scale-free); qr -> (scale-free, degree of the argument)",
    )
    ctx.guarded(
        run_units,
        ctx,
        "SVD-SCALING",
        SPECS,
        "A = unit of the matrix; the triple is (U, S, V)",
        "the SVD of c*A is (U, c*S, V): singular vectors that depend on the scale cannot be orthonormal, singular values of another degree cannot be the true ones",
        prims={"svd"},
    )
    ctx.guarded(flip_paired, ctx)
    ctx.guarded(dispatch_agree, ctx)
    res.rule("DECIDING-ENTRY", "svd_flip: in each branch the sign vector is the sign of entries D[i, j] selected by argmax(abs(D), axis=a); the arg-max index is used as an index into axis a, it is paired with an enumeration of the other axis, the signs are applied along the axis they were decided for, and no arithmetic combination of entries (which can vanish for a non-zero vector) is used", floor=2)
    ctx.guarded(deciding_entry, ctx)
    res.rule("DIV-GUARDED", "in the SVD methods listed in SVD_FUNS and in make_svd_non_negative every division has a denominator that is strictly positive: by construction (a value clipped / floored at a positive constant or machine epsilon, its square root, reshapes of it) or because the division sits under `if P > Q` where the denominator is a factor of the product P of norms and Q >= 0: singular vectors / NNDSVD columns obtained by dividing by computed singular values or norms stay finite for exactly singular input and one-signed singular vectors", floor=6)
    ctx.guarded(div_guarded, ctx)
    res.rule("SCALE-RETURNED", "symeig_svd obtains the second set of singular vectors by dividing A^T U (or A V) by the singular values: the divisor is the very value that is returned as S (same reaching definition), so that U diag(S) V reproduces the matrix also where the floor at machine epsilon is active; returning sqrt(clip(e, 0)) while dividing by sqrt(clip(e, eps)) scales those components by sigma / sqrt(eps)", floor=2)
    ctx.guarded(scale_returned, ctx)
    res.rule("REORTH-EACH-STEP", "randomized_range_finder: every product with A or A^H inside the power iteration is followed by an orthonormalisation before the next product (the sample handed from one pass of the loop to the next comes out of qr): without it the sample collapses onto the dominant singular directions in floating point and the small singular values of the sketch are lost", floor=1)
    ctx.guarded(reorth_each_step, ctx)
    res.rule("BRANCH-AGREE", "randomized_svd: its two routes (transposed and direct) are the same algorithm on A^T and A; every routine called on both routes (range finder, reduced SVD) gets the same options on both -- sketch size with oversampling, power iterations, seed, number of singular triplets -- only the matrix operand differs", floor=2)
    ctx.guarded(branch_agree, ctx)
    res.rule("NONNEG-OPTION", "sign analysis ({non-negative, any} abstract interpretation, the domain of C10): for arbitrary (signed) data and arbitrary singular vectors, make_svd_non_negative returns two entrywise non-negative factors under each of its variants, and svd_interface with the non-negative option returns exactly those", floor=4)
    ctx.guarded(nonneg_option, ctx)


def _cn(c):
    return c.func.attr if isinstance(c.func, ast.Attribute) else (c.func.id if isinstance(c.func, ast.Name) else "")


def _decision_paths(f, rule):
    """The two straight-line statement sequences of svd_flip, one per value of the deciding flag
    (third parameter).  Accepts `if flag: A else: B`, the negated test, and the early-return
    form `if flag: A; return ...` followed by B.  Statements before / after the branch are
    part of both sequences."""
    flag = f.pos_params[2] if len(f.pos_params) > 2 else None
    body = [s for s in f.node.body if not (isinstance(s, ast.Expr) and isinstance(s.value, ast.Constant))]
    for i, s in enumerate(body):
        if not isinstance(s, ast.If):
            continue
        t, neg = s.test, False
        while isinstance(t, ast.UnaryOp) and isinstance(t.op, ast.Not):
            t, neg = t.operand, not neg
        if isinstance(t, ast.Compare) and len(t.ops) == 1 and isinstance(t.comparators[0], ast.Constant) and isinstance(t.comparators[0].value, bool) and isinstance(t.ops[0], (ast.Is, ast.Eq, ast.IsNot, ast.NotEq)):
            if (t.comparators[0].value is False) != isinstance(t.ops[0], (ast.IsNot, ast.NotEq)):
                neg = not neg
            t = t.left
        if not is_name(t, flag):
            continue
        pre, post = body[:i], body[i + 1 :]
        ends = lambda blk: bool(blk) and isinstance(blk[-1], ast.Return)
        yes = pre + s.body + ([] if ends(s.body) else post)
        no = pre + s.orelse + ([] if ends(s.orelse) else post)
        if not s.orelse and not ends(s.body):
            break
        if neg:
            yes, no = no, yes
        out = []
        for label, path in (("U-based", yes), ("V-based", no)):
            fn = ast.FunctionDef(name=f.name, args=f.node.args, body=path, decorator_list=[], returns=None, type_comment=None, type_params=[])
            out.append((label, path, fn))
        return out
    raise AnalysisError(f"{rule}: svd_flip no longer branches once on its deciding flag `{flag}`; cannot decide")


def _sign_vectors(path_nodes):
    """Names bound to sign(...) results, or to such a vector padded with ones (concatenate)."""
    signs = set()
    changed = True
    while changed:
        changed = False
        for n in path_nodes:
            if isinstance(n, ast.Assign) and len(n.targets) == 1 and isinstance(n.targets[0], ast.Name) and isinstance(n.value, ast.Call) and n.targets[0].id not in signs:
                c = n.value
                if _cn(c) == "sign":
                    signs.add(n.targets[0].id)
                    changed = True
                if _cn(c) in ("concatenate", "hstack") and c.args and isinstance(c.args[0], (ast.Tuple, ast.List)) and c.args[0].elts:
                    first, rest = c.args[0].elts[0], c.args[0].elts[1:]
                    if isinstance(first, ast.Name) and first.id in signs and all(isinstance(r, ast.Call) and _cn(r) == "ones" for r in rest):
                        signs.add(n.targets[0].id)
                        changed = True
    return signs


def _sign_based(e, signs):
    subs = []
    while isinstance(e, ast.Subscript):
        subs.append(e.slice)
        e = e.value
    return (isinstance(e, ast.Name) and e.id in signs), subs


def flip_paired(ctx: Ctx):
    """Along each of the two decision paths a tiny value numbering follows U and V: a product
    `<X-derived> * <sign vector>` is X flipped once more.  The returned pair must be
    (U flipped once, V flipped once)."""
    from ..inline import with_inlined

    res = ctx.res
    f = with_inlined(ctx.repo, ctx.repo.func(S + "svd_flip"))
    if len(f.pos_params) < 2:
        raise AnalysisError("FLIP-PAIRED: svd_flip no longer takes (U, V)")
    pu, pv = f.pos_params[0], f.pos_params[1]
    for label, path, fn in _decision_paths(f, "FLIP-PAIRED"):
        nodes = [n for s in path for n in ast.walk(s)]
        signs = _sign_vectors(nodes)
        if not signs:
            raise AnalysisError(f"FLIP-PAIRED: no sign vector in the {label} branch of svd_flip")
        env = {pu: (pu, 0), pv: (pv, 0)}

        def val(e):
            if isinstance(e, ast.Name):
                return env.get(e.id)
            if isinstance(e, ast.BinOp) and isinstance(e.op, ast.Mult):
                for side, other in ((e.left, e.right), (e.right, e.left)):
                    sb, _ = _sign_based(other, signs)
                    v = val(side)
                    if sb and v is not None:
                        return (v[0], v[1] + 1)
            return None

        returned = None

        def walk_block(blk, nested):
            nonlocal returned
            for st in blk:
                if isinstance(st, ast.Assign):
                    for t in st.targets:
                        if isinstance(t, ast.Name):
                            v = val(st.value)
                            if v is not None and nested:
                                raise AnalysisError(f"FLIP-PAIRED: `{src(st)[:60]}` flips a factor under a nested condition in the {label} branch; cannot decide")
                            if v is not None:
                                env[t.id] = v
                            elif t.id in env:
                                if t.id in (pu, pv) or env[t.id] is not None:
                                    env[t.id] = ("?" + src(st.value)[:40], 0)
                        elif isinstance(t, (ast.Tuple, ast.List)) and isinstance(st.value, (ast.Tuple, ast.List)) and len(t.elts) == len(st.value.elts):
                            vals = [val(x) for x in st.value.elts]
                            for e, v in zip(t.elts, vals):
                                if isinstance(e, ast.Name):
                                    if v is not None:
                                        env[e.id] = v
                                    elif e.id in env:
                                        env[e.id] = ("?" + src(st)[:40], 0)
                        else:
                            for x in ast.walk(t):
                                if isinstance(x, ast.Name) and x.id in env:
                                    env[x.id] = ("?" + src(st)[:40], 0)
                elif isinstance(st, ast.AugAssign) and isinstance(st.target, ast.Name) and st.target.id in env:
                    sb, _ = _sign_based(st.value, signs)
                    v = env[st.target.id]
                    env[st.target.id] = (v[0], v[1] + 1) if (sb and isinstance(st.op, ast.Mult)) else ("?" + src(st)[:40], 0)
                elif isinstance(st, ast.If):
                    walk_block(st.body, True)
                    walk_block(st.orelse, True)
                elif isinstance(st, ast.Return):
                    if nested:
                        raise AnalysisError(f"FLIP-PAIRED: nested return in the {label} branch; cannot decide")
                    returned = st
                elif isinstance(st, (ast.For, ast.While, ast.With, ast.Try)):
                    if any(isinstance(x, ast.Name) and isinstance(x.ctx, ast.Store) and x.id in env for x in ast.walk(st)):
                        raise AnalysisError(f"FLIP-PAIRED: a factor is rebound inside a compound statement in the {label} branch; cannot decide")

        walk_block(path, False)
        if returned is None or not isinstance(returned.value, ast.Tuple) or len(returned.value.elts) != 2:
            raise AnalysisError(f"FLIP-PAIRED: the {label} branch of svd_flip does not end in `return <U>, <V>`; cannot decide")
        got = [val(e) for e in returned.value.elts]
        ok = got == [(pu, 1), (pv, 1)]
        show = {k: (f"{v[0]} flipped {v[1]}x" if v else "unrelated") for k, v in zip(("first", "second"), got)}
        res.instance("FLIP-PAIRED", f"svd_flip [{label}]", sample={"sign_vectors": sorted(signs), "returned": show, "ok": ok})
        if not ok:
            flipped = sorted(v[0] for v in got if v and v[1] == 1 and not v[0].startswith("?"))
            ctx.finding("FLIP-PAIRED", f, returned, f"svd_flip [{label} decision]: returns ({show['first']}, {show['second']}); the sign vector must multiply `{pu}` and `{pv}` exactly once each, otherwise the product U diag(S) V changes sign in the flipped components", construct=f"svd_flip [{label}]: sign vector multiplies {flipped}")


def dispatch_agree(ctx: Ctx):
    res = ctx.res
    f = ctx.repo.func(S + "svd_interface")
    mod = f.module
    names = None
    for s in mod.tree.body:
        if isinstance(s, ast.Assign) and any(is_name(t, "SVD_FUNS") for t in s.targets) and isinstance(s.value, (ast.List, ast.Tuple)):
            names = [e.value for e in s.value.elts if isinstance(e, ast.Constant)]
    if names is None:
        raise AnalysisError("DISPATCH-AGREE: SVD_FUNS vanished")
    seen = []
    pairs = []  # (key, selected function name | None, node)
    from ..inline import inlined

    for n in ast.walk(inlined(ctx.repo, f)):  # the selection may live in a private helper
        if isinstance(n, ast.If) and isinstance(n.test, ast.Compare) and len(n.test.ops) == 1 and isinstance(n.test.ops[0], ast.Eq):
            l, r = n.test.left, n.test.comparators[0]
            if isinstance(l, ast.Constant):
                l, r = r, l
            if isinstance(l, ast.Name) and isinstance(r, ast.Constant) and isinstance(r.value, str):
                tgt = None
                for b_ in n.body:
                    if isinstance(b_, (ast.Assign, ast.Return)) and isinstance(b_.value, ast.Name):
                        tgt = b_.value.id
                pairs.append((r.value, tgt, n.test))
        elif isinstance(n, (ast.Tuple, ast.List)) and len(n.elts) == 2 and isinstance(n.elts[0], ast.Constant) and isinstance(n.elts[0].value, str) and isinstance(n.elts[1], ast.Name) and isinstance(n.ctx, ast.Load):
            # a row of a dispatch table: ("<name>", <function>)
            if n.elts[0].value in names or ctx.repo.has_func(S + n.elts[1].id):
                pairs.append((n.elts[0].value, n.elts[1].id, n))
        elif isinstance(n, ast.Dict) and n.keys and all(isinstance(k, ast.Constant) and isinstance(k.value, str) for k in n.keys) and all(isinstance(v, ast.Name) for v in n.values):
            if any(k.value in names for k in n.keys):
                for k, v in zip(n.keys, n.values):
                    pairs.append((k.value, v.id, k))
    done = set()
    for key, tgt, node in pairs:
        if (key, tgt) in done:
            continue
        done.add((key, tgt))
        seen.append(key)
        ok = tgt == key and ctx.repo.has_func(S + key)
        res.instance("DISPATCH-AGREE", f"method == {key!r}", sample={"selects": tgt, "ok": ok})
        if not ok:
            ctx.finding("DISPATCH-AGREE", f, node, f"svd_interface: the branch `method == {key!r}` selects `{tgt}`: asking for one SVD method silently runs another", construct=f"svd_interface: {key} -> {tgt}")
    if not seen:
        raise AnalysisError("DISPATCH-AGREE: no `method == <name>` branch found in svd_interface")
    if sorted(set(seen)) != sorted(names):
        ctx.finding("DISPATCH-AGREE", f, f.node, f"SVD_FUNS lists {sorted(names)} but svd_interface dispatches {sorted(seen)}", construct="SVD_FUNS vs dispatch")


# ---------------------------------------------------------------------------------
# DIV-GUARDED: V = A^T U / S needs S > 0
# ---------------------------------------------------------------------------------
def _strictly_positive(e, nonneg_ok=False) -> bool:
    """True when `e` is > 0 (or, with nonneg_ok, >= 0) entrywise by construction."""
    cn = _cn
    if isinstance(e, ast.Constant) and isinstance(e.value, (int, float)) and not isinstance(e.value, bool):
        return e.value > 0 or (nonneg_ok and e.value >= 0)
    if isinstance(e, ast.Call):
        nm = cn(e)
        kw = {k.arg: k.value for k in e.keywords if k.arg}
        if nm in ("eps", "finfo"):
            return True
        if nm == "clip":
            lo = e.args[1] if len(e.args) > 1 else kw.get("a_min")
            if lo is not None and _strictly_positive(lo, nonneg_ok):
                return True
            return False
        if nm in ("maximum", "max") and len(e.args) == 2:
            return any(_strictly_positive(a, nonneg_ok) for a in e.args)
        if nm in ("sqrt", "reshape", "transpose", "copy", "tensor", "ravel", "flip", "sort", "diag", "real", "asarray", "to_numpy", "float", "squeeze", "expand_dims") and e.args:
            return _strictly_positive(e.args[0], nonneg_ok)
        if nm == "exp":
            return True
        if nm in ("abs", "norm", "absolute") and nonneg_ok:
            return True
        return False
    if isinstance(e, ast.Attribute) and e.attr in ("eps", "tiny", "T", "real"):
        return True if e.attr in ("eps", "tiny") else _strictly_positive(e.value, nonneg_ok)
    if isinstance(e, ast.Subscript):
        return _strictly_positive(e.value, nonneg_ok)
    if isinstance(e, ast.BinOp):
        if isinstance(e.op, ast.Mult) or isinstance(e.op, ast.Div):
            return _strictly_positive(e.left, nonneg_ok) and _strictly_positive(e.right, nonneg_ok)
        if isinstance(e.op, ast.Add):
            l, r = e.left, e.right
            return (_strictly_positive(l, nonneg_ok) and _strictly_positive(r, True)) or (_strictly_positive(r, nonneg_ok) and _strictly_positive(l, True))
        if isinstance(e.op, ast.Pow) and isinstance(e.right, ast.Constant):
            return _strictly_positive(e.left, nonneg_ok)
    return False


def div_guarded(ctx: Ctx):
    from .state import _resolve_at

    res = ctx.res
    mod = ctx.repo.func(S + "svd_interface").module
    names = None
    for st in mod.tree.body:
        if isinstance(st, ast.Assign) and any(is_name(t, "SVD_FUNS") for t in st.targets) and isinstance(st.value, (ast.List, ast.Tuple)):
            names = [e.value for e in st.value.elts if isinstance(e, ast.Constant)]
    if not names:
        raise AnalysisError("DIV-GUARDED: SVD_FUNS vanished")
    n = 0
    # the methods of SVD_FUNS and the NNDSVD post-processing (every function of the module that divides)
    scope = [ctx.repo.func(S + nm) for nm in names if ctx.repo.has_func(S + nm)]
    scope += [g for g in ctx.repo.functions.values() if g.module is mod and g.cls is None and g not in scope and g.name == "make_svd_non_negative"]
    from ..inline import with_inlined

    for f in scope:
        f = with_inlined(ctx.repo, f)  # the parts and their norms may come from a private helper
        par = {}
        for p_ in ast.walk(f.node):
            for c_ in ast.iter_child_nodes(p_):
                par[id(c_)] = p_

        def _leaves(block):
            return bool(block) and isinstance(block[-1], (ast.Return, ast.Raise, ast.Continue, ast.Break))

        def facts_at(st):
            """branch decisions known at ``st``: [(test, polarity)] from the enclosing `if`s and from the guard
            clauses (`if T: continue / return / raise`) that precede it in an enclosing block, as long as no
            name the test reads is written in between"""
            out = []
            cur = st
            outer_written = set()  # names written by a loop already left behind: older decisions about them are stale

            def stores(nodes):
                return {x.id for n_ in nodes for x in ast.walk(n_) if isinstance(x, ast.Name) and isinstance(x.ctx, ast.Store)}

            def reads(t):
                return {x.id for x in ast.walk(t) if isinstance(x, ast.Name)}

            while id(cur) in par:
                p_ = par[id(cur)]
                if isinstance(p_, ast.If):
                    for blk, pol in ((p_.body, True), (p_.orelse, False)):
                        if any(cur is b_ for b_ in blk):
                            i = next(k for k, b_ in enumerate(blk) if b_ is cur)
                            if not (reads(p_.test) & (stores(blk[:i]) | outer_written)):
                                out.append((p_.test, pol, p_))
                for fld in ("body", "orelse", "finalbody"):
                    blk = getattr(p_, fld, None)
                    if isinstance(blk, list) and any(cur is b_ for b_ in blk):
                        i = next(k for k, b_ in enumerate(blk) if b_ is cur)
                        written = set(outer_written)
                        for prev in reversed(blk[:i]):
                            if isinstance(prev, ast.If) and (_leaves(prev.body) and not prev.orelse or (prev.orelse and _leaves(prev.orelse) and not _leaves(prev.body))):
                                pol = not (_leaves(prev.body) and not prev.orelse)
                                if not ({x.id for x in ast.walk(prev.test) if isinstance(x, ast.Name)} & written):
                                    out.append((prev.test, pol, prev))
                            written |= {x.id for x in ast.walk(prev) if isinstance(x, ast.Name) and isinstance(x.ctx, ast.Store)}
                if isinstance(p_, (ast.FunctionDef, ast.AsyncFunctionDef)):
                    break
                if isinstance(p_, (ast.For, ast.While)):
                    outer_written |= stores([p_])
                cur = p_
            return out

        def true_atoms(facts):
            """comparisons that hold, by splitting and / or / not and unit propagation over the disjunctions"""
            known = {}  # text of atom -> (node, truth)
            clauses = []  # lists of (node, wanted truth), at least one holds

            def assert_(t, pol):
                if isinstance(t, ast.UnaryOp) and isinstance(t.op, ast.Not):
                    return assert_(t.operand, not pol)
                if isinstance(t, ast.BoolOp):
                    conj = isinstance(t.op, ast.And) == pol  # (A and B) true / (A or B) false: every part decided
                    if conj:
                        for v_ in t.values:
                            assert_(v_, pol)
                    else:
                        clauses.append([(v_, pol) for v_ in t.values])
                    return
                known[src(t)] = (t, pol)

            def value_of(t, pol):
                """True / False / None: whether `t is pol` is known"""
                if isinstance(t, ast.UnaryOp) and isinstance(t.op, ast.Not):
                    return value_of(t.operand, not pol)
                k = known.get(src(t))
                return None if k is None else (k[1] == pol)

            store_count = {}
            for x in ast.walk(f.node):
                if isinstance(x, ast.Name) and isinstance(x.ctx, ast.Store):
                    store_count[x.id] = store_count.get(x.id, 0) + 1

            def named(t, at):
                """a test that is a local flag reads as the condition the flag was given (`pos = a > b` ... `if pos:`),
                provided the flag and what the condition reads are each written once"""

                class N(ast.NodeTransformer):
                    def visit_Name(self, n):
                        if store_count.get(n.id) == 1:
                            r = _resolve_at(n, at, f.node, depth=1)
                            if isinstance(r, (ast.Compare, ast.BoolOp)) or (isinstance(r, ast.UnaryOp) and isinstance(r.op, ast.Not)):
                                if all(store_count.get(x.id, 0) <= 1 for x in ast.walk(r) if isinstance(x, ast.Name)):
                                    return r
                        return n

                    def visit_Compare(self, n):
                        return n  # operands of a comparison are values, not flags

                    def visit_Call(self, n):
                        return n

                import copy as _copy

                return N().visit(_copy.deepcopy(t))

            for t, pol, at in facts:
                assert_(named(t, at), pol)
            changed = True
            while changed:
                changed = False
                for cl in list(clauses):
                    open_ = [(t, pol) for t, pol in cl if value_of(t, pol) is not False]
                    if any(value_of(t, pol) for t, pol in cl):
                        clauses.remove(cl)
                        continue
                    if len(open_) == 1:
                        clauses.remove(cl)
                        assert_(*open_[0])
                        changed = True
            return [t for t, pol in known.values() if pol]

        def guarded_by_branch(den, st):
            """`den` is a factor of a product P of quantities that are >= 0 by construction (norms, absolute
            values, square roots), and the statement sits in the body of `if P > Q` with Q >= 0 by construction
            or a non-negative constant: then P > 0, hence every factor of P is > 0."""
            if not isinstance(den, ast.Name):
                return None
            p_ = st
            if True:
                for t in true_atoms(facts_at(st)):
                    if isinstance(t, ast.Compare) and len(t.ops) == 1 and isinstance(t.ops[0], (ast.Gt, ast.Lt)):
                        big, small = (t.left, t.comparators[0]) if isinstance(t.ops[0], ast.Gt) else (t.comparators[0], t.left)
                        bigr, smallr = _resolve_at(big, p_, f.node, depth=1), _resolve_at(small, p_, f.node, depth=1)

                        def factors(e):
                            if isinstance(e, ast.BinOp) and isinstance(e.op, ast.Mult):
                                return factors(e.left) + factors(e.right)
                            return [e]

                        def nonneg(e):
                            if isinstance(e, ast.Constant):
                                return isinstance(e.value, (int, float)) and e.value >= 0
                            r = _resolve_at(e, p_, f.node)
                            if isinstance(r, ast.BinOp) and isinstance(r.op, ast.Mult):
                                return nonneg(r.left) and nonneg(r.right)
                            return isinstance(r, ast.Call) and _cn(r) in ("norm", "abs", "sqrt", "absolute")

                        fs = factors(bigr)
                        if any(isinstance(x, ast.Name) and x.id == den.id for x in fs) and all(nonneg(x) for x in fs) and nonneg(smallr):
                            return src(t)
            return None

        stmts = [st for st in ast.walk(f.node) if isinstance(st, ast.stmt) and not isinstance(st, (ast.If, ast.For, ast.While, ast.With, ast.Try, ast.FunctionDef))]
        for st in stmts:
            for d in ast.walk(st):
                den = None
                if isinstance(d, ast.BinOp) and isinstance(d.op, (ast.Div, ast.FloorDiv)):
                    den = d.right
                elif isinstance(d, ast.AugAssign) and isinstance(d.op, (ast.Div, ast.FloorDiv)):
                    den = d.value
                elif isinstance(d, ast.Call) and _cn(d) in ("divide", "true_divide") and len(d.args) >= 2:
                    den = d.args[1]
                if den is None:
                    continue
                if isinstance(den, ast.Constant):
                    continue
                n += 1
                full = _resolve_at(den, st, f.node)
                ok = _strictly_positive(full)
                branch = None
                if not ok:
                    branch = guarded_by_branch(den, st)
                    ok = branch is not None
                res.instance("DIV-GUARDED", f"{f.name}: / {src(den)[:40]}", sample={"denominator": src(full)[:100], "positive_under": branch, "ok": ok})
                if not ok:
                    ctx.finding("DIV-GUARDED", f, den, f"{f.name} divides by `{src(den)[:60]}` = `{src(full)[:100]}`, which is not bounded away from zero: for an exactly singular input (a zero eigenvalue / singular value) the quotient is 0/0 or x/0 and the returned singular vectors contain NaN / inf instead of an orthonormal completion", construct=f"{f.name}: / {src(den)[:50]} unguarded")
    if n == 0:
        raise AnalysisError("DIV-GUARDED: no division left in the SVD methods; the rule has nothing to decide (re-read symeig_svd)")


# ---------------------------------------------------------------------------------
# SCALE-RETURNED: the singular values that divide are the singular values that are returned
# ---------------------------------------------------------------------------------
def scale_returned(ctx: Ctx):
    from ..inline import with_inlined
    from .state import _resolve_at

    res = ctx.res
    f = with_inlined(ctx.repo, ctx.repo.func(S + "symeig_svd"), kinds=("nested",))
    rets = [r for r in own_scope_nodes(f.node) if isinstance(r, ast.Return) and isinstance(r.value, ast.Tuple) and len(r.value.elts) == 3]
    if not rets:
        raise AnalysisError("SCALE-RETURNED: symeig_svd no longer returns a triple; cannot decide")

    def base_name(e):
        """the local a returned component is taken from (through slices / flips / reshapes)"""
        for _ in range(6):
            if isinstance(e, ast.Subscript):
                e = e.value
            elif isinstance(e, ast.Call) and _cn(e) in ("flip", "reshape", "transpose", "copy") and e.args:
                e = e.args[0]
            else:
                break
        return e.id if isinstance(e, ast.Name) else None

    s_ret = base_name(_resolve_at(rets[0].value.elts[1], rets[0], f.node, depth=1))
    if s_ret is None:
        s_ret = base_name(rets[0].value.elts[1])
    if s_ret is None:
        raise AnalysisError("SCALE-RETURNED: the singular values returned by symeig_svd are not a local any more; cannot decide")
    n = 0
    for st in [x for x in ast.walk(f.node) if isinstance(x, ast.stmt) and not isinstance(x, (ast.If, ast.For, ast.While, ast.With, ast.Try, ast.FunctionDef))]:
        for d in ast.walk(st):
            if not (isinstance(d, ast.BinOp) and isinstance(d.op, ast.Div)):
                continue
            den = d.right
            while isinstance(den, ast.Call) and _cn(den) in ("reshape", "transpose", "copy") and den.args:
                den = den.args[0]
            if not isinstance(den, ast.Name):
                continue
            # only the divisions that produce singular vectors: numerator mentions eigenvectors / the matrix
            n += 1

            def strip(e):
                while isinstance(e, ast.Call) and _cn(e) in ("reshape", "transpose", "copy") and e.args:
                    e = e.args[0]
                return e

            want = _resolve_at(ast.Name(id=s_ret, ctx=ast.Load()), st, f.node, depth=1)
            got, ok = den, False
            for _ in range(4):  # through named temporaries (`S_row = reshape(S, (1, -1))`), one definition at a time
                if isinstance(got, ast.Name) and got.id == s_ret:
                    ok = True
                    break
                nxt = strip(_resolve_at(got, st, f.node, depth=1)) if isinstance(got, ast.Name) else got
                if ast.dump(nxt) == ast.dump(want):
                    ok = True
                    break
                if not isinstance(nxt, ast.Name) or (isinstance(got, ast.Name) and nxt.id == got.id):
                    got = nxt
                    break
                got = nxt
            res.instance("SCALE-RETURNED", f"symeig_svd: / {src(d.right)[:40]}", sample={"divisor": src(got)[:80], "returned_S": src(want)[:80], "ok": ok})
            if not ok:
                ctx.finding("SCALE-RETURNED", f, d, f"symeig_svd divides by `{src(d.right)[:50]}` = `{src(got)[:80]}` but returns the singular values `{s_ret}` = `{src(want)[:80]}`: where the two differ (singular values below sqrt(eps)) the component of U diag(S) V is scaled by their ratio, so the decomposition no longer reproduces the matrix (and tensor_train / tensor_ring built on it are not exact at full rank)", construct=f"symeig_svd: divisor {src(got)[:40]} is not the returned S")
    if n == 0:
        raise AnalysisError("SCALE-RETURNED: symeig_svd no longer divides by its singular values; cannot decide")


# ---------------------------------------------------------------------------------
# REORTH-EACH-STEP: the power iteration re-orthonormalises between products
# ---------------------------------------------------------------------------------
def reorth_each_step(ctx: Ctx):
    """typestate of the sample along the body of the power-iteration loop: a value is ORTH (it came out of
    qr) or carries the number of products with A / A^H applied since it last was; a product applied to a
    value that already carries one, or a value carried to the next pass that is not ORTH, is reported"""
    from ..inline import with_inlined

    res = ctx.res
    f = with_inlined(ctx.repo, ctx.repo.func(S + "randomized_range_finder"))
    loops = [lp for lp in own_scope_nodes(f.node) if isinstance(lp, (ast.For, ast.While)) and any(isinstance(c, ast.Call) and _cn(c) in ("dot", "matmul") for c in ast.walk(lp))]
    if not loops:
        raise AnalysisError("REORTH-EACH-STEP: randomized_range_finder has no power-iteration loop with a product any more; cannot decide")
    ORTH = 0
    n = 0
    for lp in loops:
        written = {x.id for st in lp.body for x in ast.walk(st) if isinstance(x, ast.Name) and isinstance(x.ctx, ast.Store)}
        env = {}
        problems = []

        def state(e):
            """number of products since the last orthonormalisation; None = not a sample (the matrix, options)"""
            if isinstance(e, ast.Name):
                if e.id in env:
                    return env[e.id]
                return ORTH if e.id in written else None  # a carried name enters the pass orthonormal (checked at the end)
            if isinstance(e, ast.Subscript):
                v = e.value
                if isinstance(v, ast.Call) and _cn(v) == "qr":
                    state(v.args[0]) if v.args else None
                    return ORTH
                if isinstance(v, ast.Name) and env.get(v.id) == "qr-pair":
                    return ORTH
                return state(v)
            if isinstance(e, ast.Call):
                nm = _cn(e)
                if nm == "qr":
                    if e.args:
                        state(e.args[0])
                    return "qr-pair"
                if nm in ("dot", "matmul") and len(e.args) >= 2:
                    sts = [state(a) for a in e.args[:2]]
                    k = [x for x in sts if isinstance(x, int)]
                    if not k:
                        return None
                    if max(k) >= 1:
                        problems.append((e, "a second product is applied to a sample that was not re-orthonormalised after the first"))
                    return max(k) + 1
                if e.args:
                    return state(e.args[0])  # conj / transpose / tensor / copy: same sample
                return None
            if isinstance(e, ast.BinOp) and isinstance(e.op, ast.MatMult):
                sts = [state(e.left), state(e.right)]
                k = [x for x in sts if isinstance(x, int)]
                if not k:
                    return None
                if max(k) >= 1:
                    problems.append((e, "a second product is applied to a sample that was not re-orthonormalised after the first"))
                return max(k) + 1
            return None

        def merge(other):
            for k in set(env) | set(other):
                a, b = env.get(k), other.get(k)
                ints = [x for x in (a, b) if isinstance(x, int)]
                env[k] = max(ints) if ints else (a if a == b else None)

        def run(block):
            for st in block:
                if isinstance(st, ast.Assign) and len(st.targets) == 1:
                    v = state(st.value)
                    t = st.targets[0]
                    if isinstance(t, ast.Name):
                        env[t.id] = v
                    elif isinstance(t, (ast.Tuple, ast.List)):
                        if v == "qr-pair" and t.elts and isinstance(t.elts[0], ast.Name):
                            env[t.elts[0].id] = ORTH
                            for x in t.elts[1:]:
                                if isinstance(x, ast.Name):
                                    env[x.id] = None
                        elif isinstance(st.value, (ast.Tuple, ast.List)) and len(st.value.elts) == len(t.elts):
                            vals = [state(x) for x in st.value.elts]
                            for x, vv in zip(t.elts, vals):
                                if isinstance(x, ast.Name):
                                    env[x.id] = vv
                        else:
                            for x in t.elts:
                                if isinstance(x, ast.Name):
                                    env[x.id] = None
                elif isinstance(st, ast.Expr):
                    state(st.value)
                elif isinstance(st, (ast.For, ast.While)):
                    # an inner loop (over the two operators, say): zero, one or more passes -- states only grow,
                    # two passes reach the fixed point of "products since the last qr" for a straight body
                    before = dict(env)
                    if isinstance(st, ast.For):
                        for x in ast.walk(st.target):
                            if isinstance(x, ast.Name):
                                env[x.id] = None  # an operator / index, not a sample
                    run(st.body)
                    run(st.body)
                    merge(before)
                elif isinstance(st, ast.If):
                    before = dict(env)
                    run(st.body)
                    after_body = dict(env)
                    env.clear()
                    env.update(before)
                    run(st.orelse)
                    merge(after_body)
                elif isinstance(st, (ast.With, ast.Try)):
                    raise AnalysisError("REORTH-EACH-STEP: the power-iteration loop of randomized_range_finder has nested control flow the rule does not follow; cannot decide")

        run(lp.body)
        # carried from one pass to the next: read in the body before the body writes it
        exposed, done = set(), set()
        for st in lp.body:
            exposed |= {x.id for x in ast.walk(st) if isinstance(x, ast.Name) and isinstance(x.ctx, ast.Load) and x.id not in done}
            done |= {x.id for x in ast.walk(st) if isinstance(x, ast.Name) and isinstance(x.ctx, ast.Store)}
        carried = sorted(nm for nm in written & exposed if isinstance(env.get(nm), int))
        for nm in carried:
            n += 1
            ok = env[nm] == ORTH
            res.instance("REORTH-EACH-STEP", f"randomized_range_finder: `{nm}` carried through the power iteration", sample={"products_since_orthonormalisation_at_end_of_pass": env[nm], "ok": ok and not problems})
            if not ok:
                problems.append((lp, f"`{nm}` is handed to the next pass after {env[nm]} product(s) without an orthonormalisation"))
        for node, why in problems[:2]:
            ctx.finding("REORTH-EACH-STEP", f, node, f"randomized_range_finder: {why}: in floating point the un-normalised sample collapses onto the dominant singular directions and the sketch loses the small singular values, so randomized_svd is not the best rank-k approximation even when rank + oversampling covers the matrix rank", construct="randomized_range_finder: sample not re-orthonormalised between products")
    if n == 0:
        raise AnalysisError("REORTH-EACH-STEP: no sample is carried through the power iteration of randomized_range_finder; cannot decide")


# ---------------------------------------------------------------------------------
# BRANCH-AGREE: sibling routes of one algorithm call their helpers with the same options
# ---------------------------------------------------------------------------------
def branch_agree(ctx: Ctx):
    from ..model import bind_call

    res = ctx.res
    f = ctx.repo.func(S + "randomized_svd")
    # every call of a routine of this module, with the branch decisions it sits under; statements after an
    # `if` whose body always leaves are under the negation of its test (guard clause)
    found = {}

    def leaves(block):
        return bool(block) and isinstance(block[-1], (ast.Return, ast.Raise))

    def scan(block, under):
        under = list(under)
        for st in block:
            if isinstance(st, ast.If):
                for c in ast.walk(st.test):
                    note(c, under)
                scan(st.body, under + [(id(st), True)])
                scan(st.orelse, under + [(id(st), False)])
                if leaves(st.body) and not st.orelse:
                    under = under + [(id(st), False)]
                elif st.orelse and leaves(st.orelse) and not leaves(st.body):
                    under = under + [(id(st), True)]
                continue
            if isinstance(st, (ast.For, ast.While, ast.With, ast.Try)):
                for fld in ("body", "orelse", "finalbody"):
                    scan(getattr(st, fld, []) or [], under)
                for h in getattr(st, "handlers", []) or []:
                    scan(h.body, under)
                for fld in ("iter", "test"):
                    if getattr(st, fld, None) is not None:
                        for c in ast.walk(getattr(st, fld)):
                            note(c, under)
                continue
            if isinstance(st, (ast.FunctionDef, ast.AsyncFunctionDef, ast.ClassDef)):
                continue
            for c in ast.walk(st):
                note(c, under)

    def note(c, under):
        if isinstance(c, ast.Call):
            ct = ctx.repo.resolve_call(f, f.module, c)
            if ct.kind == "repo" and len(ct.funcs) == 1 and ct.funcs[0].module is f.module:
                found.setdefault(ct.funcs[0].name, []).append((c, ct, tuple(under)))

    scan(f.node.body, [])
    if "randomized_range_finder" not in found:
        raise AnalysisError("BRANCH-AGREE: randomized_svd no longer calls randomized_range_finder; cannot decide")

    def exclusive(u1, u2):
        d1 = dict(u1)
        return any(k in d1 and d1[k] != v for k, v in u2)

    n = 0
    for name in sorted(found):
        sites = found[name]
        g = sites[0][1].funcs[0]
        first = g.pos_params[0] if g.pos_params else None
        if len(sites) == 1:
            n += 1
            res.instance("BRANCH-AGREE", f"randomized_svd: {name}: one call shared by all routes", sample={"call": src(sites[0][0])[:100], "ok": True})
            continue
        for i in range(len(sites)):
            for j in range(i + 1, len(sites)):
                (c1, ct1, u1), (c2, ct2, u2) = sites[i], sites[j]
                b1, b2 = bind_call(c1, g, ct1.bound), bind_call(c2, g, ct2.bound)
                for p_ in g.all_params:
                    if p_ == first:
                        continue
                    a1, a2 = b1.params.get(p_), b2.params.get(p_)
                    s1, s2 = (src(a1) if a1 is not None else "<default>"), (src(a2) if a2 is not None else "<default>")
                    n += 1
                    ok = s1 == s2
                    res.instance("BRANCH-AGREE", f"randomized_svd: {name}({p_}=...) L{c1.lineno}/L{c2.lineno}", sample={"one_route": s1, "other_route": s2, "ok": ok})
                    if not ok:
                        if not exclusive(u1, u2):
                            raise AnalysisError(f"BRANCH-AGREE: randomized_svd calls {name} twice on the same route with different {p_}; the rule compares alternative routes only; cannot decide")
                        ctx.finding("BRANCH-AGREE", f, c1, f"randomized_svd calls {name} with {p_}={s1} on one route and {p_}={s2} on the other: the two routes are the same algorithm applied to A^T and A, so the route taken (decided by the matrix shape) changes the accuracy / the result for the same request", construct=f"randomized_svd: {name} {p_}: {s1} vs {s2}")
    if n == 0:
        raise AnalysisError("BRANCH-AGREE: no routine of the module is called by randomized_svd; cannot decide")


def nonneg_option(ctx: Ctx):
    from ..absint import Const, Interp, Leaf, Sym, Tup
    from .c10 import ANYL, NN, Sign, anyd

    repo, res = ctx.repo, ctx.res
    f = repo.func(S + "make_svd_non_negative")
    need = ["tensor", "U", "S", "V", "nntype"]
    if [p for p in need if p not in f.all_params]:
        raise AnalysisError(f"NONNEG-OPTION: make_svd_non_negative no longer takes {need}")
    for label, nntype in (("nntype=True (nndsvda)", Const(True)), ("nndsvd", Const("nndsvd")), ("nndsvda", Const("nndsvda"))):
        dom = Sign(repo, (), ())
        it = Interp(repo, dom)
        it.decide_hook = dom.decide_test
        it.min_one_iter = dom.min_one_iter
        args = {"tensor": Sym(anyd("signed data")), "U": Sym(anyd("left singular vectors")), "S": Sym(NN), "V": Sym(anyd("right singular vectors")), "nntype": nntype}
        r = it.call_function(f, args)
        parts = r.ret.elts if isinstance(r.ret, Tup) else None
        if parts is None or len(parts) != 2:
            raise AnalysisError(f"NONNEG-OPTION: make_svd_non_negative [{label}] does not return a pair any more")
        for name, v in zip(("W", "H"), parts):
            d = getattr(v, "d", None)
            if d is None:
                raise AnalysisError(f"NONNEG-OPTION: returned {name} of make_svd_non_negative [{label}] is not an array value in the abstraction")
            ok = d[0] != ANYL
            res.instance("NONNEG-OPTION", f"make_svd_non_negative [{label}]: {name}", sample={"sign": "non-negative" if ok else "any", "ok": ok})
            if not ok:
                labs = sorted(d[1]) or ["(source not recorded)"]
                ctx.finding("NONNEG-OPTION", f, None, f"make_svd_non_negative [{label}] can return negative entries in `{name}`: it is not built from clipped / absolute-valued operands by sign-preserving operators. Signed source(s): {'; '.join(labs)}", construct=f"make_svd_non_negative [{label}] {name} <- {labs[0][:100]}", sources=labs)
    # svd_interface hands out exactly that pair
    g = repo.func(S + "svd_interface")
    ok = False
    nn_assigns = [b_ for b_ in own_scope_nodes(g.node) if isinstance(b_, ast.Assign) and isinstance(b_.value, ast.Call) and _cn(b_.value) == "make_svd_non_negative"]
    if len(nn_assigns) == 1 and isinstance(nn_assigns[0].targets[0], ast.Tuple) and len(nn_assigns[0].targets[0].elts) == 2 and all(isinstance(e, ast.Name) for e in nn_assigns[0].targets[0].elts):
        b_ = nn_assigns[0]
        w_name, h_name = (e.id for e in b_.targets[0].elts)
        # guarded by the option: inside `if <test on non_negative>` or after `if <test on non_negative>: return`
        guarded = False
        par = {}
        for n_ in ast.walk(g.node):
            for c_ in ast.iter_child_nodes(n_):
                par[id(c_)] = n_
        p_ = par.get(id(b_))
        while p_ is not None and p_ is not g.node:
            if isinstance(p_, ast.If) and "non_negative" in src(p_.test):
                guarded = True
            p_ = par.get(id(p_))
        for s_ in g.node.body:
            if isinstance(s_, ast.If) and "non_negative" in src(s_.test) and s_.lineno < b_.lineno and s_.body and isinstance(s_.body[-1], ast.Return) and not s_.orelse:
                guarded = True
        later = [n_ for n_ in ast.walk(g.node) if isinstance(n_, ast.stmt) and n_.lineno > b_.lineno]
        rebinding = [n_ for n_ in later if isinstance(n_, (ast.Assign, ast.AugAssign)) and any(isinstance(t_, ast.Name) and t_.id in (w_name, h_name) for tt in (n_.targets if isinstance(n_, ast.Assign) else [n_.target]) for t_ in ast.walk(tt))]
        rets = [n_ for n_ in later if isinstance(n_, ast.Return)]
        ok = guarded and not rebinding and len(rets) == 1 and isinstance(rets[0].value, ast.Tuple) and len(rets[0].value.elts) == 3 and src(rets[0].value.elts[0]) == w_name and src(rets[0].value.elts[2]) == h_name
    res.instance("NONNEG-OPTION", "svd_interface: the non-negative pair is what is returned", sample={"ok": ok})
    if not ok:
        ctx.finding("NONNEG-OPTION", g, g.node, "svd_interface no longer returns exactly the pair produced by make_svd_non_negative when the non-negative option is on (it is re-bound, post-processed or not requested)", construct="svd_interface: non-negative pair not returned as is")


# ---------------------------------------------------------------------------------
# DECIDING-ENTRY: the sign of a singular pair is that of its largest-magnitude entry
# ---------------------------------------------------------------------------------
def deciding_entry(ctx: Ctx):
    """Per branch of svd_flip: `signs = sign(<entries D[i, j]>)` where one index comes from
    argmax(abs(D), axis=a) and the other enumerates the remaining axis.
      * the argmax-derived index must sit at position a of D[i, j] (an index *into* axis a),
        the enumerated one must be range(shape(D)[1 - a]);
      * per-column signs (a == 0) multiply D as `D * signs`, per-row signs (a == 1) as
        `D * signs[:, None]`;
      * a sign argument that adds / subtracts data entries can vanish for a non-zero vector
        (sign 0 annihilates the singular pair in U and V)."""
    from ..common import inline_locals

    from ..inline import with_inlined

    res = ctx.res
    f = with_inlined(ctx.repo, ctx.repo.func(S + "svd_flip"))
    cn = _cn

    for label, path, fn in _decision_paths(f, "DECIDING-ENTRY"):
        nodes = [n for s in path for n in ast.walk(s)]
        sign_defs = [n for n in nodes if isinstance(n, ast.Assign) and isinstance(n.value, ast.Call) and cn(n.value) == "sign" and n.value.args]
        if not sign_defs:
            raise AnalysisError(f"DECIDING-ENTRY: no sign vector in the {label} branch")
        d = sign_defs[0]
        signs = _sign_vectors(nodes)
        arg = inline_locals(fn, d.value.args[0])
        inner = arg
        while isinstance(inner, ast.Call) and cn(inner) in ("tensor", "array", "asarray") and inner.args:
            inner = inner.args[0]
        # arithmetic on data entries can cancel
        if any(isinstance(n, ast.BinOp) and isinstance(n.op, (ast.Add, ast.Sub)) for n in ast.walk(inner)) and not isinstance(inner, (ast.ListComp, ast.GeneratorExp)):
            res.instance("DECIDING-ENTRY", f"svd_flip [{label}]: {src(d)[:60]}", sample={"kind": "arithmetic", "ok": False})
            ctx.finding("DECIDING-ENTRY", f, d, f"svd_flip [{label}]: `{src(d)[:90]}` takes the sign of a sum / difference of entries, which is 0 for a non-zero vector whose extreme entries cancel: the sign vector then annihilates that singular pair in both U and V (the product changes) -- take the sign of the largest-magnitude entry itself", construct=f"svd_flip [{label}]: sign of an arithmetic combination")
            continue
        if not isinstance(inner, (ast.ListComp, ast.GeneratorExp)) or len(inner.generators) != 1:
            raise AnalysisError(f"DECIDING-ENTRY: the sign argument of the {label} branch is not a selection of entries the rule recognises (`{src(arg)[:60]}`); cannot decide")
        g = inner.generators[0]
        elt = inner.elt
        zipped = None
        if isinstance(g.iter, ast.Call) and cn(g.iter) == "zip" and len(g.iter.args) == 2 and not g.iter.keywords:
            zipped = list(g.iter.args)
        elif isinstance(g.iter, ast.Call) and cn(g.iter) == "enumerate" and len(g.iter.args) == 1 and not g.iter.keywords:
            zipped = ["enumerate", g.iter.args[0]]  # enumerate(x) == zip(range(len(x)), x)
        if not (isinstance(elt, ast.Subscript) and isinstance(elt.value, ast.Name) and isinstance(elt.slice, ast.Tuple) and len(elt.slice.elts) == 2 and zipped is not None and isinstance(g.target, ast.Tuple) and len(g.target.elts) == 2) or g.ifs:
            raise AnalysisError(f"DECIDING-ENTRY: the selection in the {label} branch is not `[D[i, j] for (i, j) in zip(a, b) / enumerate(a)]`; cannot decide")
        D = elt.value.id
        tnames = [e.id if isinstance(e, ast.Name) else None for e in g.target.elts]
        idx_pos = {}
        for pos, e in enumerate(elt.slice.elts):
            if isinstance(e, ast.Name) and e.id in tnames:
                idx_pos[tnames.index(e.id)] = pos  # zip argument number -> position in D[., .]
        info = {}
        for k, a in enumerate(zipped):
            if a == "enumerate":
                info[k] = ("range", "len", True)
                continue
            a = inline_locals(fn, a)
            if isinstance(a, ast.Call) and cn(a) == "argmax":
                c = a
                ax = next((kw.value.value for kw in c.keywords if kw.arg == "axis" and isinstance(kw.value, ast.Constant)), None)
                if ax is None and len(c.args) > 1 and isinstance(c.args[1], ast.Constant):
                    ax = c.args[1].value
                m = c.args[0] if c.args else None
                over_abs = isinstance(m, ast.Call) and cn(m) == "abs" and m.args and is_name(m.args[0], D)
                info[k] = ("argmax", ax, over_abs)
            elif isinstance(a, ast.Call) and cn(a) == "range" and len(a.args) == 1:
                r = a.args[0]
                if isinstance(r, ast.Subscript) and isinstance(r.value, ast.Call) and cn(r.value) == "shape" and r.value.args and is_name(r.value.args[0], D) and isinstance(r.slice, ast.Constant):
                    info[k] = ("range", r.slice.value, True)
                elif isinstance(r, ast.Call) and cn(r) == "len" and r.args:
                    info[k] = ("range", ("lenof", src(r.args[0])), True)
        am = [k for k, v in info.items() if v[0] == "argmax"]
        rg = [k for k, v in info.items() if v[0] == "range"]
        if len(am) != 1 or len(rg) != 1 or set(idx_pos) != {0, 1}:
            raise AnalysisError(f"DECIDING-ENTRY: the {label} selection does not pair one argmax with one range(shape({D})[k]); cannot decide")
        ax, over_abs = info[am[0]][1], info[am[0]][2]
        rk = info[rg[0]][1]
        if rk == "len" or (isinstance(rk, tuple) and rk[1] == src(zipped[am[0]])):
            rk = 1 - ax if ax in (0, 1) else None  # as many positions as the arg-max vector has entries
        elif isinstance(rk, tuple):
            raise AnalysisError(f"DECIDING-ENTRY: the {label} selection enumerates range(len({rk[1]})); cannot decide")
        # broadcast of the sign vector onto D (assignment or returned product)
        per = None
        for n in nodes:
            if isinstance(n, ast.BinOp) and isinstance(n.op, ast.Mult):
                for side, other in ((n.left, n.right), (n.right, n.left)):
                    sb, subs = _sign_based(side, signs)
                    if sb and is_name(other, D):
                        last = subs[0] if subs else None
                        if last is None:
                            per = 0  # D * signs: one sign per column
                        elif isinstance(last, ast.Tuple) and len(last.elts) == 2 and isinstance(last.elts[1], ast.Constant) and last.elts[1].value is None:
                            per = 1  # D * signs[:, None]: one sign per row
                        elif isinstance(last, ast.Slice):
                            per = 0
        problems = []
        if not over_abs:
            problems.append(f"the arg-max is not taken over abs({D})")
        if ax not in (0, 1):
            problems.append("the arg-max axis is not a literal 0 / 1")
        else:
            if idx_pos[am[0]] != ax:
                problems.append(f"argmax(..., axis={ax}) yields indices INTO axis {ax} of {D}, but they are used as the index of axis {idx_pos[am[0]]}")
            if rk != 1 - ax:
                problems.append(f"argmax over axis {ax} gives one index per position of axis {1 - ax}, but it is paired with range(shape({D})[{rk}])")
            if per is not None and per != ax:
                problems.append(f"the signs are applied per {'column' if per == 0 else 'row'} of {D} but decided per {'column' if ax == 0 else 'row'}")
        ok = not problems
        res.instance("DECIDING-ENTRY", f"svd_flip [{label}]: {src(d)[:50]}", sample={"deciding_matrix": D, "argmax_axis": ax, "argmax_index_position": idx_pos.get(am[0]), "range_axis": rk, "applied_per": {0: "column", 1: "row", None: None}[per], "ok": ok})
        if not ok:
            ctx.finding("DECIDING-ENTRY", f, d, f"svd_flip [{label}]: " + "; ".join(problems) + f": the sign of each deciding vector is then taken from an entry that is not its largest-magnitude one, so the advertised sign convention does not hold", construct=f"svd_flip [{label}]: " + problems[0][:80])
