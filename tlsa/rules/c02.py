"""C02 — multilinear products under both tenalg backends (partial: structural clauses).

REGISTRY     dispatch table == core registrations == einsum registrations; every
             registered object resolves to a function definition
SIG-AGREE    core and einsum implementations are call-compatible
CALL-BINDS   every call whose callee resolves to a repo function binds to its signature
OPTION-LIVE  every option of a tenalg operation influences every return path
"""

from __future__ import annotations

import ast

from ..common import Ctx, call_name, inline_locals, src
from ..model import AnalysisError, bind_call, own_scope_nodes
from ..cfg import names_in

KNOWN_DECORATORS = {"staticmethod", "classmethod", "property", "contextmanager"}

# extra option roots: a component unpacked from a parameter
UNPACKED_OPTIONS = {"cp_tensor": 0}  # weights = first component of cp_tensor

EXTRA_OPS = [
    "tensorly.tenalg.core_tenalg.mttkrp.unfolding_dot_khatri_rao_memory",
    "tensorly.decomposition._cp.sample_khatri_rao",
]


def run(ctx: Ctx):
    repo, res = ctx.repo, ctx.res
    res.rule("REGISTRY", "TenalgBackendManager._functions, the core registrations and the einsum registrations name the same operations and each registered object is a function definition", floor=11)
    res.rule("SIG-AGREE", "for every dispatched operation the core and einsum definitions have the same parameters in the same order with the same defaults", floor=11)
    res.rule("CALL-BINDS", "every call site whose callee resolves to a repository function binds to that function's signature (arity, keywords, required parameters)", floor=400)
    res.rule("OPTION-LIVE", "every optional parameter of a tenalg operation (and the weights component of cp_tensor) influences every return by data or control dependence (may-dependence: can miss, cannot over-report)", floor=25)
    res.assume(
        "NOT decided: that each einsum equation / reshape chain equals the textbook index formula",
        "decorated functions other than staticmethod/classmethod/property/contextmanager are skipped by CALL-BINDS (their signature may be changed by the decorator)",
    )
    ctx.guarded(registry, ctx)
    ctx.guarded(sig_agree, ctx)
    ctx.guarded(call_binds, ctx)
    ctx.guarded(option_live, ctx)
    res.rule("SKIP-INDEX", "in khatri_rao / kronecker (both backends) and sample_khatri_rao the filter that drops index skip_matrix iterates over the list parameter as given (not re-ordered or re-built before)", floor=5)
    ctx.guarded(skip_index, ctx)
    from .homog import run_homogeneity

    res.rule("HOMOGENEITY", "dimensional analysis of MTTKRP (core, einsum and memory-efficient variants): the result is homogeneous of degree 1 in the tensor, 1 in the weights when given, and 1 in every factor except the skipped mode", floor=6)
    ctx.guarded(run_homogeneity, ctx, "HOMOGENEITY", ("tensorly.tenalg.",))
    from .family import run_family

    res.rule("AXIS-FAMILY", "tensordot (core, einsum) and _validate_contraction_modes: an axis number of one tensor is only combined (indexing, membership, negative-axis normalisation, transpose) with the shape / ndim / axis lists of the same tensor", floor=20)
    ctx.guarded(run_family, ctx, "AXIS-FAMILY")
    from .lineq import broadcast_arity

    res.rule("CONJ-AGREE", "sibling agreement on conjugation: a tenalg routine implemented by both backends (core and einsum) conjugates an operand in one implementation if and only if it does in the other (reading through the routines of the same backend it delegates to): for complex operands `transpose=True` means the conjugate transpose and MTTKRP contracts with the conjugated factors, in every backend", floor=8)
    ctx.guarded(conj_agree, ctx)
    res.rule("BROADCAST-ARITY", "core outer / batched_outer: at every broadcast product reshape(a, s1) * reshape(b, s2) the two target shapes have the same number of entries in every loop iteration -- decided with an affine-relation (Karr) analysis over integer locals, tuple lengths and array ranks (first iteration peeled, loop iterated to a fixpoint)", floor=2)
    ctx.guarded(broadcast_arity, ctx, "BROADCAST-ARITY")
    res.rule("INDEX-WIDTH", "sample_khatri_rao: the mixed-radix accumulation of the sampled row index (acc = acc * size + index) starts from an integer array of an explicitly wide type (dtype=int / int64), not from a Python scalar or from the caller's index arrays: otherwise the row index inherits a narrow integer type and wraps around for large products of row counts", floor=1)
    ctx.guarded(index_width, ctx)


def registry(ctx: Ctx):
    repo, res = ctx.repo, ctx.res
    table = list(repo.tenalg_names)
    tm = repo.module("tensorly.tenalg")
    for be in ("core", "einsum"):
        mod = repo.module(f"tensorly.tenalg.{be}_tenalg")
        regn = repo.tenalg_registered[be]
        impl = repo.tenalg_impls[be]
        for nm in table:
            res.instance("REGISTRY", f"{be}:{nm}", sample={"registered": nm in regn, "resolves": impl[nm].qname if nm in impl else None})
            if nm not in regn:
                ctx.finding("REGISTRY", mod, None, f"operation `{nm}` of the dispatch table is not registered by the {be} backend: tenalg.{nm} raises AttributeError when that backend is selected", construct=f"{be}: missing register_method('{nm}', ...)")
            elif nm not in impl:
                ctx.finding("REGISTRY", mod, regn[nm], f"the object registered as `{nm}` by the {be} backend does not resolve to a function definition", construct=f"{be}: register_method('{nm}', {src(regn[nm])})")
        for nm in regn:
            if nm not in table:
                ctx.finding("REGISTRY", tm, regn[nm], f"`{nm}` is registered by the {be} backend but missing from TenalgBackendManager._functions: it is never dispatched", construct=f"{be}: register_method('{nm}', ...) not in _functions")
    if len(set(table)) != len(table):
        ctx.finding("REGISTRY", tm, None, "duplicate names in TenalgBackendManager._functions", construct="_functions duplicates")


def _sig(f):
    d = f.defaults
    return (
        tuple(f.pos_params),
        tuple(f.kwonly_params),
        f.vararg is not None,
        f.kwarg is not None,
        tuple(sorted((k, ast.dump(v)) for k, v in d.items())),
    )


def sig_agree(ctx: Ctx):
    repo, res = ctx.repo, ctx.res
    for nm in repo.tenalg_names:
        a = repo.tenalg_impls["core"].get(nm)
        b = repo.tenalg_impls["einsum"].get(nm)
        if a is None or b is None:
            continue
        sa, sb = _sig(a), _sig(b)
        res.instance("SIG-AGREE", nm, sample={"core": f"{a.name}{ast.unparse(a.args)}", "einsum": f"{b.name}{ast.unparse(b.args)}"})
        if sa != sb:
            ctx.finding("SIG-AGREE", b, b.node, f"`{nm}`: core signature ({ast.unparse(a.args)}) and einsum signature ({ast.unparse(b.args)}) differ: a caller written against one backend binds differently (or not at all) under the other", construct=f"{nm}({ast.unparse(b.args)}) vs core ({ast.unparse(a.args)})")


def call_binds(ctx: Ctx):
    repo, res = ctx.repo, ctx.res
    resolved = unresolved = 0
    for fi in repo.iter_functions() + [None]:
        if fi is None:
            continue
        for n in own_scope_nodes(fi.node):
            if not isinstance(n, ast.Call):
                continue
            ct = repo.resolve_call(fi, fi.module, n)
            if ct.kind in ("unknown", "method", "local"):
                unresolved += 1
                continue
            resolved += 1
            if ct.kind != "repo":
                continue
            for callee in ct.funcs:
                if any(d not in KNOWN_DECORATORS for d in callee.decorators):
                    continue
                bound = ct.bound
                b = bind_call(n, callee, bound)
                res.instance("CALL-BINDS", f"{fi.qname}->{callee.qname}@{src(n)[:60]}", nontrivial=True, sample={"call": src(n)[:100], "callee": callee.qname} if callee.name in ("batched_outer", "khatri_rao") else None)
                if not b.ok:
                    ctx.finding("CALL-BINDS", fi, n, f"call does not bind to {callee.qname}({ast.unparse(callee.args)}): {'; '.join(b.problems)} -- this call raises TypeError whenever it is reached", construct=f"{src(n)} -> {callee.qname}")
    res.stats["calls_resolved"] = resolved
    res.stats["calls_unresolved"] = unresolved


# ---------------------------------------------------------------------------------
# OPTION-LIVE
# ---------------------------------------------------------------------------------
ABRUPT = (ast.Return, ast.Raise, ast.Break, ast.Continue)


def _has_abrupt(stmts):
    for s in stmts:
        for n in ast.walk(s):
            if isinstance(n, ABRUPT):
                return True
    return False


def _target_names(t):
    out = set()
    for n in ast.walk(t):
        if isinstance(n, ast.Name):
            out.add(n.id)
            break_ = False
    # for subscripts/attributes the base name is what gets (partly) redefined
    if isinstance(t, (ast.Subscript, ast.Attribute)):
        b = t
        while isinstance(b, (ast.Subscript, ast.Attribute)):
            b = b.value
        return {b.id} if isinstance(b, ast.Name) else set()
    if isinstance(t, (ast.Tuple, ast.List)):
        out = set()
        for e in t.elts:
            out |= _target_names(e)
        return out
    if isinstance(t, ast.Starred):
        return _target_names(t.value)
    if isinstance(t, ast.Name):
        return {t.id}
    return set()


def dependent_returns(fnode, roots, seeds=None):
    """Flow-sensitive may-dependence over the structured AST.

    Walks the statements in order carrying the set of names that may depend (by data or
    by control) on the option; plain-name assignments are strong updates.  Returns
    (names ever tainted, [return statements not influenced by the option]).
    """
    ever = set(roots)
    bad = {}
    seeds = seeds or {}

    def mentions(e, T):
        return e is not None and bool(names_in(e) & T)

    def ends_abruptly(stmts):
        return bool(stmts) and isinstance(stmts[-1], ABRUPT)

    def assign(targets, dep, T):
        for t in targets:
            if isinstance(t, ast.Name):
                if dep:
                    T.add(t.id)
                else:
                    T.discard(t.id)
            else:
                if dep:
                    T.update(_target_names(t))
                elif isinstance(t, (ast.Tuple, ast.List)):
                    assign(list(t.elts), dep, T)

    def block(stmts, T, flag):
        """-> (T_out, sticky): ``sticky`` is True when, inside this block, an abrupt exit
        (return / raise / break / continue) happened under option-dependent control, so that
        everything executed afterwards is control-dependent on the option too."""
        sticky = False
        for s in stmts:
            if isinstance(s, (ast.FunctionDef, ast.AsyncFunctionDef, ast.ClassDef)):
                continue
            cur_flag = flag or sticky
            if isinstance(s, ast.If):
                f2 = cur_flag or mentions(s.test, T)
                T1, a = block(s.body, set(T), f2)
                T2, b = block(s.orelse, set(T), f2)
                outs = []
                if not ends_abruptly(s.body):
                    outs.append(T1)
                if not ends_abruptly(s.orelse):
                    outs.append(T2)
                T = set().union(*outs) if outs else set(T)
                if (f2 and (_has_abrupt(s.body) or _has_abrupt(s.orelse))) or a or b:
                    sticky = True
                continue
            if isinstance(s, (ast.For, ast.AsyncFor, ast.While)):
                is_for = not isinstance(s, ast.While)
                cur = set(T)
                lsticky = False
                for _ in range(12):
                    f2 = cur_flag or lsticky or mentions(s.iter if is_for else s.test, cur)
                    Tb = set(cur)
                    if is_for:
                        assign([s.target], f2, Tb)
                    Tb, a = block(s.body, Tb, f2)
                    lsticky = lsticky or a or (f2 and _has_abrupt(s.body))
                    new = cur | Tb
                    if new == cur:
                        break
                    cur = new
                T = cur
                T, b = block(s.orelse, T, cur_flag or lsticky)
                if lsticky or b:
                    sticky = True
                continue
            if isinstance(s, ast.Try):
                T0 = set(T)
                T, a = block(s.body, T, cur_flag)
                for h in s.handlers:
                    Th, ah = block(h.body, set(T0) | set(T), cur_flag)
                    T |= Th
                    a = a or ah
                T, b = block(s.orelse, T, cur_flag)
                T, c = block(s.finalbody, T, cur_flag)
                sticky = sticky or a or b or c
                continue
            if isinstance(s, (ast.With, ast.AsyncWith)):
                for it in s.items:
                    if it.optional_vars is not None:
                        assign([it.optional_vars], cur_flag or mentions(it.context_expr, T), T)
                T, a = block(s.body, T, cur_flag)
                sticky = sticky or a
                continue
            if isinstance(s, ast.Assign):
                assign(s.targets, cur_flag or mentions(s.value, T), T)
                if id(s) in seeds:
                    T.update(seeds[id(s)])
            elif isinstance(s, ast.AugAssign):
                if cur_flag or mentions(s.value, T) or mentions(s.target, T):
                    T.update(_target_names(s.target))
            elif isinstance(s, ast.AnnAssign):
                if s.value is not None:
                    assign([s.target], cur_flag or mentions(s.value, T), T)
            elif isinstance(s, ast.Expr):
                v = s.value
                if isinstance(v, ast.Call) and isinstance(v.func, ast.Attribute):
                    # receiver.method(args): the receiver absorbs its arguments
                    if cur_flag or any(mentions(a, T) for a in v.args) or any(mentions(k.value, T) for k in v.keywords):
                        T.update(_target_names(v.func.value))
            elif isinstance(s, ast.Return):
                ok = cur_flag or mentions(s.value, T)
                bad[id(s)] = (s, bad[id(s)][1] and not ok) if id(s) in bad else (s, not ok)
            ever.update(T)
        return T, sticky

    block(fnode.body, set(roots), False)
    return ever, [s for s, isbad in bad.values() if isbad]


def skip_index(ctx: Ctx):
    """`skip_matrix=k` must skip the k-th matrix *as given*: the filter that drops index k
    iterates over the list parameter itself, not over a re-ordered / re-built list."""
    repo, res = ctx.repo, ctx.res
    funcs = []
    for nm in ("khatri_rao", "kronecker"):
        for be in ("core", "einsum"):
            f = repo.tenalg_impls[be].get(nm)
            if f is not None:
                funcs.append(f)
    funcs.append(repo.func("tensorly.decomposition._cp.sample_khatri_rao"))
    for f in funcs:
        if "skip_matrix" not in f.all_params:
            raise AnalysisError(f"SKIP-INDEX: {f.qname} lost its skip_matrix option")
        lst = f.pos_params[0]
        filters = []

        def is_filter(v):
            if isinstance(v, ast.ListComp) and len(v.generators) == 1:
                g = v.generators[0]
                return any(isinstance(c, ast.Compare) and "skip_matrix" in names_in(c) for c in g.ifs)
            return False

        reassigned = [False]
        found = []

        def walk(stmts, dirty):
            for st in stmts:
                if isinstance(st, ast.Assign):
                    if is_filter(st.value):
                        src_names = names_in(st.value.generators[0].iter) | {n.id for n in ast.walk(st.value.elt) if isinstance(n, ast.Name)}
                        found.append((st, dirty, lst in src_names))
                    if any(is_name_(t, lst) for t in st.targets):
                        dirty = True
                elif isinstance(st, ast.AugAssign) and is_name_(st.target, lst):
                    dirty = True
                elif isinstance(st, ast.Expr) and isinstance(st.value, ast.Call) and isinstance(st.value.func, ast.Attribute) and is_name_(st.value.func.value, lst) and st.value.func.attr in ("reverse", "sort", "append", "insert", "pop", "remove", "extend"):
                    dirty = True
                elif isinstance(st, ast.If):
                    a = walk(st.body, dirty)
                    b = walk(st.orelse, dirty)
                    dirty = a or b
                elif isinstance(st, (ast.For, ast.While, ast.With, ast.Try)):
                    dirty = walk(getattr(st, "body", []), dirty) or dirty
            return dirty

        walk(f.node.body, False)
        if not found:
            raise AnalysisError(f"SKIP-INDEX: the skip_matrix filter vanished from {f.qname}")
        for st, dirty, uses_param in found:
            ok = uses_param and not dirty
            res.instance("SKIP-INDEX", f"{f.qname}: {src(st)[:70]}", sample={"filters_the_parameter": uses_param, "parameter_rebuilt_before": dirty})
            if not ok:
                ctx.finding("SKIP-INDEX", f, st, f"`skip_matrix` is applied to `{lst}` after it was re-ordered / re-built (or to another list): skip_matrix=k no longer skips the k-th matrix the caller passed", construct=f"{src(st)[:90]} on a modified `{lst}`")


def is_name_(n, name):
    return isinstance(n, ast.Name) and n.id == name


# an option that has no meaning on a path selected by the kind of the operand: (operation, option) -> test
IRRELEVANT = {
    # transposing / conjugating a 1-D operand is the identity: `transpose` is meaningless in the vector branch
    ("mode_dot", "transpose"): ("ndim", 1),
}


def _irrelevant_by_design(f, oname, ret) -> bool:
    """the return is control-dependent on `ndim(<operand>) == 1` (written inline or through a local)"""
    spec = IRRELEVANT.get((f.name, oname))
    if spec is None:
        return False
    prim, val = spec
    # statements that enclose the return
    parents = {}
    for p in ast.walk(f.node):
        for c in ast.iter_child_nodes(p):
            parents[c] = p
    cur = ret
    while cur in parents:
        p = parents[cur]
        if isinstance(p, ast.If) and any(cur is b or any(cur is x for x in ast.walk(b)) for b in p.body):
            t = inline_locals(f.node, p.test)
            if isinstance(t, ast.Compare) and len(t.ops) == 1 and isinstance(t.ops[0], ast.Eq) and isinstance(t.comparators[0], ast.Constant) and t.comparators[0].value == val and isinstance(t.left, ast.Call) and (getattr(t.left.func, "attr", None) == prim or getattr(t.left.func, "id", None) == prim):
                return True
        cur = p
    return False


def option_live(ctx: Ctx):
    repo, res = ctx.repo, ctx.res
    ops = []
    for nm in repo.tenalg_names:
        for be in ("core", "einsum"):
            f = repo.tenalg_impls[be].get(nm)
            if f is not None:
                ops.append((f"{be}:{nm}", f))
    for q in EXTRA_OPS:
        ops.append((q.rsplit(".", 1)[1], repo.func(q)))
    for label, f in ops:
        opts = []
        for p in f.all_params:
            if p in f.defaults:
                opts.append((p, {p}, None))
        for p, idx in UNPACKED_OPTIONS.items():
            if p in f.all_params:
                # <a>, <b> = p   -> option root is the idx-th target
                for s in own_scope_nodes(f.node):
                    if isinstance(s, ast.Assign) and isinstance(s.value, ast.Name) and s.value.id == p and isinstance(s.targets[0], ast.Tuple):
                        t = s.targets[0].elts[idx]
                        if isinstance(t, ast.Name):
                            opts.append((f"{p}.{t.id}", set(), {id(s): {t.id}}))
        for oname, roots, seeds in opts:
            tainted, bad = dependent_returns(f.node, roots, seeds)
            res.instance("OPTION-LIVE", f"{f.qname}:{oname}", sample={"option": oname, "influenced_names": sorted(tainted)[:12], "dead_returns": [src(b) for b in bad]})
            for r in bad:
                if _irrelevant_by_design(f, oname, r):
                    continue
                ctx.finding("OPTION-LIVE", f, r, f"this return path of `{f.name}` is not influenced by the option `{oname}` in any way: the option is silently ignored on this path", construct=f"{src(r)} ignores {oname}")


# ---------------------------------------------------------------------------------
# INDEX-WIDTH: the flattened row index is accumulated in a wide integer type
# ---------------------------------------------------------------------------------
def index_width(ctx: Ctx):
    from .state import _resolve_at

    res = ctx.res
    f = ctx.repo.func("tensorly.decomposition._cp.sample_khatri_rao")
    n = 0
    for st in ast.walk(f.node):
        # acc = acc * size + idx  (in any operand order), also as acc *= size; acc += idx is not recognised on purpose
        if not (isinstance(st, ast.Assign) and len(st.targets) == 1 and isinstance(st.targets[0], ast.Name) and isinstance(st.value, ast.BinOp) and isinstance(st.value.op, ast.Add)):
            continue
        acc = st.targets[0].id
        sides = [st.value.left, st.value.right]
        mul = next((x for x in sides if isinstance(x, ast.BinOp) and isinstance(x.op, ast.Mult) and any(isinstance(y, ast.Name) and y.id == acc for y in (x.left, x.right))), None)
        if mul is None:
            continue
        n += 1
        # the definition of acc that reaches the loop containing this statement
        loop = None
        par = {}
        for p_ in ast.walk(f.node):
            for c_ in ast.iter_child_nodes(p_):
                par[id(c_)] = p_
        cur = st
        while id(cur) in par:
            cur = par[id(cur)]
            if isinstance(cur, (ast.For, ast.While)):
                loop = cur
                break
        init = _resolve_at(ast.Name(id=acc, ctx=ast.Load()), loop if loop is not None else st, f.node, depth=1)
        wide = False
        why = src(init)[:60]
        if isinstance(init, ast.Call) and call_name(init) in ("zeros", "zeros_like", "full", "ones", "empty", "arange", "array", "asarray"):
            dt = next((k.value for k in init.keywords if k.arg == "dtype"), None)
            dts = src(dt) if dt is not None else ""
            wide = dts in ("int", "np.int64", "'int64'", "numpy.int64", "np.intp", "tl.int64", "T.int64") or dts.endswith("int64")
        res.instance("INDEX-WIDTH", f"{f.qname}: {src(st)[:60]}", sample={"accumulator": acc, "starts_from": why, "ok": wide})
        if not wide:
            ctx.finding("INDEX-WIDTH", f, st, f"sample_khatri_rao accumulates the sampled row index in `{acc}`, which starts from `{why}`: the index then takes the integer type of the caller's index arrays (a Python scalar is weakly typed) and wraps around once the product of the row counts exceeds that type's range; allocate it with an explicit wide integer dtype", construct=f"sample_khatri_rao: {acc} starts from {why}")
    if n == 0:
        raise AnalysisError("INDEX-WIDTH: no mixed-radix accumulation (acc = acc * size + index) found in sample_khatri_rao; cannot decide")


# ---------------------------------------------------------------------------------
# CONJ-AGREE: the two backends conjugate the same routines
# ---------------------------------------------------------------------------------
def conj_agree(ctx: Ctx):
    import ast

    from ..common import call_name, src
    from ..model import AnalysisError, own_scope_nodes

    repo, res = ctx.repo, ctx.res
    impls = repo.tenalg_impls
    core, ein = impls.get("core", {}), impls.get("einsum", {})
    common = sorted(set(core) & set(ein))
    if not common:
        raise AnalysisError("CONJ-AGREE: no routine is implemented by both tenalg backends; cannot decide")

    def conjugates(f, seen=None, depth=0):
        """does f (or a same-package routine it calls, two levels deep) apply conj?"""
        seen = seen or set()
        if f.qname in seen or depth > 2:
            return []
        seen.add(f.qname)
        out = [c for c in own_scope_nodes(f.node) if isinstance(c, ast.Call) and (call_name(c) or "") in ("conj", "conjugate")]
        pkg = f.module.name.rsplit(".", 1)[0]
        for c in own_scope_nodes(f.node):
            if isinstance(c, ast.Call):
                ct = repo.resolve_call(f, f.module, c)
                if ct.kind == "repo":
                    for g in ct.funcs[:2]:
                        if g.module.name.startswith(pkg) and g is not f:
                            out += conjugates(g, seen, depth + 1)
        return out

    n = 0
    for name in common:
        a, b = conjugates(core[name]), conjugates(ein[name])
        n += 1
        ok = bool(a) == bool(b)
        res.instance("CONJ-AGREE", f"{name}: core / einsum", sample={"core_conjugates": bool(a), "einsum_conjugates": bool(b), "ok": ok})
        if not ok:
            have, lack = (core[name], ein[name]) if a else (ein[name], core[name])
            ctx.finding("CONJ-AGREE", lack, lack.node, f"`{name}`: the {have.module.name.split('.')[-2].replace('_tenalg', '')} backend conjugates an operand (`{src((a or b)[0])[:60]}`) but the {lack.module.name.split('.')[-2].replace('_tenalg', '')} backend's implementation applies no conjugation at all: for complex operands the two backends compute different contractions (conjugate transpose versus plain transpose), so the result depends on which tenalg backend is selected", construct=f"{name}: conjugation in one backend only")
