"""HISTORY-FREE — results do not depend on earlier calls (shared by every property except C17).

Every property here is an input / output statement ("for every tensor ...").  A numerical routine
that keeps state between calls -- a module-level dictionary used as a memo table, a
`functools.lru_cache`, a `global` rebound at run time -- satisfies such a statement only if the
state is a *function of the current call's inputs*.  The rule looks at the modules a property is
anchored in and decides three facts about every piece of call-spanning state it finds there:

  KEY-COMPLETE   a memo write  TABLE[key] = value  (or TABLE.setdefault(key, value)): every
                 parameter / local the value is computed from is also used to build the key.  A
                 value built with `**tl.context(tensor)` but keyed without the tensor (its dtype)
                 is returned for the next tensor of another dtype.
  KEY-LOSSLESS   a key component built from a dictionary by iterating it (sorted(d), tuple(d),
                 list(d), d.keys()) keeps the keys and drops the values: two specifications with
                 the same modes and different parameters share one entry.
  NOT-MUTATED    a value read from a memo table, or returned by a function decorated with a
                 functools cache, is not modified in place (augmented assignment on an array,
                 element store, `out=`): the next caller receives the modified object.

None of this is specific to one function: the rule enumerates state from the module's syntax
(module-level containers, cache decorators, `global` statements) and there is none in the
anchored modules today, so the expected number of reports is zero and the self-test keeps
positive examples (memo tables seeded by independent authors) that must be reported.  A memo
table the rule can prove consistent (complete, lossless key; value never mutated) is accepted
silently: caching as such is not a violation.
"""

from __future__ import annotations

import ast
import json
import os
from typing import Dict, List, Set

from ..common import Ctx, call_name, inline_locals, is_name, src
from ..model import AnalysisError, own_scope_nodes

HERE = os.path.dirname(os.path.dirname(os.path.dirname(os.path.abspath(__file__))))

# modules whose business *is* process-wide state (C17 decides that state); not numerical routines
STATEFUL_BY_DESIGN = ("tensorly/backend/", "tensorly/__init__.py", "tensorly/tenalg/__init__.py", "tensorly/tenalg/base_tenalg.py", "tensorly/plugins.py")
CONTAINER_CTORS = {"dict", "list", "set", "OrderedDict", "defaultdict", "WeakValueDictionary", "WeakKeyDictionary", "Counter", "deque"}
CACHE_DECORATORS = {"lru_cache", "cache", "cached_property", "memoize", "memoized"}
INPLACE_METHODS = {"fill", "sort", "resize", "put", "itemset", "partition", "setfield", "setflags", "fill_diagonal_", "mul_", "add_", "sub_", "div_", "copy_", "zero_", "clamp_"}


def anchored_files(prop: str) -> List[str]:
    with open(os.path.join(HERE, "properties.jsonl")) as fh:
        for line in fh:
            p = json.loads(line)
            if p["id"] == prop:
                return [f for f in p["anchors"]["files"] if not f.startswith(STATEFUL_BY_DESIGN) and f not in STATEFUL_BY_DESIGN]
    raise AnalysisError(f"HISTORY-FREE: property {prop} not found in properties.jsonl")


def _module_containers(tree: ast.Module) -> Dict[str, ast.AST]:
    out = {}
    for s in tree.body:
        tgts, v = [], None
        if isinstance(s, ast.Assign):
            tgts, v = s.targets, s.value
        elif isinstance(s, ast.AnnAssign) and s.value is not None:
            tgts, v = [s.target], s.value
        if v is None:
            continue
        is_container = isinstance(v, (ast.Dict, ast.List, ast.Set)) or (isinstance(v, ast.Call) and (call_name(v) or "") in CONTAINER_CTORS)
        if is_container:
            for t in tgts:
                if isinstance(t, ast.Name):
                    out[t.id] = s
    return out


def _locals_of(fnode) -> Set[str]:
    a = fnode.args
    names = {x.arg for x in a.args + a.kwonlyargs + a.posonlyargs}
    if a.vararg:
        names.add(a.vararg.arg)
    if a.kwarg:
        names.add(a.kwarg.arg)
    declared_global = {n for s in own_scope_nodes(fnode) if isinstance(s, ast.Global) for n in s.names}
    for n in own_scope_nodes(fnode):
        if isinstance(n, ast.Name) and isinstance(n.ctx, ast.Store) and n.id not in declared_global:
            names.add(n.id)
    return names


SHAPE_FACET = {"shape", "ndim", "len", "size"}
CONTEXT_FACET = {"context", "dtype", "device"}


def _facets(e, local_names) -> Set[tuple]:
    """(name, facet) pairs an expression reads: `shape` (shape / ndim / len of the name), `context`
    (its dtype / device) or `*` (the value itself)."""
    out = set()

    def visit(n, facet):
        if isinstance(n, ast.Name):
            if isinstance(n.ctx, ast.Load) and n.id in local_names:
                out.add((n.id, facet or "*"))
            return
        if isinstance(n, ast.Call):
            nm = call_name(n) or ""
            if nm in SHAPE_FACET or nm in CONTEXT_FACET:
                f2 = "shape" if nm in SHAPE_FACET else "context"
                for a in n.args:
                    visit(a, f2 if isinstance(a, ast.Name) else None)
                for k in n.keywords:
                    visit(k.value, None)
                if isinstance(n.func, ast.Attribute) and not isinstance(n.func.value, ast.Name):
                    visit(n.func.value, None)
                return
        if isinstance(n, ast.Attribute) and isinstance(n.value, ast.Name) and (n.attr in SHAPE_FACET or n.attr in CONTEXT_FACET):
            visit(n.value, "shape" if n.attr in SHAPE_FACET else "context")
            return
        for c in ast.iter_child_nodes(n):
            visit(c, None)

    visit(e, None)
    return out


def _resolve_at(expr, stmt, fnode, depth=6):
    """`expr` with each local replaced by the definition that reaches `stmt`: the nearest earlier
    plain assignment in the statement list that contains `stmt` (or an enclosing one), itself
    resolved at *its* position (so `S = sqrt(clip(S, eps))` reads the earlier S); otherwise the
    single definition of the function, if there is exactly one."""
    import copy

    # position of every statement: chain of (block, index) from innermost to outermost
    chains = {}

    def index(block, outer):
        for i, st in enumerate(block):
            here = [(block, i)] + outer
            chains[id(st)] = here
            if isinstance(st, (ast.FunctionDef, ast.AsyncFunctionDef)):
                index(st.body, [])  # a nested helper is a scope of its own
                continue
            if isinstance(st, ast.ClassDef):
                continue
            for fld in ("body", "orelse", "finalbody"):
                sub = getattr(st, fld, None)
                if isinstance(sub, list) and sub and isinstance(sub[0], ast.stmt):
                    index(sub, here)
            for h in getattr(st, "handlers", []) or []:
                index(h.body, here)

    index(fnode.body, [])
    if not isinstance(stmt, ast.stmt) or id(stmt) not in chains:
        # an expression node (a call), or a statement object from a transformed copy: locate its statement
        for st in ast.walk(fnode):
            if isinstance(st, ast.stmt) and id(st) in chains and not isinstance(st, (ast.FunctionDef, ast.If, ast.For, ast.While, ast.With, ast.Try)) and any(x is stmt for x in ast.walk(st)):
                stmt = st
                break

    class _Elem:
        """one component of `a, b = x, y`: the definition of a (or b), positioned at that statement"""

        def __init__(self, st, value):
            self.st, self.value = st, value

    def component(target, value, name):
        """the component of ``value`` that `(a, (b, c)) = (x, (y, z))` gives to ``name``"""
        if is_name(target, name):
            return value
        if isinstance(target, (ast.Tuple, ast.List)) and isinstance(value, (ast.Tuple, ast.List)) and len(target.elts) == len(value.elts) and not any(isinstance(x, ast.Starred) for x in list(value.elts) + list(target.elts)):
            for t_, v_ in zip(target.elts, value.elts):
                hit = component(t_, v_, name)
                if hit is not None:
                    return hit
        return None

    def reaching(name, at):
        at = at.st if isinstance(at, _Elem) else at
        for block, i in chains.get(id(at), []):
            for st in reversed(block[:i]):
                if isinstance(st, ast.Assign) and len(st.targets) == 1 and is_name(st.targets[0], name):
                    return st
                if isinstance(st, ast.Assign) and len(st.targets) == 1 and isinstance(st.targets[0], (ast.Tuple, ast.List)) and isinstance(st.value, (ast.Tuple, ast.List)):
                    hit = component(st.targets[0], st.value, name)
                    if hit is not None:
                        return _Elem(st, hit)
                if any(isinstance(x, ast.Name) and x.id == name and isinstance(x.ctx, ast.Store) for x in ast.walk(st)):
                    return None  # defined in a compound / tuple statement: keep the name
        return None

    def reaching_sub(sub_src, base, at):
        """nearest earlier `base[...] = value` with exactly this subscript text (no other write to base in between)"""
        at = at.st if isinstance(at, _Elem) else at
        for block, i in chains.get(id(at), []):
            for st in reversed(block[:i]):
                if isinstance(st, ast.Assign) and len(st.targets) == 1 and isinstance(st.targets[0], ast.Subscript) and ast.unparse(st.targets[0]) == sub_src:
                    return st
                for x in ast.walk(st):
                    if isinstance(x, ast.Name) and x.id == base and isinstance(x.ctx, ast.Store):
                        return None
                    if isinstance(x, ast.Subscript) and isinstance(x.ctx, ast.Store) and isinstance(x.value, ast.Name) and x.value.id == base:
                        return None
        return None

    def resolve(e, at, d):
        class T(ast.NodeTransformer):
            def visit_Name(self, n):
                if isinstance(n.ctx, ast.Load) and d > 0:
                    st = reaching(n.id, at)
                    if st is not None:
                        return resolve(copy.deepcopy(st.value), st, d - 1)
                return n

            def visit_Subscript(self, n):
                if isinstance(n.ctx, ast.Load) and d > 0 and isinstance(n.value, ast.Name):
                    st = reaching_sub(ast.unparse(n), n.value.id, at)
                    if st is not None:
                        return resolve(copy.deepcopy(st.value), st, d - 1)
                return self.generic_visit(n)

        return T().visit(e)

    e = resolve(copy.deepcopy(expr), stmt, depth)
    return e


def _reads(expr, stmt, fnode, local_names) -> Set[tuple]:
    return _facets(_resolve_at(expr, stmt, fnode), local_names)


def _covered(read: tuple, key_reads: Set[tuple]) -> bool:
    return read in key_reads or (read[0], "*") in key_reads


def _is_cache_decorated(fnode) -> bool:
    for d in fnode.decorator_list:
        t = d.func if isinstance(d, ast.Call) else d
        nm = t.attr if isinstance(t, ast.Attribute) else (t.id if isinstance(t, ast.Name) else "")
        if nm in CACHE_DECORATORS:
            return True
    return False


def _lossy_dict_key(repo, f, key_expr, depth=0):
    """(description, node) when a key component iterates a dictionary directly (keys only)."""
    e = key_expr
    for c in ast.walk(e):
        if not isinstance(c, ast.Call):
            continue
        nm = call_name(c) or ""
        # a helper of the same module applied to a component: look inside, one level
        if depth < 2 and isinstance(c.func, ast.Name):
            ct = repo.resolve_call(f, f.module, c)
            if ct.kind == "repo" and len(ct.funcs) == 1 and ct.funcs[0].module is f.module:
                g = ct.funcs[0]
                for node in own_scope_nodes(g.node):
                    if isinstance(node, ast.If):
                        t = node.test
                        if isinstance(t, ast.Call) and is_name(t.func, "isinstance") and len(t.args) == 2 and isinstance(t.args[0], ast.Name) and "dict" in src(t.args[1]):
                            d = t.args[0].id
                            for r in [x for b in node.body for x in ast.walk(b) if isinstance(x, ast.Return) and x.value is not None]:
                                for cc in ast.walk(r.value):
                                    if isinstance(cc, ast.Call) and (call_name(cc) or "") in ("sorted", "tuple", "list", "frozenset", "set") and cc.args and is_name(cc.args[0], d):
                                        return (f"`{g.name}` turns a dictionary into `{src(r.value)}`: the keys only, the values are dropped", cc)
                                    if isinstance(cc, ast.Call) and isinstance(cc.func, ast.Attribute) and cc.func.attr == "keys" and is_name(cc.func.value, d):
                                        return (f"`{g.name}` keeps `{src(cc)}` of a dictionary: the values are dropped", cc)
        if isinstance(c.func, ast.Attribute) and c.func.attr == "keys" and not c.args:
            return (f"`{src(c)}` keeps the keys of a mapping and drops its values", c)
    return None


def history_free(ctx: Ctx, prop: str):
    repo, res = ctx.repo, ctx.res
    res.rule(
        "HISTORY-FREE",
        "no routine of the anchored modules makes its result depend on earlier calls: a memo table (module-level container written at run time) is keyed by everything its value is computed from, no key component drops the values of a mapping, and a value taken from a memo table or a functools cache is never modified in place; run-time rebinding of a module global is reported",
        floor=2,
    )
    files = anchored_files(prop)
    n_funcs = 0
    for rel in files:
        mod = next((m for m in repo.modules.values() if m.rel == rel), None)
        if mod is None:
            raise AnalysisError(f"HISTORY-FREE: anchored module {rel} is not in the repository any more")
        containers = _module_containers(mod.tree)
        funcs = [f for f in repo.functions.values() if f.module is mod]
        cached_funcs = {f.name for f in funcs if _is_cache_decorated(f.node)}
        res.instance("HISTORY-FREE", f"{rel}: module-level state", sample={"containers": sorted(containers), "cached_functions": sorted(cached_funcs), "functions": len(funcs)})
        for f in funcs:
            n_funcs += 1
            local_names = _locals_of(f.node)
            shadowed = local_names
            taken = {}  # local name -> description of the shared object it is bound to
            for s in own_scope_nodes(f.node):
                # run-time rebinding of a module global
                if isinstance(s, ast.Global):
                    for nm in s.names:
                        if any(isinstance(x, ast.Name) and x.id == nm and isinstance(x.ctx, ast.Store) for x in ast.walk(f.node)):
                            res.instance("HISTORY-FREE", f"{f.qname}: global {nm}", sample={"ok": False})
                            ctx.finding("HISTORY-FREE", f, s, f"`{f.name}` rebinds the module global `{nm}` at run time: what later calls compute depends on the calls made before them", construct=f"{f.name}: global {nm}")
                # memo writes
                key = value = table = None
                if isinstance(s, ast.Assign) and len(s.targets) == 1 and isinstance(s.targets[0], ast.Subscript) and isinstance(s.targets[0].value, ast.Name):
                    t = s.targets[0]
                    if t.value.id in containers and t.value.id not in shadowed:
                        table, key, value = t.value.id, t.slice, s.value
                elif isinstance(s, ast.Call) and isinstance(s.func, ast.Attribute) and isinstance(s.func.value, ast.Name) and s.func.value.id in containers and s.func.value.id not in shadowed:
                    if s.func.attr == "setdefault" and len(s.args) == 2:
                        table, key, value = s.func.value.id, s.args[0], s.args[1]
                    elif s.func.attr in ("append", "add", "update", "extend", "insert"):
                        res.instance("HISTORY-FREE", f"{f.qname}: {src(s)[:60]}", sample={"ok": False})
                        ctx.finding("HISTORY-FREE", f, s, f"`{f.name}` accumulates into the module-level container `{s.func.value.id}` (`{src(s)[:80]}`): state that outlives the call and is not keyed by its inputs", construct=f"{f.name}: {s.func.value.id}.{s.func.attr}")
                if table is not None:
                    vr, kr = _reads(value, s, f.node, local_names), _reads(key, s, f.node, local_names)
                    facet_words = {"*": "its value", "context": "its dtype / device", "shape": "its shape"}
                    missing = sorted(f"{n} ({facet_words[fc]})" for (n, fc) in vr if not _covered((n, fc), kr))
                    lossy = _lossy_dict_key(repo, f, _resolve_at(key, s, f.node))
                    ok = not missing and lossy is None
                    res.instance("HISTORY-FREE", f"{f.qname}: memo write {table}[{src(key)[:40]}]", sample={"value_computed_from": sorted(map(str, vr)), "key_built_from": sorted(map(str, kr)), "not_in_key": missing, "lossy_key": lossy[0] if lossy else None, "ok": ok})
                    if missing:
                        ctx.finding("HISTORY-FREE", f, s, f"memo table `{table}`: the stored value is computed from {', '.join(missing)}, which the key `{src(_resolve_at(key, s, f.node))[:80]}` does not determine: a later call that differs only there is answered with the entry of an earlier one", construct=f"{f.name}: {table}[...] key lacks {', '.join(missing)}"[:160])
                    if lossy is not None:
                        ctx.finding("HISTORY-FREE", f, s, f"memo table `{table}`: {lossy[0]}; two calls whose specifications have the same modes and different values share one entry, so the second is answered with the first one's result", construct=f"{f.name}: {table}[...] key drops mapping values")
                # values taken out of shared state
                if isinstance(s, ast.Assign) and len(s.targets) == 1:
                    v = s.value
                    origin = None
                    if isinstance(v, ast.Subscript) and isinstance(v.value, ast.Name) and v.value.id in containers and v.value.id not in shadowed:
                        origin = f"memo table `{v.value.id}`"
                    elif isinstance(v, ast.Call) and isinstance(v.func, ast.Attribute) and v.func.attr in ("get", "setdefault", "pop") and isinstance(v.func.value, ast.Name) and v.func.value.id in containers and v.func.value.id not in shadowed and v.func.attr != "pop":
                        origin = f"memo table `{v.func.value.id}`"
                    elif isinstance(v, ast.Call) and isinstance(v.func, ast.Name):
                        ct = repo.resolve_call(f, f.module, v)
                        if ct.kind == "repo" and any(_is_cache_decorated(g.node) for g in ct.funcs):
                            origin = f"functools cache of `{ct.funcs[0].name}`"
                    if origin is not None:
                        for t in s.targets:
                            for x in ast.walk(t):
                                if isinstance(x, ast.Name) and isinstance(x.ctx, ast.Store):
                                    taken[x.id] = origin
            if taken:
                # a taken name that is later re-bound from something else stops being tracked only at that
                # statement; keep it simple and sound: any in-place edit of the name anywhere in f counts
                for s in own_scope_nodes(f.node):
                    bad = None
                    if isinstance(s, ast.AugAssign):
                        b = s.target
                        while isinstance(b, (ast.Subscript, ast.Attribute)):
                            b = b.value
                        if isinstance(b, ast.Name) and b.id in taken:
                            bad = (b.id, f"`{src(s)[:70]}`")
                    elif isinstance(s, ast.Assign):
                        for t in s.targets:
                            if isinstance(t, (ast.Subscript, ast.Attribute)):
                                b = t
                                while isinstance(b, (ast.Subscript, ast.Attribute)):
                                    b = b.value
                                if isinstance(b, ast.Name) and b.id in taken:
                                    bad = (b.id, f"`{src(s)[:70]}`")
                    elif isinstance(s, ast.Call):
                        if isinstance(s.func, ast.Attribute) and s.func.attr in INPLACE_METHODS and isinstance(s.func.value, ast.Name) and s.func.value.id in taken:
                            bad = (s.func.value.id, f"`{src(s)[:70]}`")
                        for k in s.keywords:
                            if k.arg == "out" and isinstance(k.value, ast.Name) and k.value.id in taken:
                                bad = (k.value.id, f"`{src(s)[:70]}` (out=)")
                    if bad is not None:
                        nm, what = bad
                        res.instance("HISTORY-FREE", f"{f.qname}: in-place edit of {nm}", sample={"origin": taken[nm], "ok": False})
                        ctx.finding("HISTORY-FREE", f, s, f"`{nm}` comes from the {taken[nm]} and is modified in place by {what}: the shared object is changed, so the next call that hits the same entry starts from the modified value", construct=f"{f.name}: in-place edit of cached `{nm}`")
    res.instance("HISTORY-FREE", f"{prop}: functions of the anchored modules examined", sample={"functions": n_funcs, "modules": files})
    mask_argmax(ctx, prop, files)
    sentinel_intact(ctx, prop, files)
    zero_is_a_value(ctx, prop, files)
    order_from_set(ctx, prop, files)
    if n_funcs == 0:
        raise AnalysisError("HISTORY-FREE: no function of the anchored modules was examined")


# ---------------------------------------------------------------------------------
# MASK-ARGMAX: "position of the first True" needs a True
# ---------------------------------------------------------------------------------
def mask_argmax(ctx: Ctx, prop: str, files):
    """argmax (argmin) of a boolean mask is 0 both when the first entry is True and when *no* entry is:
    used as a count, a slice bound or an index it silently selects nothing / the first element exactly
    in the case the mask was meant to exclude.  Every argmax / argmin whose argument is a comparison (or
    a local bound to one) must be accompanied, in the same function, by an `any(...)` / `all(...)` test
    of that mask (or of its negation)."""
    repo, res = ctx.repo, ctx.res
    res.rule("MASK-ARGMAX", "in the anchored modules no argmax / argmin is taken over a boolean mask (a comparison, or a local bound to one) without an any() / all() test of that mask in the same function: the position of the first True is 0 also when nothing is True", floor=1)
    n_calls = n_masks = 0
    for rel in files:
        mod = next((m for m in repo.modules.values() if m.rel == rel), None)
        if mod is None:
            continue
        for f in [g for g in repo.functions.values() if g.module is mod]:
            for c in own_scope_nodes(f.node):
                if not (isinstance(c, ast.Call) and (call_name(c) or "") in ("argmax", "argmin")):
                    continue
                n_calls += 1
                arg = c.args[0] if c.args else (c.func.value if isinstance(c.func, ast.Attribute) and not isinstance(c.func.value, ast.Name) else None)
                if arg is None and isinstance(c.func, ast.Attribute) and isinstance(c.func.value, ast.Name) and c.func.value.id not in ("tl", "T", "np", "numpy", "tensorly"):
                    arg = c.func.value  # mask.argmax()
                if arg is None:
                    continue
                full = inline_locals(f.node, arg)
                while isinstance(full, ast.Call) and (call_name(full) or "") in ("tensor", "asarray", "array", "to_numpy", "astype", "reshape") and full.args:
                    full = full.args[0]
                is_mask = isinstance(full, ast.Compare) or (isinstance(full, ast.UnaryOp) and isinstance(full.op, (ast.Invert, ast.Not))) or (isinstance(full, ast.BoolOp)) or (isinstance(full, ast.BinOp) and isinstance(full.op, (ast.BitAnd, ast.BitOr)) and isinstance(full.left, ast.Compare))
                if not is_mask:
                    continue
                n_masks += 1
                tested = False
                for t in own_scope_nodes(f.node):
                    if isinstance(t, ast.Call) and (call_name(t) or "") in ("any", "all") and t.args:
                        ta = inline_locals(f.node, t.args[0])
                        while isinstance(ta, ast.UnaryOp):
                            ta = ta.operand
                        if src(ta) == src(full) or (isinstance(ta, ast.Compare) and isinstance(full, ast.Compare) and src(ta.left) == src(full.left) and src(ta.comparators[0]) == src(full.comparators[0])):
                            tested = True
                res.instance("MASK-ARGMAX", f"{f.qname}: {src(c)[:60]}", sample={"mask": src(full)[:80], "guarded_by_any_all": tested, "ok": tested})
                if not tested:
                    ctx.finding("MASK-ARGMAX", f, c, f"`{src(c)[:80]}` takes the position of the first True of the mask `{src(full)[:70]}`; when no entry is True the result is 0, exactly as when the first entry is: used as a count / bound it then keeps nothing (or the wrong element) in the case where every entry passes. Count the entries (sum / len) or test any() first", construct=f"{f.name}: argmax of a mask {src(full)[:50]}")
    res.instance("MASK-ARGMAX", f"{prop}: argmax / argmin calls examined", sample={"calls": n_calls, "over_masks": n_masks})


# ---------------------------------------------------------------------------------
# SENTINEL-INTACT: a parameter that may be a string sentinel is not turned into a collection of characters
# ---------------------------------------------------------------------------------
_CONVERTERS = {"set", "list", "tuple", "sorted", "frozenset"}


def _sentinel_params(repo):
    """(function qname, parameter) -> set of string literals the parameter is compared with, directly or in a
    function it is handed to (by position or keyword), to a fixed point"""
    from ..model import bind_call

    cache = repo.__dict__.get("_sentinel_params")
    if cache is not None:
        return cache
    out = {}
    funcs = list(repo.functions.values())
    for f in funcs:
        params = set(f.all_params)
        for c in own_scope_nodes(f.node):
            if isinstance(c, ast.Compare) and len(c.ops) == 1 and isinstance(c.ops[0], (ast.Eq, ast.NotEq)):
                l, r = c.left, c.comparators[0]
                for a, b in ((l, r), (r, l)):
                    if isinstance(a, ast.Name) and a.id in params and isinstance(b, ast.Constant) and isinstance(b.value, str) and b.value:
                        out.setdefault((f.qname, a.id), set()).add(b.value)
    changed = True
    rounds = 0
    while changed and rounds < 4:
        changed = False
        rounds += 1
        for f in funcs:
            params = set(f.all_params)
            for c in own_scope_nodes(f.node):
                if not isinstance(c, ast.Call):
                    continue
                try:
                    ct = repo.resolve_call(f, f.module, c)
                except Exception:
                    continue
                if ct.kind != "repo" or not ct.funcs:
                    continue
                for g in ct.funcs[:3]:
                    b = bind_call(c, g, ct.bound)
                    if not b.ok:
                        continue
                    for q, a in b.params.items():
                        if isinstance(a, ast.Name) and a.id in params and (g.qname, q) in out:
                            cur = out.setdefault((f.qname, a.id), set())
                            if not out[(g.qname, q)] <= cur:
                                cur |= out[(g.qname, q)]
                                changed = True
    repo.__dict__["_sentinel_params"] = out
    return out


def sentinel_intact(ctx: Ctx, prop: str, files):
    repo, res = ctx.repo, ctx.res
    res.rule("SENTINEL-INTACT", "a parameter that is compared with a string sentinel (here or in a routine it is handed to, e.g. nn_modes == \"all\") is not passed through set / list / tuple / sorted while it can still be that string: the string would become a collection of its characters and the comparison downstream silently fails", floor=1)
    sent = _sentinel_params(repo)
    n = 0
    for rel in files:
        mod = next((m for m in repo.modules.values() if m.rel == rel), None)
        if mod is None:
            continue
        for f in [g for g in repo.functions.values() if g.module is mod]:
            mine = {p_: v for (q, p_), v in sent.items() if q == f.qname}
            if not mine:
                continue
            par = {}
            for a in ast.walk(f.node):
                for c_ in ast.iter_child_nodes(a):
                    par[id(c_)] = a
            for p_, strings in sorted(mine.items()):
                n += 1
                res.instance("SENTINEL-INTACT", f"{f.qname}({p_})", sample={"sentinels": sorted(strings)})
                for st in own_scope_nodes(f.node):
                    if not (isinstance(st, ast.Assign) and len(st.targets) == 1 and is_name(st.targets[0], p_) and isinstance(st.value, ast.Call) and (call_name(st.value) or "") in _CONVERTERS and len(st.value.args) == 1 and is_name(st.value.args[0], p_)):
                        continue

                    # the value converted is still the parameter (no earlier statement re-bound it, e.g. to the
                    # result of the validator that resolves the sentinel) ...
                    if not is_name(_resolve_at(ast.Name(id=p_, ctx=ast.Load()), st, f.node, depth=1), p_):
                        continue
                    # ... and it is still compared with the sentinel / handed to a routine that does, afterwards
                    later = False
                    for c2 in own_scope_nodes(f.node):
                        if getattr(c2, "lineno", 0) <= st.lineno:
                            continue
                        if isinstance(c2, ast.Compare) and len(c2.ops) == 1 and any(is_name(x, p_) for x in [c2.left] + c2.comparators) and any(isinstance(x, ast.Constant) and isinstance(x.value, str) for x in [c2.left] + c2.comparators):
                            later = True
                        if isinstance(c2, ast.Call):
                            from ..model import bind_call as _bind

                            try:
                                ct2 = repo.resolve_call(f, f.module, c2)
                            except Exception:
                                continue
                            if ct2.kind == "repo":
                                for g2 in ct2.funcs[:3]:
                                    b2 = _bind(c2, g2, ct2.bound)
                                    if b2.ok and any(is_name(a2, p_) and (g2.qname, q2) in sent for q2, a2 in b2.params.items()):
                                        later = True
                    # nested helpers (closures) that read the parameter and hand it on
                    for sub in ast.walk(f.node):
                        if isinstance(sub, (ast.FunctionDef, ast.Lambda)) and sub is not f.node and getattr(sub, "lineno", 0) > st.lineno:
                            for c2 in ast.walk(sub):
                                if isinstance(c2, ast.Call) and any(k.arg is not None and is_name(k.value, p_) for k in c2.keywords):
                                    g_names = {q for q, _ in sent}
                                    if any((q, k.arg) in sent for q in g_names for k in c2.keywords if is_name(k.value, p_)):
                                        later = True
                    if not later:
                        continue

                    # is the sentinel excluded here?
                    def excludes(test, positive):
                        while isinstance(test, ast.UnaryOp) and isinstance(test.op, ast.Not):
                            test, positive = test.operand, not positive
                        if isinstance(test, ast.BoolOp):
                            conj = isinstance(test.op, ast.And) == positive
                            return any(excludes(v, positive) for v in test.values) if conj else all(excludes(v, positive) for v in test.values)
                        if isinstance(test, ast.Compare) and len(test.ops) == 1 and (is_name(test.left, p_) or is_name(test.comparators[0], p_)):
                            other = test.comparators[0] if is_name(test.left, p_) else test.left
                            if isinstance(other, ast.Constant) and isinstance(other.value, str):
                                return isinstance(test.ops[0], ast.NotEq) == positive and {other.value} >= strings
                            if isinstance(other, ast.Constant) and other.value is None:
                                return isinstance(test.ops[0], ast.Is) and positive  # p is None: not the string
                        if isinstance(test, ast.Call) and (call_name(test) or "") == "isinstance" and len(test.args) == 2 and is_name(test.args[0], p_):
                            names = {x.id for x in ast.walk(test.args[1]) if isinstance(x, ast.Name)}
                            return ("str" in names) != positive if "str" in names else (positive and bool(names & {"list", "tuple", "set", "int", "dict", "ndarray"}))
                        return False

                    safe = False
                    cur = st
                    while id(cur) in par and not safe:
                        up = par[id(cur)]
                        if isinstance(up, ast.If):
                            if any(cur is b for b in up.body) and excludes(up.test, True):
                                safe = True
                            if any(cur is b for b in up.orelse) and excludes(up.test, False):
                                safe = True
                        for fld in ("body", "orelse"):
                            blk = getattr(up, fld, None)
                            if isinstance(blk, list) and any(cur is b for b in blk):
                                i = next(k for k, b in enumerate(blk) if b is cur)
                                for prev in blk[:i]:
                                    # a guard clause that leaves, or that rebinds the parameter, when it is the sentinel
                                    if isinstance(prev, ast.If) and excludes(prev.test, False) and prev.body and (isinstance(prev.body[-1], (ast.Return, ast.Raise, ast.Continue)) or any(isinstance(x, ast.Name) and x.id == p_ and isinstance(x.ctx, ast.Store) for b in prev.body for x in ast.walk(b))) and not prev.orelse:
                                        safe = True
                        if isinstance(up, (ast.FunctionDef, ast.AsyncFunctionDef)):
                            break
                        cur = up
                    if not safe:
                        ctx.finding("SENTINEL-INTACT", f, st, f"`{src(st)[:70]}` in {f.name}: `{p_}` may be the string sentinel {sorted(strings)} (it is compared with it here or in a routine it is handed to), and {call_name(st.value)}(\"{sorted(strings)[0]}\") is a collection of characters: the comparison with the sentinel then fails silently and the request it stands for is ignored", construct=f"{f.name}: {p_} = {call_name(st.value)}({p_}) with a string sentinel")
    res.instance("SENTINEL-INTACT", f"{prop}: parameters with a string sentinel in the anchored modules", sample={"parameters": n})


# ---------------------------------------------------------------------------------
# ZERO-IS-A-VALUE: an axis / mode / position option is tested against None, not by truthiness
# ---------------------------------------------------------------------------------
_POSITION_PARAMS = {"axis", "mode", "skip", "skip_matrix", "skip_factor", "position", "index"}


def zero_is_a_value(ctx: Ctx, prop: str, files):
    """0 is a legitimate axis, mode or position.  A parameter of that kind whose default is None, tested by its
    truth value (`if axis:`, `x if axis else y`, `axis and ...`, `not axis`), takes the None route for 0."""
    repo, res = ctx.repo, ctx.res
    res.rule("ZERO-IS-A-VALUE", "in the anchored modules a parameter that names an axis, a mode or a position (axis, mode, skip, skip_matrix ...) and defaults to None is never tested by its truth value: `if axis:` treats axis=0 like axis=None; the test is `is None` / `is not None`", floor=1)
    n = 0
    for rel in files:
        mod = next((m for m in repo.modules.values() if m.rel == rel), None)
        if mod is None:
            continue
        for f in [g for g in repo.functions.values() if g.module is mod]:
            ps = [p_ for p_ in f.all_params if p_ in _POSITION_PARAMS and p_ in f.defaults and isinstance(f.defaults[p_], ast.Constant) and f.defaults[p_].value is None]
            if not ps:
                continue
            stored = {x.id for x in own_scope_nodes(f.node) if isinstance(x, ast.Name) and isinstance(x.ctx, ast.Store)}
            for p_ in ps:
                if p_ in stored:
                    continue  # re-bound (normalised) before use: the later tests are about another value
                n += 1
                bad = []

                def truth_positions(t):
                    """names tested by truth value inside a condition"""
                    if isinstance(t, ast.Name):
                        if t.id == p_:
                            bad.append(t)
                    elif isinstance(t, ast.BoolOp):
                        for v in t.values:
                            truth_positions(v)
                    elif isinstance(t, ast.UnaryOp) and isinstance(t.op, ast.Not):
                        truth_positions(t.operand)

                for x in own_scope_nodes(f.node):
                    if isinstance(x, (ast.If, ast.While, ast.IfExp, ast.Assert)):
                        truth_positions(x.test)
                    elif isinstance(x, ast.BoolOp) and any(is_name(v, p_) for v in x.values[:-1]):
                        bad.append(x)  # `axis or default`, `axis and f(axis)` as a value
                res.instance("ZERO-IS-A-VALUE", f"{f.qname}({p_}=None)", sample={"truth_tests": len(bad), "ok": not bad})
                for b in bad[:1]:
                    ctx.finding("ZERO-IS-A-VALUE", f, b, f"{f.name} tests its `{p_}` parameter by truth value (`{src(b)[:50]}`): {p_}=0 -- the first axis / mode / position -- is falsy and takes the route meant for {p_}=None, so the result for {p_}=0 is computed as if no {p_} had been given", construct=f"{f.name}: truth test of {p_}")
    res.instance("ZERO-IS-A-VALUE", f"{prop}: position-like parameters defaulting to None in the anchored modules", sample={"parameters": n})


# ---------------------------------------------------------------------------------
# ORDER-FROM-SET: a sequence whose order means something is never read off a set
# ---------------------------------------------------------------------------------
_SET_METHODS = {"union", "difference", "intersection", "symmetric_difference", "copy"}
_ORDER_FREE_CONSUMERS = {"sorted", "len", "min", "max", "sum", "any", "all", "set", "frozenset", "bool"}


def _set_typed_names(fnode) -> Set[str]:
    """local names every assignment of which binds a set-typed expression (fixpoint over the function)."""
    assigns: Dict[str, list] = {}
    for x in own_scope_nodes(fnode):
        if isinstance(x, ast.Assign):
            for t in x.targets:
                if isinstance(t, ast.Name):
                    assigns.setdefault(t.id, []).append(x.value)
                else:
                    for n_ in ast.walk(t):
                        if isinstance(n_, ast.Name):
                            assigns.setdefault(n_.id, []).append(None)
        elif isinstance(x, ast.AugAssign) and isinstance(x.target, ast.Name):
            assigns.setdefault(x.target.id, []).append(x.value if isinstance(x.op, (ast.Sub, ast.BitOr, ast.BitAnd, ast.BitXor)) else None)
        elif isinstance(x, (ast.For, ast.comprehension)):
            for n_ in ast.walk(x.target):
                if isinstance(n_, ast.Name):
                    assigns.setdefault(n_.id, []).append(None)
        elif isinstance(x, (ast.With, ast.NamedExpr)):
            for n_ in ast.walk(x):
                if isinstance(n_, ast.Name) and isinstance(n_.ctx, ast.Store):
                    assigns.setdefault(n_.id, []).append(None)
    params = {a.arg for a in ast.walk(fnode.args) if isinstance(a, ast.arg)}
    names: Set[str] = set()
    changed = True
    while changed:
        changed = False
        for nm, vs in assigns.items():
            if nm in names or nm in params:
                continue
            # an augmented `s -= other` keeps a set a set only if s already is one: needs a plain set binding too
            if all(v is not None and _is_set_expr(v, names | {nm}) for v in vs) and any(_is_set_expr(v, names) for v in vs if v is not None):
                names.add(nm)
                changed = True
    return names


def _is_set_expr(e, set_names: Set[str]) -> bool:
    if isinstance(e, (ast.Set, ast.SetComp)):
        return True
    if isinstance(e, ast.Name):
        return e.id in set_names
    if isinstance(e, ast.Call):
        if isinstance(e.func, ast.Name) and e.func.id in ("set", "frozenset"):
            return True
        if isinstance(e.func, ast.Attribute) and e.func.attr in _SET_METHODS and _is_set_expr(e.func.value, set_names):
            return True
        return False
    if isinstance(e, ast.BinOp) and isinstance(e.op, (ast.Sub, ast.BitOr, ast.BitAnd, ast.BitXor)):
        return _is_set_expr(e.left, set_names) or _is_set_expr(e.right, set_names)
    if isinstance(e, ast.IfExp):
        return _is_set_expr(e.body, set_names) and _is_set_expr(e.orelse, set_names)
    return False


def _ordered_reads_of_sets(fnode):
    """(node, set expression, how) for every place of the function that turns a set into an ordered sequence."""
    names = _set_typed_names(fnode)
    parents = {}
    for x in ast.walk(fnode):
        for c in ast.iter_child_nodes(x):
            parents[c] = x
    own = set(map(id, own_scope_nodes(fnode)))

    sorted_in_place = {c.func.value.id for c in ast.walk(fnode) if isinstance(c, ast.Call) and isinstance(c.func, ast.Attribute) and c.func.attr == "sort" and isinstance(c.func.value, ast.Name)}

    def order_free(node):
        """the sequence built at `node` is consumed at once by something that ignores order, or is bound to a
        name that is sorted in place (`cols = list(S); cols.sort()`)"""
        par = parents.get(node)
        if isinstance(par, ast.Assign) and len(par.targets) == 1 and isinstance(par.targets[0], ast.Name) and par.targets[0].id in sorted_in_place:
            return True
        return isinstance(par, ast.Call) and node in par.args and isinstance(par.func, ast.Name) and par.func.id in _ORDER_FREE_CONSUMERS

    out = []
    for x in ast.walk(fnode):
        if id(x) not in own and not isinstance(x, ast.comprehension):
            continue
        if isinstance(x, ast.Call) and isinstance(x.func, ast.Name) and x.func.id in ("list", "tuple", "enumerate", "zip", "iter", "next", "reversed") and x.args:
            for a in x.args:
                if _is_set_expr(a, names) and not order_free(x):
                    out.append((x, a, f"`{x.func.id}(...)` of a set"))
        elif isinstance(x, ast.Starred) and _is_set_expr(x.value, names) and not isinstance(parents.get(x), ast.Set):
            out.append((x, x.value, "`*` unpacking of a set"))
        elif isinstance(x, (ast.ListComp, ast.GeneratorExp)):
            g = x.generators[0]
            if _is_set_expr(g.iter, names) and not order_free(x):
                if isinstance(x, ast.GeneratorExp):
                    par = parents.get(x)
                    if not (isinstance(par, ast.Call) and isinstance(par.func, ast.Name) and par.func.id in ("list", "tuple")):
                        continue
                out.append((x, g.iter, "a list built by iterating a set"))
        elif isinstance(x, ast.For) and _is_set_expr(x.iter, names):
            ordered_effect = None
            for y in x.body:
                for z in ast.walk(y):
                    if isinstance(z, ast.Call) and isinstance(z.func, ast.Attribute) and z.func.attr in ("append", "insert", "extend"):
                        ordered_effect = z
                    elif isinstance(z, (ast.Yield, ast.YieldFrom)):
                        ordered_effect = z
            if ordered_effect is not None:
                out.append((x, x.iter, f"a loop over a set that builds a sequence (`{src(ordered_effect)[:40]}`)"))
    return out, names


_ORDER_FROM_SET_WITNESS = """
def f(tensor, row_modes):
    rest = set(range(tensor.ndim)) - set(row_modes)
    column_modes = list(rest)
    ok = sorted(rest)
    n = len(list(rest))
    also_ok = list(rest)
    also_ok.sort()
    return [m for m in rest], column_modes, ok, n, also_ok
"""


def order_from_set(ctx: Ctx, prop: str, files):
    """The iteration order of a set is not part of its value.  Modes, axes, ranks and factors are all addressed by
    position here, so a list / tuple read off a set (`list(S)`, `[.. for m in S]`, `*S`, a loop over S that appends)
    carries an order nothing in the code determines; `sorted(S)` (or an order-free use: len, in, min, max, sum) is
    the accepted form."""
    repo, res = ctx.repo, ctx.res
    res.rule("ORDER-FROM-SET", "in the anchored modules no ordered sequence (list(...), tuple(...), a list comprehension, `*` unpacking, enumerate / zip, a loop that appends) is read off a set-typed expression (set(...), a set literal / comprehension, a set difference / union / intersection, a local only ever bound to one) unless through sorted(...) or an order-free consumer (len, min, max, sum, any, all, set): modes, axes and factors are addressed by position and a set has no order", floor=1)
    # the rule's expected number of reports is zero: a positive example that must be recognised on every run
    w = ast.parse(_ORDER_FROM_SET_WITNESS).body[0]
    hits, _ = _ordered_reads_of_sets(w)
    if len(hits) != 2:
        raise AnalysisError(f"ORDER-FROM-SET: the built-in positive example gave {len(hits)} reports instead of 2; the detector is broken")
    n_funcs = n_sets = 0
    for rel in files:
        mod = next((m for m in repo.modules.values() if m.rel == rel), None)
        if mod is None:
            continue
        for f in [g for g in repo.functions.values() if g.module is mod]:
            n_funcs += 1
            hits, names = _ordered_reads_of_sets(f.node)
            n_sets += len(names)
            if names or hits:
                res.instance("ORDER-FROM-SET", f"{f.qname}: set-typed locals {sorted(names)}", sample={"ordered_reads": len(hits), "ok": not hits})
            for node, sexpr, how in hits[:2]:
                ctx.finding("ORDER-FROM-SET", f, node, f"{f.name}: {how}: `{src(node)[:90]}` takes its order from the set `{src(sexpr)[:60]}`, whose iteration order is not determined by its elements (it depends on hash-table size and insertion history); whatever is addressed by position through this sequence (modes, axes, factors) is re-ordered for some inputs. Use sorted(...)", construct=f"{f.name}: ordered read of set `{src(sexpr)[:40]}`")
    res.instance("ORDER-FROM-SET", f"{prop}: functions of the anchored modules examined (positive example recognised)", sample={"functions": n_funcs, "set_typed_locals": n_sets})
