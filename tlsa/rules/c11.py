"""C11 — constrained CP feasibility (partial: structural clauses).

TABLE-AGREE     the constraint names agree across every table / signature that carries them
KW-FORWARD      every hop forwards k=k; order / index agree inside a statement
PROX-TYPESTATE  the factor returned by ADMM / stored by the driver / produced by the
                initialiser is a proximal-operator output
VALIDATE-FIRST  double-constraint validation runs before any work and can raise
SIGN-HANDLER    the non-negativity handler is a sign sanitiser
"""

from __future__ import annotations

import ast

from ..cfg import build_cfg
from ..common import inline_locals, Ctx, call_name, is_const, is_name, kwarg, src
from ..explore import Explorer
from ..model import AnalysisError, bind_call, own_scope_nodes

PROX = "tensorly.tenalg.proximal"
CCP = "tensorly.decomposition._constrained_cp"
ADMM = "tensorly.solvers.admm.admm"

# constraint name -> operator its dispatch branch must apply (confirmed by reading)
OPERATOR = {
    "non_negative": ("backend", "clip"),
    "l1_reg": ("repo", "soft_thresholding"),
    "l2_reg": ("repo", "l2_prox"),
    "l2_square_reg": ("repo", "l2_square_prox"),
    "unimodality": ("repo", "unimodality_prox"),
    "normalize": ("inline", "tensor / max(abs(tensor))"),
    "simplex": ("repo", "simplex_prox"),
    "normalized_sparsity": ("repo", "normalized_sparsity_prox"),
    "soft_sparsity": ("repo", "soft_sparsity_prox"),
    "smoothness": ("repo", "smoothness_prox"),
    "monotonicity": ("repo", "monotonicity_prox"),
    "hard_sparsity": ("repo", "hard_thresholding"),
}
TAKES_PARAMETER = {"l1_reg", "l2_reg", "l2_square_reg", "simplex", "normalized_sparsity", "soft_sparsity", "smoothness", "hard_sparsity"}


def run(ctx: Ctx):
    repo, res = ctx.repo, ctx.res
    res.rule("TABLE-AGREE", "the constraint names are identical (and identically ordered where position is meaning) in validate_constraints' parameters, constraints_list, constraints_names, the proximal_operator dispatch and the five signatures; each dispatch branch applies the operator recorded for its name", floor=60)
    res.rule("KW-FORWARD", "at every hop each constraint keyword is passed as k=k (or k=self.k); n_const is the tensor order; subscripts of factors/dual_variables/factors_aux and order= agree inside a statement", floor=80)
    res.rule("PROX-TYPESTATE", "the primal returned by admm on the constrained path is a proximal_operator output (or the start value); constrained_parafac stores factors[mode] only from admm(...)[0]; the svd/random initialiser returns prox outputs", floor=4)
    res.rule("VALIDATE-FIRST", "validate_constraints runs in constrained_parafac before the initialiser on every path and raises when a mode would be constrained twice", floor=3)
    res.rule("INDEX-AGREE", "in validate_constraints' registration helper the constraint table, the parameter table and the user's per-mode specification are indexed by the same key inside each loop", floor=2)
    res.rule("SIGN-HANDLER", "the 'non_negative' dispatch branch returns a value with a non-negative lower clip and no data-dependent upper bound", floor=1)
    res.assume(
        "NOT decided: that each operator's output is feasible for its constraint set (monotone, unimodal, simplex, l1-ball are numeric)",
        "a user-supplied initialisation is returned unprojected by initialize_constrained_parafac (outside PROX-TYPESTATE, as in DESIGN.md)",
    )
    vc = repo.func(f"{PROX}.validate_constraints")
    po = repo.func(f"{PROX}.proximal_operator")
    admm = repo.func(ADMM)
    icp = repo.func(f"{CCP}.initialize_constrained_parafac")
    cp = repo.func(f"{CCP}.constrained_parafac")
    ccls = repo.cls(f"{CCP}.ConstrainedCP")
    init = ccls.methods.get("__init__")
    ft = ccls.methods.get("fit_transform")
    if init is None or ft is None:
        raise AnalysisError("ConstrainedCP.__init__/fit_transform vanished")

    names = [p for p in vc.pos_params if p not in ("n_const", "order")]
    if len(names) < 8:
        raise AnalysisError(f"validate_constraints has only {len(names)} constraint parameters; anchor changed")
    ctx.guarded(table_agree, ctx, names, vc, po, [po, admm, icp, cp, init])
    ctx.guarded(kw_forward, ctx, names, vc, po, admm, icp, cp, init, ft)
    ctx.guarded(prox_typestate, ctx, names, po, admm, icp, cp)
    ctx.guarded(validate_first, ctx, vc, cp, icp)
    ctx.guarded(sign_handler, ctx, po)
    ctx.guarded(index_agree, ctx, vc)
    res.stats["constraint_names"] = names


# ---------------------------------------------------------------------------------
def _local_list(f, name):
    for s in own_scope_nodes(f.node):
        if isinstance(s, ast.Assign) and len(s.targets) == 1 and is_name(s.targets[0], name) and isinstance(s.value, (ast.List, ast.Tuple)):
            return s.value
    return None


def _dispatch_branches(po):
    """{constraint literal: (test node, body)} for ``constraint == 'lit'`` if/elif chains."""
    out = {}
    for s in own_scope_nodes(po.node):
        if isinstance(s, ast.If):
            t = s.test
            if isinstance(t, ast.Compare) and len(t.ops) == 1 and isinstance(t.ops[0], ast.Eq) and isinstance(t.left, ast.Name) and isinstance(t.comparators[0], ast.Constant) and isinstance(t.comparators[0].value, str):
                out.setdefault(t.comparators[0].value, (t.left.id, s))
    return out


def table_agree(ctx, names, vc, po, sigs):
    res = ctx.res
    cl = _local_list(vc, "constraints_list")
    cn = _local_list(vc, "constraints_names")
    if cl is None or cn is None:
        raise AnalysisError("validate_constraints: constraints_list / constraints_names tables vanished")
    cl_names = [e.id if isinstance(e, ast.Name) else src(e) for e in cl.elts]
    cn_names = [e.value if isinstance(e, ast.Constant) else src(e) for e in cn.elts]
    for i, n in enumerate(names):
        a = cl_names[i] if i < len(cl_names) else None
        b = cn_names[i] if i < len(cn_names) else None
        res.instance("TABLE-AGREE", f"validate_constraints row {i}: {n}", sample={"param": n, "constraints_list": a, "constraints_names": b})
        if a != n:
            ctx.finding("TABLE-AGREE", vc, cl, f"constraints_list[{i}] is `{a}` but parameter {i} is `{n}`: the tables are zipped by position, so `{n}` would be registered under another name", construct=f"constraints_list[{i}]={a} vs param {n}")
        if b != n:
            ctx.finding("TABLE-AGREE", vc, cn, f"constraints_names[{i}] is `{b}` but constraints_list[{i}] is `{n}`: the constraint given as `{n}` is applied as `{b}`", construct=f"constraints_names[{i}]={b} vs {n}")
    if len(cl_names) != len(names) or len(cn_names) != len(names):
        ctx.finding("TABLE-AGREE", vc, cl, f"table lengths differ: {len(names)} parameters, {len(cl_names)} constraints_list entries, {len(cn_names)} constraints_names entries", construct="table lengths")
    # dispatch
    br = _dispatch_branches(po)
    for n in names:
        res.instance("TABLE-AGREE", f"proximal_operator dispatch: {n}", sample={"has_branch": n in br})
        if n not in br:
            ctx.finding("TABLE-AGREE", po, po.node, f"proximal_operator has no dispatch branch for constraint `{n}`: requesting it raises or leaves the factor unconstrained", construct=f"dispatch missing {n}")
    for lit in br:
        if lit not in names:
            ctx.finding("TABLE-AGREE", po, br[lit][1].test, f"proximal_operator dispatches on `{lit}`, which validate_constraints never produces", construct=f"dispatch on unknown {lit}")
    tparam = po.pos_params[0]
    for n in names:
        if n not in br:
            continue
        var, node = br[n]
        kind, opname = OPERATOR.get(n, (None, None))
        if kind is None:
            continue
        rets = [x for st in node.body for x in ast.walk(st) if isinstance(x, ast.Return)]
        res.instance("TABLE-AGREE", f"dispatch operator: {n} -> {opname}", sample={"returns": [src(r) for r in rets]})
        if not rets:
            ctx.finding("TABLE-AGREE", po, node, f"dispatch branch `{n}` does not return", construct=f"branch {n}")
        for r in rets:
            v = r.value
            ok = False
            why = ""
            if kind in ("repo", "backend"):
                if isinstance(v, ast.Call):
                    ct = ctx.repo.resolve_call(po, po.module, v)
                    if kind == "repo":
                        if ct.kind == "repo" and ct.funcs[0].name == opname:
                            ok = True
                        elif ct.kind == "repo" and ct.funcs[0].name in [o for _, o in OPERATOR.values()]:
                            why = f"applies `{ct.funcs[0].name}`, the operator of another constraint"
                        else:
                            if not any(f.name == opname for f in ctx.repo.module(PROX).functions.values()):
                                raise AnalysisError(f"operator {opname} no longer exists in {PROX}; the dispatch table of the checker must be re-confirmed")
                            why = f"does not apply `{opname}`"
                    else:
                        ok = ct.kind == "backend" and ct.name in (opname, "abs", "where", "maximum")
                        why = f"does not apply a sign sanitiser ({opname})"
                    if ok:
                        if not (v.args and is_name(v.args[0], tparam)):
                            ok, why = False, f"the operand passed is not the unmodified `{tparam}`"
                        elif n in TAKES_PARAMETER and not any(is_name(a, "parameter") for a in list(v.args[1:]) + [k.value for k in v.keywords]):
                            ok, why = False, "the constraint's parameter is not passed to the operator"
                else:
                    why = "does not call the operator"
            elif kind == "inline":
                # tensor / max(abs(tensor))
                ok = isinstance(v, ast.BinOp) and isinstance(v.op, ast.Div) and is_name(v.left, tparam) and tparam in {x.id for x in ast.walk(v.right) if isinstance(x, ast.Name)}
                why = "is not `tensor / <function of tensor>`"
            if not ok:
                ctx.finding("TABLE-AGREE", po, r, f"dispatch branch for `{n}` {why}: the factor is returned under the wrong (or no) constraint", construct=f"branch {n}: {src(r)}")
    # signatures
    for f in sigs:
        for n in names:
            res.instance("TABLE-AGREE", f"signature {f.qname}: {n}", nontrivial=True)
            if n not in f.all_params:
                ctx.finding("TABLE-AGREE", f, f.node, f"`{f.name}` does not accept the constraint `{n}`: it cannot be requested through this entry point", construct=f"{f.name} lacks {n}")


# ---------------------------------------------------------------------------------
def _is_tensor_order(f, e, order_names):
    """``tl.ndim(tensor)`` or a local assigned from it or the caller's own n_const."""
    if isinstance(e, ast.Call) and call_name(e) == "ndim" and e.args and isinstance(e.args[0], ast.Name) and e.args[0].id == f.pos_params[0]:
        return True
    if isinstance(e, ast.Name) and e.id in order_names:
        return True
    return False


def kw_forward(ctx, names, vc, po, admm, icp, cp, init, ft):
    repo, res = ctx.repo, ctx.res
    # class: __init__ stores self.k = k
    stored = {}
    for s in own_scope_nodes(init.node):
        if isinstance(s, ast.Assign) and len(s.targets) == 1 and isinstance(s.targets[0], ast.Attribute) and is_name(s.targets[0].value, init.self_name):
            stored[s.targets[0].attr] = s.value
    for n in names:
        res.instance("KW-FORWARD", f"ConstrainedCP.__init__ stores {n}")
        v = stored.get(n)
        if v is None or not is_name(v, n):
            ctx.finding("KW-FORWARD", init, v if v is not None else init.node, f"ConstrainedCP.__init__ does not store `{n}` as self.{n} = {n} (got {src(v) if v is not None else 'nothing'})", construct=f"self.{n} = {src(v) if v is not None else '?'}")
    hops = [
        (ft, cp, "self"),
        (cp, vc, "name"),
        (cp, icp, "name"),
        (cp, admm, "name"),
        (admm, po, "name"),
        (po, vc, "name"),
        (icp, po, "name"),
    ]
    for caller, callee, mode in hops:
        # locals of the caller that hold the tensor order
        order_names = set()
        if "n_const" in caller.all_params:
            order_names.add("n_const")
        for s in own_scope_nodes(caller.node):
            if isinstance(s, ast.Assign) and len(s.targets) == 1 and isinstance(s.targets[0], ast.Name) and _is_tensor_order(caller, s.value, set()):
                order_names.add(s.targets[0].id)
        sites = []
        for c in own_scope_nodes(caller.node):
            if isinstance(c, ast.Call):
                ct = repo.resolve_call(caller, caller.module, c)
                if ct.kind == "repo" and callee in ct.funcs:
                    sites.append((c, ct))
        # the hop may sit in a local helper (`def project(point): return proximal_operator(point, k=k, ...)`):
        # the helper reads the caller's k either as a closure variable it never rebinds or, after lambda
        # lifting, as a keyword-only parameter that every call of the helper fills with k=k.
        for hname, helpers in caller.nested_all.items():
            for h in helpers:
                hsites = []
                for c in own_scope_nodes(h.node):
                    if isinstance(c, ast.Call):
                        ct = repo.resolve_call(h, h.module, c)
                        if ct.kind == "repo" and callee in ct.funcs:
                            hsites.append((c, ct))
                if not hsites:
                    continue
                hbound = {x.id for x in own_scope_nodes(h.node) if isinstance(x, ast.Name) and isinstance(x.ctx, ast.Store)}
                passed = names + [n for n in ("n_const", "order") if n in callee.all_params]
                for n in passed:
                    if n in hbound:
                        ctx.finding("KW-FORWARD", caller, h.node, f"local helper {hname} rebinds `{n}` before forwarding it to {callee.name}", construct=f"{caller.name}.{hname}: rebinds {n}")
                    elif n in h.all_params:
                        for c2 in own_scope_nodes(caller.node):
                            if isinstance(c2, ast.Call) and is_name(c2.func, hname):
                                kw = {k.arg: k.value for k in c2.keywords}
                                if not is_name(kw.get(n), n):
                                    ctx.finding("KW-FORWARD", caller, c2, f"local helper {hname} receives `{n}` as `{src(kw[n]) if n in kw else '<default>'}` rather than {n}={n}", construct=f"{caller.name}->{hname}: {n}={src(kw[n]) if n in kw else '<missing>'}")
                sites.extend(hsites)
        scan_caller = caller
        if not sites:
            # the call may sit in a private module-level helper: look at the caller with its helpers expanded
            from ..inline import with_inlined

            scan_caller = with_inlined(repo, caller)
            for c in own_scope_nodes(scan_caller.node):
                if isinstance(c, ast.Call):
                    ct = repo.resolve_call(caller, caller.module, c)
                    if ct.kind == "repo" and callee in ct.funcs:
                        sites.append((c, ct))
        if not sites:
            raise AnalysisError(f"KW-FORWARD: hop {caller.qname} -> {callee.name} vanished")
        for c, ct in sites:
            b = bind_call(c, callee, ct.bound)
            # f(**spec) with spec = dict(k=k, ...) / {"k": k, ...}: the keywords are those of the literal
            for sk in list(b.star_kwargs):
                lit = inline_locals(scan_caller.node, sk) if isinstance(sk, ast.Name) else sk
                pairs = None
                if isinstance(lit, ast.Call) and is_name(lit.func, "dict") and not lit.args and all(k.arg for k in lit.keywords):
                    pairs = [(k.arg, k.value) for k in lit.keywords]
                elif isinstance(lit, ast.Dict) and all(isinstance(k, ast.Constant) and isinstance(k.value, str) for k in lit.keys):
                    pairs = [(k.value, v) for k, v in zip(lit.keys, lit.values)]
                if pairs is not None:
                    for k, v in pairs:
                        if k in callee.all_params and k not in b.params:
                            b.params[k] = v
            if not b.ok:
                ctx.finding("KW-FORWARD", caller, c, f"call to {callee.name} does not bind: {b.problems}")
                continue
            for n in names:
                if n not in callee.all_params:
                    continue
                a = b.params.get(n)
                res.instance("KW-FORWARD", f"{caller.qname}->{callee.name}:{n}", sample={"arg": src(a) if a is not None else None} if n == names[0] else None)
                if mode == "self":
                    ok = isinstance(a, ast.Attribute) and a.attr == n and is_name(a.value, caller.self_name)
                else:
                    ok = is_name(a, n)
                if not ok:
                    what = "is not forwarded (the callee's default None applies: the constraint is silently dropped)" if a is None else f"is forwarded as `{src(a)}`: another constraint kind or value is applied in its place"
                    ctx.finding("KW-FORWARD", caller, c, f"`{n}` {what} in the call to {callee.name}", construct=f"{caller.name}->{callee.name}: {n}={src(a) if a is not None else '<missing>'}")
            # n_const must be the tensor order
            if "n_const" in callee.all_params and callee is not vc or (callee is vc and caller is not None):
                a = b.params.get("n_const")
                if "n_const" in callee.all_params:
                    res.instance("KW-FORWARD", f"{caller.qname}->{callee.name}:n_const", sample={"arg": src(a) if a is not None else None})
                    if a is None or not _is_tensor_order(caller, a, order_names):
                        ctx.finding("KW-FORWARD", caller, c, f"n_const passed to {callee.name} is `{src(a) if a is not None else '<default>'}`, not the tensor order: per-mode constraint tables get the wrong length", construct=f"{caller.name}->{callee.name}: n_const={src(a) if a is not None else '<default>'}")
            # order / index agreement
            if "order" in callee.all_params and caller is not cp or callee is admm or callee is po:
                a = b.params.get("order")
                if "order" in callee.all_params and not (caller is cp and callee is vc):
                    idxs = set()
                    stmt_scope = _enclosing_stmt(scan_caller, c)
                    for x in ast.walk(stmt_scope):
                        if isinstance(x, ast.Subscript) and isinstance(x.value, ast.Name) and x.value.id in ("factors", "dual_variables", "factors_aux"):
                            idxs.add(src(x.slice))
                    res.instance("KW-FORWARD", f"{caller.qname}->{callee.name}:order/index", sample={"order": src(a) if a is not None else None, "subscripts": sorted(idxs)})
                    if caller in (cp, icp):
                        if a is None:
                            ctx.finding("KW-FORWARD", caller, c, f"`order` is not passed to {callee.name}: every mode gets mode 0's constraint", construct=f"{caller.name}->{callee.name}: order missing")
                        elif len(idxs | {src(a)}) != 1:
                            ctx.finding("KW-FORWARD", caller, c, f"index mismatch inside one statement: order={src(a)} but subscripts {sorted(idxs)}: a factor is constrained / updated with another mode's data", construct=f"{caller.name}->{callee.name}: order={src(a)} idx={sorted(idxs)}")
                    else:
                        if a is None or not is_name(a, "order"):
                            ctx.finding("KW-FORWARD", caller, c, f"`order` is not forwarded as order=order to {callee.name}", construct=f"{caller.name}->{callee.name}: order={src(a) if a is not None else '<missing>'}")


def order_names_of(f):
    """locals of ``f`` that hold the tensor order (assigned from tl.ndim(<first parameter>))"""
    out = set()
    for s in own_scope_nodes(f.node):
        if isinstance(s, ast.Assign) and len(s.targets) == 1 and isinstance(s.targets[0], ast.Name) and _is_tensor_order(f, s.value, set()):
            out.add(s.targets[0].id)
    return out


def _enclosing_stmt(f, node):
    for s in own_scope_nodes(f.node):
        if isinstance(s, ast.stmt) and not isinstance(s, (ast.If, ast.For, ast.While, ast.Try, ast.With, ast.FunctionDef)):
            for x in ast.walk(s):
                if x is node:
                    return s
    return node


# ---------------------------------------------------------------------------------
class _AdmmRule:
    """Typestate of every local of admm: "start" (the primal start value `x` or a plain copy
    of it), "prox" (a proximal_operator output, directly or through a helper all of whose
    returns are proximal_operator calls) or "other:<stmt>".  Names do not matter: the rule
    follows whichever local ends up as the first return component."""

    def __init__(self, f, xname, repo):
        self.f, self.x, self.repo = f, xname, repo

    def init_state(self):
        return ((self.x, "start"),)

    def _is_prox_call(self, v, depth=0):
        if not isinstance(v, ast.Call) or depth > 2:
            return False
        ct = self.repo.resolve_call(self.f, self.f.module, v)
        if ct.kind != "repo" or not ct.funcs:
            return False
        for g in ct.funcs:
            if g.name == "proximal_operator":
                continue
            rets = [n for n in own_scope_nodes(g.node) if isinstance(n, ast.Return)]
            if not rets or not all(r.value is not None and self._is_prox_call(r.value, depth + 1) for r in rets):
                return False
        return True

    def _tag(self, v, env):
        if isinstance(v, ast.Name):
            return env.get(v.id, "other:" + v.id)
        if self._is_prox_call(v):
            return "prox"
        return "other:" + src(v)[:80]

    def transfer(self, node, st, ex):
        a = node.ast
        env = dict(st)
        if node.kind in ("stmt", "for", "with") and a is not None:
            if isinstance(a, ast.Assign):
                for t in a.targets:
                    if isinstance(t, ast.Name):
                        env[t.id] = self._tag(a.value, env)
                    else:
                        for x in ast.walk(t):
                            if isinstance(x, ast.Name) and isinstance(x.ctx, ast.Store):
                                env[x.id] = "other:" + src(a)[:80]
            elif isinstance(a, ast.AugAssign) and isinstance(a.target, ast.Name):
                env[a.target.id] = "other:" + src(a)[:80]
            elif isinstance(a, ast.AnnAssign) and isinstance(a.target, ast.Name) and a.value is not None:
                env[a.target.id] = self._tag(a.value, env)
            elif isinstance(a, ast.For):
                for x in ast.walk(a.target):
                    if isinstance(x, ast.Name):
                        env[x.id] = "other:" + src(a.target)
        if node.kind == "return" and a.value is not None:
            v = a.value
            first = v.elts[0] if isinstance(v, ast.Tuple) and v.elts else v
            tag = self._tag(first, env)
            if tag.startswith("other"):
                ex.report(("PROX-TYPESTATE", src(a)), f"admm's first return component `{src(first)}` was last defined by `{tag[6:]}`, which is not a proximal_operator output: the primal handed back is not guaranteed to satisfy the constraint", node)
        return tuple(sorted(env.items()))


class _InitRule:
    def __init__(self, f, repo, prox_loops):
        self.f, self.repo, self.loops = f, repo, prox_loops

    def init_state(self):
        return False

    def transfer(self, node, st, ex):
        a = node.ast
        if node.kind == "stmt" and node.note == "opaque" and any(a is l for l in self.loops):
            return True
        if node.kind == "stmt" and isinstance(a, ast.Assign):
            # any later re-definition of factors un-does the projection
            for t in a.targets:
                b = t
                while isinstance(b, ast.Subscript):
                    b = b.value
                if is_name(b, "factors"):
                    return False
        if node.kind == "return" and not st:
            ex.report(("PROX-TYPESTATE", src(a)), "initialize_constrained_parafac returns factors that did not pass through proximal_operator on this path (built-in initialisation)", node)
        return st


def prox_typestate(ctx, names, po, admm, icp, cp):
    repo, res = ctx.repo, ctx.res
    # (1) admm
    xname = admm.pos_params[2] if len(admm.pos_params) > 2 else None
    if xname != "x":
        raise AnalysisError(f"admm: third parameter is {xname}, expected the primal start `x`")
    g = build_cfg(admm.node, admm.qname)
    ex = Explorer(g, _AdmmRule(admm, xname, repo), entry_valuation={"n_const is None": False}).run()
    res.instance("PROX-TYPESTATE", f"{admm.qname}: returned primal", sample={"states": ex.states, "paths": ex.paths_to_exit})
    for v in ex.violations.values():
        ctx.finding("PROX-TYPESTATE", admm, v.node.ast, v.message, construct=v.key[1], path=v.path)
    # (2) constrained_parafac: factors[...] stored only from admm(...)[0]
    n_st = 0
    for s in own_scope_nodes(cp.node):
        if isinstance(s, (ast.Assign, ast.AugAssign)):
            ts = s.targets if isinstance(s, ast.Assign) else [s.target]
            for t in ts:
                elts = t.elts if isinstance(t, ast.Tuple) else [t]
                for i, e in enumerate(elts):
                    if isinstance(e, ast.Subscript) and is_name(e.value, "factors"):
                        n_st += 1
                        ok = False
                        if isinstance(s, ast.Assign) and isinstance(t, ast.Tuple) and i == 0 and isinstance(s.value, ast.Call):
                            ct = repo.resolve_call(cp, cp.module, s.value)
                            ok = ct.kind == "repo" and admm in ct.funcs
                        elif isinstance(s, ast.Assign) and not isinstance(t, ast.Tuple) and isinstance(s.value, ast.Name):
                            # `a, b, c = admm(...)` ... `factors[mode] = a`: a single-definition temporary
                            ok = _first_of_admm(repo, cp, admm, s.value.id)
                        res.instance("PROX-TYPESTATE", f"{cp.qname}: store {src(e)}", sample={"stmt": src(s)[:120], "ok": ok})
                        if not ok:
                            ctx.finding("PROX-TYPESTATE", cp, s, f"`{src(e)}` is stored from something other than the first component of admm(...): the returned factor need not be a proximal-operator output", construct=src(s))
                    elif isinstance(e, ast.Name) and e.id == "factors" and s.lineno > _first_line_of_loop(cp):
                        ctx.finding("PROX-TYPESTATE", cp, s, "`factors` is rebound inside/after the sweep by something other than admm", construct=src(s))
    if n_st == 0:
        raise AnalysisError("constrained_parafac: no store into factors[...] found; anchor changed")
    # (3) initialiser: svd / random branches pass the prox loop before returning
    from ..inline import with_inlined

    icp = with_inlined(repo, icp)  # the projection loop may live in a private helper
    loops = []
    for s in own_scope_nodes(icp.node):
        if isinstance(s, ast.For) and len(s.body) == 1 and isinstance(s.body[0], ast.Assign):
            a = s.body[0]
            if len(a.targets) == 1 and isinstance(a.targets[0], ast.Subscript) and is_name(a.targets[0].value, "factors") and isinstance(a.value, ast.Call):
                ct = repo.resolve_call(icp, icp.module, a.value)
                if ct.kind == "repo" and ct.funcs[0] is po and a.value.args and src(a.value.args[0]) == src(a.targets[0]) and is_name(a.targets[0].slice, s.target.id if isinstance(s.target, ast.Name) else ""):
                    # the loop must cover every mode: range(<tensor order>) / range(len(factors))
                    it = s.iter
                    full = isinstance(it, ast.Call) and is_name(it.func, "range") and len(it.args) == 1 and (
                        _is_tensor_order(icp, it.args[0], order_names_of(icp))
                        or (isinstance(it.args[0], ast.Call) and is_name(it.args[0].func, "len") and it.args[0].args and is_name(it.args[0].args[0], "factors"))
                    )
                    if full:
                        loops.append(s)
                # for i, factor in enumerate(factors): factors[i] = proximal_operator(factor, ...): every element, in place
                elif (
                    ct.kind == "repo" and ct.funcs[0] is po and a.value.args
                    and isinstance(s.target, (ast.Tuple, ast.List)) and len(s.target.elts) == 2 and all(isinstance(x, ast.Name) for x in s.target.elts)
                    and isinstance(s.iter, ast.Call) and is_name(s.iter.func, "enumerate") and len(s.iter.args) == 1 and is_name(s.iter.args[0], "factors")
                    and is_name(a.targets[0].slice, s.target.elts[0].id) and is_name(a.value.args[0], s.target.elts[1].id)
                ):
                    loops.append(s)
    for initv in ("svd", "random"):
        g = build_cfg(icp.node, icp.qname, opaque=lambda st: any(st is l for l in loops))
        ex = Explorer(g, _InitRule(icp, repo, loops), {"init": initv}).run()
        res.instance("PROX-TYPESTATE", f"{icp.qname}[init={initv}]", sample={"prox_loops": len(loops), "states": ex.states, "paths": ex.paths_to_exit})
        if ex.paths_to_exit == 0:
            raise AnalysisError(f"initialize_constrained_parafac: no path for init={initv!r}")
        for v in ex.violations.values():
            ctx.finding("PROX-TYPESTATE", icp, v.node.ast, v.message + f" [init={initv!r}]", construct=v.key[1] + f" [init={initv}]", path=v.path)


def _first_of_admm(repo, cp, admm, name):
    """Every definition of local `name` in cp is component 0 of an admm(...) result."""
    defs = []
    for s in own_scope_nodes(cp.node):
        if isinstance(s, ast.Assign):
            for t in s.targets:
                elts = t.elts if isinstance(t, (ast.Tuple, ast.List)) else [t]
                for i, e in enumerate(elts):
                    if isinstance(e, ast.Name) and e.id == name:
                        good = False
                        if isinstance(s.value, ast.Call):
                            ct = repo.resolve_call(cp, cp.module, s.value)
                            if ct.kind == "repo" and admm in ct.funcs:
                                good = (isinstance(t, (ast.Tuple, ast.List)) and i == 0)
                        elif isinstance(s.value, ast.Subscript) and isinstance(s.value.value, ast.Call) and isinstance(s.value.slice, ast.Constant) and s.value.slice.value == 0 and not isinstance(t, (ast.Tuple, ast.List)):
                            ct = repo.resolve_call(cp, cp.module, s.value.value)
                            good = ct.kind == "repo" and admm in ct.funcs
                        defs.append(good)
                    elif isinstance(e, ast.Starred) and is_name(e.value, name):
                        defs.append(False)
        elif isinstance(s, (ast.AugAssign, ast.AnnAssign)) and is_name(s.target, name):
            defs.append(False)
        elif isinstance(s, (ast.For, ast.comprehension)) and any(isinstance(x, ast.Name) and x.id == name for x in ast.walk(s.target)):
            defs.append(False)
        elif isinstance(s, (ast.withitem,)) and s.optional_vars is not None and any(isinstance(x, ast.Name) and x.id == name for x in ast.walk(s.optional_vars)):
            defs.append(False)
    return bool(defs) and all(defs)


def _first_line_of_loop(f):
    for s in f.node.body:
        if isinstance(s, ast.For):
            return s.lineno
    return 10**9


# ---------------------------------------------------------------------------------
class _ValidateFirst:
    def __init__(self, f, repo):
        self.f, self.repo = f, repo

    def init_state(self):
        return False

    def transfer(self, node, st, ex):
        a = node.ast
        if a is None or node.kind not in ("stmt", "test", "for", "with", "return"):
            return st
        for c in ast.walk(a):
            if isinstance(c, ast.Call):
                nm = call_name(c)
                if nm == "validate_constraints":
                    st = True
                elif nm in ("initialize_constrained_parafac", "admm", "unfolding_dot_khatri_rao") and not st:
                    ex.report(("VALIDATE-FIRST", nm), f"`{nm}` runs before validate_constraints on this path: a double constraint on one mode is not rejected before work starts", node)
        return st


def validate_first(ctx, vc, cp, icp):
    res = ctx.res
    g = build_cfg(cp.node, cp.qname)
    ex = Explorer(g, _ValidateFirst(cp, ctx.repo)).run()
    res.instance("VALIDATE-FIRST", f"{cp.qname}: validate before initialise", sample={"states": ex.states})
    for v in ex.violations.values():
        ctx.finding("VALIDATE-FIRST", cp, v.node.ast, v.message, construct=v.key[1], path=v.path)
    # every recording of a mode into the "already constrained" set is guarded by a raise on
    # prior membership (or, for a bulk recording, on the set being non-empty).  The set is
    # whichever local of validate_constraints is initialised with set(); recordings are
    # looked for in the function and its local helpers.
    sets = set()
    for st in own_scope_nodes(vc.node):
        if isinstance(st, ast.Assign) and len(st.targets) == 1 and isinstance(st.targets[0], ast.Name) and isinstance(st.value, ast.Call) and is_name(st.value.func, "set") and not st.value.args:
            sets.add(st.targets[0].id)
    adds = []
    par = {}
    for n in ast.walk(vc.node):
        for c in ast.iter_child_nodes(n):
            par[id(c)] = n
    for c in ast.walk(vc.node):
        if isinstance(c, ast.Call) and isinstance(c.func, ast.Attribute) and c.func.attr in ("add", "update") and isinstance(c.func.value, ast.Name) and c.func.value.id in sets:
            adds.append(c)
        elif isinstance(c, ast.AugAssign) and isinstance(c.target, ast.Name) and c.target.id in sets:
            adds.append(c)
    if not adds:
        raise AnalysisError("validate_constraints: modes_constrained bookkeeping vanished")

    def nonempty_test(t, S):
        if is_name(t, S):
            return True
        if isinstance(t, ast.Call) and is_name(t.func, "len") and t.args and is_name(t.args[0], S):
            return True
        if isinstance(t, ast.Compare) and len(t.ops) == 1 and isinstance(t.left, ast.Call) and is_name(t.left.func, "len") and t.left.args and is_name(t.left.args[0], S) and isinstance(t.comparators[0], ast.Constant):
            k, op = t.comparators[0].value, t.ops[0]
            return (k == 0 and isinstance(op, (ast.Gt, ast.NotEq))) or (k == 1 and isinstance(op, ast.GtE))
        return False

    def member_test(t, S, elem):
        return isinstance(t, ast.Compare) and len(t.ops) == 1 and isinstance(t.ops[0], ast.In) and is_name(t.comparators[0], S) and src(t.left) == elem

    for c in adds:
        if isinstance(c, ast.Call):
            S = c.func.value.id
            elem = src(c.args[0]) if (c.func.attr == "add" and c.args) else None
        else:
            S, elem = c.target.id, None
        guarded = False
        n = c
        while id(n) in par and not guarded:
            p = par[id(n)]
            for fld in ("body", "orelse"):
                blk = getattr(p, fld, None)
                if isinstance(blk, list) and any(x is n for x in blk):
                    for st in blk[: [i for i, x in enumerate(blk) if x is n][0]]:
                        if isinstance(st, ast.If) and st.body and isinstance(st.body[-1], ast.Raise):
                            tests = st.test.values if isinstance(st.test, ast.BoolOp) and isinstance(st.test.op, ast.Or) else [st.test]
                            if any(nonempty_test(t, S) or (elem is not None and member_test(t, S, elem)) for t in tests):
                                guarded = True
            # ... or the recording is the else-branch of that raising test (`elif taken: raise / else: record`)
            if isinstance(p, ast.If) and any(x is n for x in p.orelse) and p.body and isinstance(p.body[-1], ast.Raise):
                tests = p.test.values if isinstance(p.test, ast.BoolOp) and isinstance(p.test.op, ast.Or) else [p.test]
                if any(nonempty_test(t, S) or (elem is not None and member_test(t, S, elem)) for t in tests):
                    guarded = True
            n = p
            if isinstance(p, (ast.FunctionDef,)):
                break
        res.instance("VALIDATE-FIRST", f"validate_constraints: {src(c)[:60]} guarded", sample={"guarded": guarded})
        if not guarded:
            ctx.finding("VALIDATE-FIRST", vc, c, f"`{src(c)[:80]}` records modes as constrained without first raising if they already were: two constraints on one mode are accepted silently", construct=src(c))


def index_agree(ctx, vc):
    """Where validate_constraints registers a constraint, the per-mode tables and the user's specification
    are indexed by the same key within one loop body (read on the inlined function: the registration may be
    a nested helper or written out)."""
    from ..inline import with_inlined

    res = ctx.res
    f = with_inlined(ctx.repo, vc)
    TABLES = ("constraints", "parameters")
    n = 0
    loops = [lp for lp in own_scope_nodes(f.node) if isinstance(lp, ast.For)]
    for loop in loops:
        stores = [st for st in ast.walk(loop) if isinstance(st, ast.Assign) and len(st.targets) == 1 and isinstance(st.targets[0], ast.Subscript) and isinstance(st.targets[0].value, ast.Name) and st.targets[0].value.id in TABLES]
        if not stores:
            continue
        # innermost loops only
        if any(isinstance(y, ast.For) and y is not loop and any(s_ in list(ast.walk(y)) for s_ in stores) for y in ast.walk(loop)):
            continue
        idx = {}
        for st in stores:
            idx.setdefault(st.targets[0].value.id, set()).add(src(st.targets[0].slice))
            if st.targets[0].value.id == "parameters":
                # an index used to *read the user's value* for a mode
                for x in ast.walk(st.value):
                    if isinstance(x, ast.Subscript) and isinstance(x.value, ast.Name) and x.value.id not in TABLES and isinstance(x.ctx, ast.Load):
                        idx.setdefault("spec", set()).add(src(x.slice))
        n += 1
        # reads like modes[i] (building the key) are not value reads: drop indices that
        # only occur as sub-expressions of another index
        alls = set().union(*idx.values())
        keys = {k: {i for i in v if not any(i != j and i in j for j in alls)} or v for k, v in idx.items()}
        distinct = set().union(*[v for k, v in keys.items()])
        ok = len(distinct) == 1
        res.instance("INDEX-AGREE", f"{vc.qname}: loop@{src(loop.target)} in {src(loop.iter)[:40]}", sample={"indices": {k: sorted(v) for k, v in keys.items()}, "ok": ok})
        if not ok:
            ctx.finding("INDEX-AGREE", f, loop, f"inside one loop the per-mode tables and the specification are indexed differently ({ {k: sorted(v) for k, v in keys.items()} }): a constraint or its parameter is registered for another mode than the one it was requested for", construct=f"for {src(loop.target)} in {src(loop.iter)[:40]}: indices {sorted(distinct)}")
    if n == 0:
        raise AnalysisError("INDEX-AGREE: no registration loop found in validate_constraints")


def sign_handler(ctx, po):
    res = ctx.res
    br = _dispatch_branches(po)
    if "non_negative" not in br:
        return
    _, node = br["non_negative"]
    tparam = po.pos_params[0]
    for st in node.body:
        for r in ast.walk(st):
            if isinstance(r, ast.Return):
                ok, why = nonneg_expr(ctx, po, r.value, tparam)
                res.instance("SIGN-HANDLER", f"proximal_operator[non_negative]: {src(r)}", sample={"ok": ok, "why": why})
                if not ok:
                    ctx.finding("SIGN-HANDLER", po, r, f"the non-negativity handler can return negative entries: {why}", construct=src(r))


def nonneg_expr(ctx, f, e, tparam=None):
    """Is ``e`` entrywise non-negative for every input? (clip/abs/where/maximum idioms)."""
    if isinstance(e, ast.Call):
        ct = ctx.repo.resolve_call(f, f.module, e)
        nm = ct.name if ct.kind in ("backend", "ext") else None
        nm = nm.rsplit(".", 1)[-1] if nm else None
        if nm == "abs":
            return True, "abs"
        if nm == "clip":
            lo = e.args[1] if len(e.args) > 1 else kwarg(e, "a_min")
            hi = e.args[2] if len(e.args) > 2 else kwarg(e, "a_max")
            lo_ok = isinstance(lo, ast.Constant) and isinstance(lo.value, (int, float)) and lo.value >= 0
            if not lo_ok:
                return False, f"lower clip bound `{src(lo) if lo is not None else None}` is not a literal >= 0"
            if hi is None or is_const(hi, None):
                return True, "clip with lower bound only"
            if isinstance(hi, ast.Constant) and isinstance(hi.value, (int, float)) and hi.value >= lo.value:
                return True, "clip with literal bounds"
            return False, f"upper clip bound `{src(hi)}` depends on the data: when it is below the lower bound (all-negative input) numpy.clip returns the upper bound everywhere, i.e. negative entries"
        if nm == "maximum":
            if any(isinstance(a, ast.Constant) and isinstance(a.value, (int, float)) and a.value >= 0 for a in e.args):
                return True, "maximum with literal >= 0"
        if nm == "where" and len(e.args) == 3:
            a, b = nonneg_expr(ctx, f, e.args[1], tparam), nonneg_expr(ctx, f, e.args[2], tparam)
            # where(x < c, c, x)
            c = e.args[0]
            if isinstance(c, ast.Compare) and len(c.ops) == 1 and isinstance(c.ops[0], (ast.Lt, ast.LtE)) and isinstance(e.args[1], ast.Constant) and isinstance(e.args[1].value, (int, float)) and e.args[1].value >= 0 and src(c.comparators[0]) == src(e.args[1]) and src(c.left) == src(e.args[2]):
                return True, "where(x < c, c, x)"
            if a[0] and b[0]:
                return True, "where of non-negatives"
    if isinstance(e, ast.Constant) and isinstance(e.value, (int, float)) and e.value >= 0:
        return True, "literal"
    return False, f"`{src(e)}` is not a recognised sign sanitiser (clip with literal lower bound only / abs / maximum / where(x<c,c,x))"
