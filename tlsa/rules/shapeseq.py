"""SKIP-ARITY — how many modes a partial unfolding leaves untouched (C01).

`partial_unfold(tensor, mode, skip_begin, skip_end)` promises that the first `skip_begin` and
the last `skip_end` modes are left untouched.  Whatever way the target shape of the final
`reshape` is assembled (conditional prepends / appends, slices, comprehensions), it must
consist of exactly `skip_begin` single-axis sizes, then the unfolded block
(`[size of the mode, -1]`, or `[-1]` when ravelling), then exactly `skip_end` single-axis
sizes.  The lengths are computed symbolically: integers and list lengths are linear forms
over the parameters and the order N of the tensor; a branch `if p:` knows p == 0 in its else
arm.  The rule compares linear forms, not text, so any correct way of building the shape
passes, and a slice that starts `skip_begin` entries too late (only wrong when both skips are
non-zero -- which no test uses) does not.
"""

from __future__ import annotations

import ast
from fractions import Fraction
from typing import Dict, List, Optional, Tuple

from ..common import Ctx, call_name, is_name, src
from ..model import AnalysisError, own_scope_nodes

Lin = Dict[str, Fraction]  # symbol -> coefficient; "" is the constant term


def lin(c=0, **syms) -> Lin:
    out = {"": Fraction(c)} if c else {}
    for k, v in syms.items():
        out[k] = Fraction(v)
    return out


def l_add(a: Lin, b: Lin, sign=1) -> Lin:
    out = dict(a)
    for k, v in b.items():
        out[k] = out.get(k, 0) + sign * v
    return {k: v for k, v in out.items() if v != 0}


def l_subst(a: Lin, sym: str, val: int) -> Lin:
    if sym not in a:
        return a
    out = {k: v for k, v in a.items() if k != sym}
    if val:
        out[""] = out.get("", 0) + a[sym] * val
    return {k: v for k, v in out.items() if v != 0}


def l_str(a: Lin) -> str:
    if not a:
        return "0"
    parts = []
    for k in sorted(a):
        v = a[k]
        parts.append(f"{v}" if k == "" else (k if v == 1 else f"{v}*{k}"))
    return " + ".join(parts).replace("+ -", "- ")


class Seg:
    """a run of entries of a shape list: `kind` in lead (sizes of the first axes, in order),
    trail (sizes of the last axes), mode (size of one axis), minus1, other"""

    def __init__(self, kind: str, length: Lin):
        self.kind, self.length = kind, length

    def __repr__(self):
        return f"{self.kind}[{l_str(self.length)}]"


class Unknown(Exception):
    pass


class ShapeEval:
    def __init__(self, f, tensor: str, flags=None):
        self.f, self.tensor = f, tensor
        self.flags = dict(flags or {})
        self.ints: Dict[str, Lin] = {p: lin(**{p: 1}) for p in f.all_params if p != tensor}
        self.seqs: Dict[str, List[Seg]] = {}
        self.shape_names = set()
        self.known: Dict[str, int] = {}
        # local helpers `def dim(axis): return tensor.shape[axis]`
        self.getters = set()
        for n in f.node.body:
            if isinstance(n, ast.FunctionDef) and len(n.args.args) == 1 and len(n.body) == 1 and isinstance(n.body[0], ast.Return):
                r = n.body[0].value
                if isinstance(r, ast.Subscript) and self.is_shape(r.value) and is_name(r.slice, n.args.args[0].arg):
                    self.getters.add(n.name)

    def _norm(self, e):
        """getter(i) -> tensor.shape[i]"""
        if isinstance(e, ast.Call) and isinstance(e.func, ast.Name) and e.func.id in self.getters and len(e.args) == 1:
            return ast.Subscript(value=ast.Attribute(value=ast.Name(id=self.tensor, ctx=ast.Load()), attr="shape", ctx=ast.Load()), slice=e.args[0], ctx=ast.Load())
        return e

    # integers -----------------------------------------------------------------------
    def int_of(self, e) -> Lin:
        if isinstance(e, ast.Constant) and isinstance(e.value, int) and not isinstance(e.value, bool):
            return lin(e.value)
        if isinstance(e, ast.Name) and e.id in self.ints:
            v = self.ints[e.id]
            for s, k in self.known.items():
                v = l_subst(v, s, k)
            return v
        if isinstance(e, ast.UnaryOp) and isinstance(e.op, ast.USub):
            return l_add({}, self.int_of(e.operand), -1)
        if isinstance(e, ast.BinOp) and isinstance(e.op, (ast.Add, ast.Sub)):
            return l_add(self.int_of(e.left), self.int_of(e.right), 1 if isinstance(e.op, ast.Add) else -1)
        if isinstance(e, ast.Call) and call_name(e) == "len" and e.args:
            return self.seq_len(e.args[0])
        if isinstance(e, ast.Call) and call_name(e) == "ndim" and e.args and is_name(e.args[0], self.tensor):
            return lin(N=1)
        if isinstance(e, ast.Attribute) and e.attr == "ndim" and is_name(e.value, self.tensor):
            return lin(N=1)
        raise Unknown(f"integer `{src(e)[:50]}`")

    # sequences ----------------------------------------------------------------------
    def is_shape(self, e) -> bool:
        if isinstance(e, ast.Name):
            return e.id in self.shape_names
        if isinstance(e, ast.Attribute):
            return e.attr == "shape" and is_name(e.value, self.tensor)
        if isinstance(e, ast.Call):
            nm = call_name(e)
            if nm == "shape" and e.args and is_name(e.args[0], self.tensor):
                return True
            if nm in ("list", "tuple") and e.args:
                return self.is_shape(e.args[0])
        return False

    def seq_len(self, e) -> Lin:
        t: Lin = {}
        for s in self.seq_of(e):
            t = l_add(t, s.length)
        return t

    def seq_of(self, e) -> List[Seg]:
        if self.is_shape(e):
            return [Seg("all", lin(N=1))]
        if isinstance(e, ast.Name) and e.id in self.seqs:
            return list(self.seqs[e.id])
        if isinstance(e, (ast.List, ast.Tuple)):
            out = []
            has_m1 = any(isinstance(x, ast.UnaryOp) and isinstance(x.op, ast.USub) and isinstance(x.operand, ast.Constant) and x.operand.value == 1 for x in e.elts)
            for x in e.elts:
                x = self._norm(x)
                if isinstance(x, ast.UnaryOp) and isinstance(x.op, ast.USub) and isinstance(x.operand, ast.Constant) and x.operand.value == 1:
                    out.append(Seg("minus1", lin(1)))
                elif has_m1:
                    out.append(Seg("mode", lin(1)))  # written next to the -1: part of the unfolded block
                elif isinstance(x, ast.Subscript) and self.is_shape(x.value):
                    out.append(Seg("mode", lin(1)))
                else:
                    out.append(Seg("other", lin(1)))
            return out
        if isinstance(e, ast.Call) and call_name(e) in ("list", "tuple") and e.args:
            return self.seq_of(e.args[0])
        if isinstance(e, ast.IfExp):
            t, neg = e.test, False
            if isinstance(t, ast.UnaryOp) and isinstance(t.op, ast.Not):
                t, neg = t.operand, True
            if isinstance(t, ast.Name) and t.id in self.flags:
                return self.seq_of(e.body if self.flags[t.id] != neg else e.orelse)
        if isinstance(e, ast.BinOp) and isinstance(e.op, ast.Add):
            return self.seq_of(e.left) + self.seq_of(e.right)
        if isinstance(e, ast.Subscript) and isinstance(e.slice, ast.Slice) and self.is_shape(e.value) and e.slice.step is None:
            lo, hi = e.slice.lower, e.slice.upper
            n = lin(N=1)

            def bound(b, default):
                if b is None:
                    return default, None
                if isinstance(b, ast.UnaryOp) and isinstance(b.op, ast.USub):
                    return l_add(n, self.int_of(b.operand), -1), "neg"
                return self.int_of(b), "pos"

            lo_v, _ = bound(lo, {})
            hi_v, _ = bound(hi, n)
            length = l_add(hi_v, lo_v, -1)
            if lo is None:
                return [Seg("lead", length)]
            if hi is None:
                # shape[a:]: the last N - a axes
                return [Seg("trail", length)]
            return [Seg("other", length)]
        if isinstance(e, (ast.ListComp, ast.GeneratorExp)) and len(e.generators) == 1 and not e.generators[0].ifs:
            g = e.generators[0]
            it = g.iter
            elt = self._norm(e.elt)
            if isinstance(it, ast.Call) and is_name(it.func, "range") and isinstance(g.target, ast.Name) and isinstance(elt, ast.Subscript) and self.is_shape(elt.value):
                i = g.target.id
                idx = elt.slice
                a = it.args
                if len(a) == 1 and is_name(idx, i):
                    return [Seg("lead", self.int_of(a[0]))]  # shape[0], ..., shape[k-1]
                if len(a) == 3 and isinstance(a[2], ast.UnaryOp) and isinstance(a[2].op, ast.USub) and isinstance(a[2].operand, ast.Constant) and a[2].operand.value == 1 and isinstance(a[1], ast.Constant) and a[1].value == 0 and isinstance(idx, ast.UnaryOp) and isinstance(idx.op, ast.USub) and is_name(idx.operand, i):
                    return [Seg("trail", self.int_of(a[0]))]  # shape[-k], ..., shape[-1]
                if len(a) == 2 and is_name(idx, i):
                    lo_v, hi_v = self.int_of(a[0]), self.int_of(a[1])
                    kind = "trail" if hi_v == lin(N=1) else "other"
                    return [Seg(kind, l_add(hi_v, lo_v, -1))]
        raise Unknown(f"sequence `{src(e)[:60]}`")

    # statements ---------------------------------------------------------------------
    def block(self, stmts):
        for s in stmts:
            if isinstance(s, ast.Assign) and len(s.targets) == 1 and isinstance(s.targets[0], ast.Name):
                t = s.targets[0].id
                if self.is_shape(s.value):
                    self.shape_names.add(t)
                    continue
                try:
                    self.seqs[t] = self.seq_of(s.value)
                    continue
                except Unknown:
                    self.seqs.pop(t, None)
                try:
                    self.ints[t] = self.int_of(s.value)
                except Unknown:
                    self.ints.pop(t, None)
            elif isinstance(s, ast.AugAssign) and isinstance(s.target, ast.Name) and isinstance(s.op, ast.Add) and s.target.id in self.seqs:
                self.seqs[s.target.id] = self.seqs[s.target.id] + self.seq_of(s.value)
            elif isinstance(s, ast.If):
                self.branch(s)
            elif isinstance(s, ast.Return):
                self.returns.append(s)
            elif isinstance(s, ast.For) and not s.orelse and len(s.body) == 1 and isinstance(s.body[0], ast.Expr) and isinstance(s.body[0].value, ast.Call) and isinstance(s.body[0].value.func, ast.Attribute) and s.body[0].value.func.attr == "append" and isinstance(s.body[0].value.func.value, ast.Name) and s.body[0].value.func.value.id in self.seqs and len(s.body[0].value.args) == 1:
                # for x in IT: L.append(E)   is   L += [E for x in IT]
                call = s.body[0].value
                comp = ast.ListComp(elt=call.args[0], generators=[ast.comprehension(target=s.target, iter=s.iter, ifs=[], is_async=0)])
                ast.copy_location(comp, s)
                ast.fix_missing_locations(comp)
                nm = call.func.value.id
                self.seqs[nm] = self.seqs[nm] + self.seq_of(comp)
            elif isinstance(s, ast.Expr) and isinstance(s.value, ast.Call) and isinstance(s.value.func, ast.Attribute) and isinstance(s.value.func.value, ast.Name) and s.value.func.value.id in self.seqs and s.value.func.attr in ("append", "extend", "insert", "pop", "remove", "reverse", "sort", "clear"):
                c = s.value
                nm = c.func.value.id
                if c.func.attr == "append" and len(c.args) == 1:
                    self.seqs[nm] = self.seqs[nm] + self.seq_of(ast.List(elts=[c.args[0]], ctx=ast.Load()))
                elif c.func.attr == "extend" and len(c.args) == 1:
                    self.seqs[nm] = self.seqs[nm] + self.seq_of(c.args[0])
                else:
                    raise Unknown(f"`{src(c)[:60]}` edits a tracked shape list")
            elif isinstance(s, (ast.For, ast.While, ast.With, ast.Try)):
                for n in ast.walk(s):
                    if isinstance(n, ast.Name) and n.id in self.seqs and isinstance(n.ctx, ast.Store):
                        raise Unknown(f"the shape list `{n.id}` is written inside a compound statement (line {s.lineno})")
                    if isinstance(n, ast.Call) and isinstance(n.func, ast.Attribute) and n.func.attr in ("append", "insert", "extend", "pop", "remove") and isinstance(n.func.value, ast.Name) and n.func.value.id in self.seqs:
                        raise Unknown(f"the shape list `{n.func.value.id}` is edited inside a compound statement (line {s.lineno})")

    def branch(self, s: ast.If):
        """`if flag:` on a boolean option, or `if p:` on a count parameter (p == 0 in the else
        arm): each combination is a separate configuration, so exactly one arm is followed."""
        t = s.test
        neg = False
        if isinstance(t, ast.UnaryOp) and isinstance(t.op, ast.Not):
            t, neg = t.operand, True
        if isinstance(t, ast.Name) and t.id in self.flags:
            truth = self.flags[t.id] != neg
            self.block(s.body if truth else s.orelse)
            return
        # a test the configurations do not decide: both arms must leave the same sequences
        snap_seqs, snap_ints = {k: list(v) for k, v in self.seqs.items()}, dict(self.ints)
        self.block(s.body)
        then_seqs = self.seqs
        self.seqs, self.ints = {k: list(v) for k, v in snap_seqs.items()}, dict(snap_ints)
        self.block(s.orelse)
        else_seqs = self.seqs
        merged = {}
        for k in set(then_seqs) & set(else_seqs):
            a, b = then_seqs[k], else_seqs[k]
            if [(x.kind, x.length) for x in a] == [(x.kind, x.length) for x in b]:
                merged[k] = a
        self.seqs = merged


SPECS = [
    # function, tensor parameter, leading-count parameter, trailing-count parameter, boolean options
    ("tensorly.base.partial_unfold", "tensor", "skip_begin", "skip_end", ["ravel_tensors"]),
]


def skip_arity(ctx: Ctx, rule="SKIP-ARITY"):
    res = ctx.res
    from itertools import product

    for q, tparam, lead_p, trail_p, flag_ps in SPECS:
      f = ctx.repo.func(q)
      for p in (tparam, lead_p, trail_p, *flag_ps):
          if p not in f.all_params:
              raise AnalysisError(f"{rule}: {q} no longer has the parameter `{p}`")
      for combo in product([False, True], repeat=len(flag_ps) + 2):
        flags = dict(zip(list(flag_ps) + [lead_p, trail_p], combo))
        label = ", ".join(f"{k}={v}" for k, v in flags.items() if k in flag_ps) + "".join(f", {k} {'> 0' if flags[k] else '== 0'}" for k in (lead_p, trail_p))
        ev = ShapeEval(f, tparam, flags)
        ev.known = {k: 0 for k in (lead_p, trail_p) if not flags[k]}
        ev.returns = []
        try:
            ev.block(f.node.body)
        except Unknown as e:
            raise AnalysisError(f"{rule}: {q} [{label}]: {e} is outside the symbolic shape domain; cannot decide")
        reshapes = [c for r in ev.returns for c in ast.walk(r) if isinstance(c, ast.Call) and call_name(c) == "reshape" and len(c.args) >= 2]
        if not reshapes:
            raise AnalysisError(f"{rule}: {q} no longer returns a reshape; cannot decide")
        for c in reshapes:
            try:
                val = ev.seqs.get(c.args[1].id) if isinstance(c.args[1], ast.Name) else ev.seq_of(c.args[1])
            except Unknown as e:
                raise AnalysisError(f"{rule}: {q}: the target shape `{src(c.args[1])[:50]}` is outside the symbolic shape domain ({e}); cannot decide")
            if val is None:
                raise AnalysisError(f"{rule}: {q}: the target shape `{src(c.args[1])[:50]}` could not be followed; cannot decide")
            for segs in [val]:
                kinds = [s.kind for s in segs if s.length]
                if "minus1" not in kinds:
                    raise AnalysisError(f"{rule}: {q}: the target shape has no -1 entry any more; cannot decide")
                i = max(j for j, s in enumerate(segs) if s.kind == "minus1")
                core_start = i - 1 if i > 0 and segs[i - 1].kind == "mode" else i
                lead: Lin = {}
                for s in segs[:core_start]:
                    lead = l_add(lead, s.length)
                trail: Lin = {}
                for s in segs[i + 1:]:
                    trail = l_add(trail, s.length)
                unknown = [s for s in segs[:core_start] + segs[i + 1:] if s.length and s.kind == "other"]
                if unknown:
                    raise AnalysisError(f"{rule}: {q} [{label}]: the target shape contains entries the symbolic shape domain cannot attribute to an axis ({unknown[0]!r}); cannot decide")
                bad_lead_kind = [s for s in segs[:core_start] if s.length and s.kind != "lead"]
                bad_trail_kind = [s for s in segs[i + 1:] if s.length and s.kind != "trail"]
                exp_lead = l_subst(lin(**{lead_p: 1}), lead_p, 0) if not flags[lead_p] else lin(**{lead_p: 1})
                exp_trail = l_subst(lin(**{trail_p: 1}), trail_p, 0) if not flags[trail_p] else lin(**{trail_p: 1})
                for sym_, val_ in ev.known.items():
                    lead, trail = l_subst(lead, sym_, val_), l_subst(trail, sym_, val_)
                ok = lead == exp_lead and trail == exp_trail and not bad_lead_kind and not bad_trail_kind
                res.instance(rule, f"{f.name} [{label}]: {src(c)[:50]}", sample={"line": c.lineno, "segments": [repr(s) for s in segs], "leading_entries": l_str(lead), "trailing_entries": l_str(trail), "ok": ok})
                if not ok:
                    what = []
                    if lead != exp_lead or bad_lead_kind:
                        what.append(f"{l_str(lead)} entries before the unfolded block (must be the first {lead_p} mode sizes)")
                    if trail != exp_trail or bad_trail_kind:
                        what.append(f"{l_str(trail)} entries after it (must be the last {trail_p} mode sizes)")
                    ctx.finding(rule, f, c, f"the shape `{src(c.args[1])[:60]}` handed to reshape has {' and '.join(what)} (N = order of the tensor): the modes that should stay untouched are merged into / split from the unfolded block for some (skip_begin, skip_end), although every existing call uses only one of the two skips", construct=f"{f.name} [{label}]: reshape target lead={l_str(lead)} trail={l_str(trail)}")
