"""HOMOGENEITY — a dimensional analysis of the factorised-tensor views and MTTKRP.

The dense reconstruction of a factorised tensor is *multilinear*: homogeneous of degree 1 in
the weights (or core), degree 1 in every factor matrix / TT core / projection.  This module
computes, without running anything, the homogeneity degree of every value a view function
returns, as a vector ``symbol -> a + b*N`` (N = number of factors in the list), and compares
it with the degree the defining contraction has.  "Weights applied twice", "weights
forgotten", "one factor too many in the Khatri-Rao product" change a degree and are reported;
a wrong coefficient or a wrong index does not (it is a necessary condition, not the formula).

The tenalg primitives are given by their degree specification (sum of the operand degrees,
minus the skipped operand); everything else is evaluated from the source: a small structural
abstract interpreter with list lengths as linear forms in N and *affine loop acceleration*
(the body is evaluated twice; a constant degree increment d per iteration over a list of
length L contributes L*d).
"""

from __future__ import annotations

import ast
from typing import Dict, List, Optional, Tuple

from ..common import Ctx, call_name, is_name, src
from ..model import AnalysisError, FunctionInfo, bind_call, own_scope_nodes

# ---------------------------------------------------------------------------------
# degree vectors: {sym: (a, b)}  meaning  a + b*N
# ---------------------------------------------------------------------------------
ZERO = "ZERO"  # the additive identity (literal 0 / zeros): unifies with any degree


class Top:
    """no single homogeneity degree.  ``lost`` = the analysis lost track (unknown list length,
    unmodelled call, irregular loop): *cannot decide*; otherwise the value is definitely a sum
    of terms of different degrees: a violation"""

    def __init__(self, why, lost=True):
        self.why = why
        self.lost = lost

    def __repr__(self):
        return f"Top({self.why})"


def vadd(a, b, sign=1):
    if isinstance(a, Top):
        return a
    if isinstance(b, Top):
        return b
    if a == ZERO or b == ZERO:
        return ZERO  # 0 * x = 0
    out = dict(a)
    for k, (x, y) in b.items():
        p, q = out.get(k, (0, 0))
        out[k] = (p + sign * x, q + sign * y)
    return {k: v for k, v in out.items() if v != (0, 0)}


def vscale(a, num, den=1):
    if isinstance(a, Top) or a == ZERO:
        return a
    out = {}
    for k, (x, y) in a.items():
        if (x * num) % den or (y * num) % den:
            return Top(f"degree {fmt(a)} is not divisible by {den}", lost=False)
        out[k] = (x * num // den, y * num // den)
    return out


def vmulN(a, ln):
    """a * (p + q*N); only valid when the product stays linear in N"""
    if isinstance(a, Top) or a == ZERO:
        return a
    p, q = ln
    out = {}
    for k, (x, y) in a.items():
        if y and q:
            return Top("degree quadratic in the number of factors")
        out[k] = (x * p, x * q + y * p)
    return {k: v for k, v in out.items() if v != (0, 0)}


def unify(a, b, what):
    if isinstance(a, Top):
        return a
    if isinstance(b, Top):
        return b
    if a == ZERO:
        return b
    if b == ZERO:
        return a
    if a == b:
        return a
    return Top(f"{what} of terms with different homogeneity degrees {fmt(a)} and {fmt(b)}", lost=False)


def fmt(v):
    if isinstance(v, Top):
        return f"inhomogeneous ({v.why})"
    if v == ZERO:
        return "0"
    if not v:
        return "degree 0"
    parts = []
    for k in sorted(v):
        a, b = v[k]
        t = (f"{b}N" if b not in (0, 1) else ("N" if b == 1 else "")) + (f"{a:+d}" if a and b else (str(a) if a else ""))
        parts.append(f"{k}^({t})" if (b or a != 1) else k)
    return " ".join(parts)


class Deg:
    def __init__(self, v, order=None):
        self.v = v
        self.order = order  # number of modes (a, b) = a + b*N, when the specification gives it

    def __repr__(self):
        return f"Deg({fmt(self.v)})"


class ListV:
    def __init__(self, length, default, over=None, extra=None):
        self.length = length  # (a, b)
        self.default = default  # degree vector of a generic element
        self.over = dict(over or {})  # index -> degree vector (exact elements)
        self.extra = list(extra or [])  # elements at positions that are not tracked

    def total(self, skip=None):
        """sum of the element degrees, optionally without one element"""
        if self.length[0] == "?":
            return Top("product over a list of unknown length")
        n_over = len(self.over) + len(self.extra)
        rest = (self.length[0] - n_over, self.length[1])
        t = vmulN(self.default, rest) if self.default is not None else ({} if rest == (0, 0) else Top("list of unknown elements"))
        for d in list(self.over.values()) + self.extra:
            t = vadd(t, d)
        if skip is not None:
            if isinstance(skip, int) and skip in self.over:
                t = vadd(t, self.over[skip], -1)
            elif self.default is not None:
                t = vadd(t, self.default, -1)
            else:
                return Top("cannot tell which element is skipped")
        return t

    def elem(self, idx=None):
        if isinstance(idx, str):
            if idx in self.over:
                return self.over[idx]
            if self.default is not None:
                return self.default
        if isinstance(idx, int):
            if idx in self.over:
                return self.over[idx]
            if idx < 0 and self.length[1] == 0 and (self.length[0] + idx) in self.over:
                return self.over[self.length[0] + idx]
        if self.default is not None and not self.extra and not self.over:
            return self.default
        vals = list(self.over.values()) + self.extra + ([self.default] if self.default is not None else [])
        out = vals[0] if vals else {}
        for v in vals[1:]:
            out = unify(out, v, "elements")
        return out

    def __repr__(self):
        return f"ListV(len={self.length}, default={fmt(self.default) if self.default is not None else None}, over={ {k: fmt(v) for k, v in self.over.items()} })"


class PosList:
    """[i for i in range(len(L)) if i != k]: the positions of list L except one"""

    def __init__(self, of: str, length, skip):
        self.of, self.length, self.skip = of, length, skip


class Other:
    """shapes, ints, strings, None ...: degree 0 when used arithmetically"""

    def __init__(self, const=None, is_none=False, count=None):
        self.const = const
        self.is_none = is_none
        self.count = count  # an integer known as a linear form (a, b) = a + b*N

    def __repr__(self):
        return f"Other({self.const!r})"


def degree_of(x):
    if isinstance(x, Deg):
        return x.v
    if isinstance(x, ListV):
        return x.elem()
    if isinstance(x, Other):
        if isinstance(x.const, (int, float)) and x.const == 0 and not isinstance(x.const, bool):
            return ZERO
        return {}
    return {}


MUL_PRIMS = {"dot", "matmul", "tensordot", "kron", "outer", "inner", "multiply"}
SAME_PRIMS = {
    "reshape", "transpose", "moveaxis", "conj", "abs", "sum", "copy", "flip", "mean", "tensor", "to_numpy", "squeeze",
    "ravel", "unfold", "fold", "tensor_to_vec", "vec_to_tensor", "partial_unfold", "partial_fold", "partial_tensor_to_vec",
    "partial_vec_to_tensor", "matricize", "trace", "diag", "cumsum", "max", "min", "norm", "index_update_value", "real", "clip", "sort", "proximal_operator", "tensor_to_vec",
}
ADD_PRIMS = {"concatenate", "stack", "where", "maximum", "minimum"}
DEG0_PRIMS = {"ones", "eye", "sign", "shape", "ndim", "context", "eps", "arange", "argmax", "argmin", "argsort", "len", "range", "int", "float", "ones_like"}
ZERO_PRIMS = {"zeros", "zeros_like"}
LIST_SUM_PRIMS = {"khatri_rao": ("matrices", "skip_matrix", ("weights", "mask")), "kronecker": ("matrices", "skip_matrix", ()), "kr": ("matrices", None, ("weights", "mask"))}


class Evaluator:
    def __init__(self, ctx: Ctx, f: FunctionInfo, config: Dict[str, bool], depth=0):
        self.ctx, self.f, self.config, self.depth = ctx, f, config, depth
        self.repo = ctx.repo
        self.returns: List[Tuple[ast.AST, object, Optional[int]]] = []
        self.problems: List[Tuple[ast.AST, str]] = []
        self.n_override = None  # N fixed by an enclosing `len(shape) == k` test
        self.splits = 0
        self.svd_prims = {"svd_interface", "truncated_svd", "svd", "randomized_svd", "symeig_svd"}
        self.raw_returns: List[tuple] = []
        self._tops: Dict[int, Top] = {}
        self.solver_prims: set = set()
        self.in_loop = 0
        self.watch: set = set()  # local names whose assignments are recorded in self.assigns
        self.assigns: List[tuple] = []
        self.ctx_returns: Dict[str, object] = {}  # callee name -> value it returns (specification of initialisers)
        self.stores: List[tuple] = []  # (node, list name, key, degree) of every element store, in evaluation order
        self.loop_ctx: List[dict] = []  # innermost last: {"idx": name, "const": int | None, "pre": {list name: ListV}}
        self.track_sign = False  # C04: sign(x) carries the symbol S (S*S == 1), abs(x) == x * S
        self.svd_args: List[tuple] = []  # (call node, degree of the matrix handed to an SVD primitive)

    # -- expressions -----------------------------------------------------------------
    def ev(self, e, env):
        r = self._ev(e, env)
        if isinstance(r, Deg) and isinstance(r.v, Top) and not r.v.lost and id(r.v) not in self._tops:
            # the innermost expression that is a sum of terms of different degrees
            self._tops[id(r.v)] = r.v
            self.problems.append((e, r.v.why))
        return r

    def fixed_compare(self, e, env):
        """an order comparison of a quantity that carries a unit with a fixed dimensionless number (machine epsilon,
        1e-10) whose outcome *decides* something -- a branch, a count, a selection: it changes when the data are
        rescaled.  (Comparing with 0 is scale-free; a tolerance that is a parameter without a numeric default may
        carry any unit; a comparison that only feeds the clamp where(x < c, c, x) is a floor, not a decision --
        those are not judged.)"""
        for c in ast.walk(e):
            if not (isinstance(c, ast.Compare) and len(c.ops) == 1 and isinstance(c.ops[0], (ast.Lt, ast.LtE, ast.Gt, ast.GtE))):
                continue
            a, b = self.ev(c.left, env), self.ev(c.comparators[0], env)
            for x, y, yn in ((a, b, c.comparators[0]), (b, a, c.left)):
                unit = degree_of(x) if isinstance(x, Deg) else None
                fixed = isinstance(y, Other) and isinstance(y.const, (int, float)) and not isinstance(y.const, bool) and y.const != 0
                # a tolerance the caller passes (even one with a numeric default) is in whatever unit the caller means
                if any(isinstance(n_, ast.Name) and n_.id in self.f.all_params for n_ in ast.walk(yn)):
                    fixed = False
                if unit and not isinstance(unit, Top) and unit != ZERO and fixed and not any(n_ is c for n_, _ in self.problems):
                    self.problems.append((c, f"a quantity of unit {fmt(unit)} is compared with the fixed number `{src(yn)[:30]}`"))

    def _ev(self, e, env):
        if e is None:
            return Other(None, True)
        if isinstance(e, ast.Constant):
            return Other(e.value, e.value is None)
        if isinstance(e, ast.Name):
            if e.id not in env:
                ent = self.repo.resolve_expr(self.f, self.f.module, e)
                if ent is not None and ent.kind == "func" and hasattr(ent.value, "qname"):
                    return ("func", ent.value)
            return env.get(e.id, Other())
        if isinstance(e, ast.Tuple) or isinstance(e, ast.List):
            if any(isinstance(x, ast.Starred) for x in e.elts):
                # [a, b, *L]: exact leading elements followed by the elements of a tracked list
                if isinstance(e, ast.List) and isinstance(e.elts[-1], ast.Starred) and not any(isinstance(x, ast.Starred) for x in e.elts[:-1]):
                    tail = self.ev(e.elts[-1].value, env)
                    heads = [self.ev(x, env) for x in e.elts[:-1]]
                    if isinstance(tail, ListV) and tail.length[0] != "?" and not tail.extra and all(isinstance(h, Deg) for h in heads):
                        k = len(heads)
                        over = {i: h.v for i, h in enumerate(heads)}
                        for i, v in tail.over.items():
                            if isinstance(i, int):
                                over[i + k] = v
                            else:
                                return Other()
                        return ListV((tail.length[0] + k, tail.length[1]), tail.default if tail.default is not None else tail.elem(), over)
                return Other()
            vals = [self.ev(x, env) for x in e.elts]
            if vals and all(isinstance(v, (Deg,)) or (isinstance(v, Other) and not isinstance(e, ast.List)) for v in vals) and any(isinstance(v, Deg) for v in vals) and isinstance(e, ast.List):
                return ListV((len(vals), 0), None, {i: degree_of(v) for i, v in enumerate(vals)})
            if isinstance(e, ast.List) and vals and all(isinstance(v, Deg) for v in vals):
                return ListV((len(vals), 0), None, {i: v.v for i, v in enumerate(vals)})
            return ("tuple", vals)
        if isinstance(e, ast.Attribute):
            b = self.ev(e.value, env)
            if e.attr in ("shape", "ndim") and isinstance(b, Deg) and b.order is not None:
                return ListV(b.order, {}, {}) if e.attr == "shape" else Other(count=b.order)
            if e.attr in ("shape", "ndim", "size", "dtype"):
                return Other()
            if e.attr in ("T", "real", "imag", "H", "mT", "mH", "flat", "data"):
                return b
            if isinstance(b, tuple) and b[0] == "obj":
                return b[1].get(e.attr, Other())
            if isinstance(b, Deg) and b.v not in ({}, ZERO) and not isinstance(b.v, Top):
                return Deg(Top(f"attribute `.{e.attr}` of an array"))  # not modelled: cannot decide
            return Other()
        if isinstance(e, ast.Subscript) and isinstance(e.value, ast.Name) and isinstance(env.get(e.value.id), tuple) and env[e.value.id] and env[e.value.id][0] == "table":
            k = self.ev(e.slice, env)
            if isinstance(k, Other) and isinstance(k.const, str) and k.const in env[e.value.id][1]:
                return env[e.value.id][1][k.const]
            return Other()
        if isinstance(e, ast.Subscript):
            b = self.ev(e.value, env)
            if isinstance(b, ListV):
                s = e.slice
                if isinstance(s, ast.Slice):
                    lo = _int_const(s.lower) if s.lower is not None else 0
                    hi = _int_const(s.upper) if s.upper is not None else 0
                    if lo is None or hi is None or lo < 0 or hi > 0:
                        # bounds that are not literals: the number of elements is not known
                        return ListV(("?", 0), b.elem(), {})
                    drop = lo + (-hi)
                    over = {i - lo: v for i, v in b.over.items() if i >= lo}
                    if b.length[0] == "?":
                        return ListV(b.length, b.elem(), {})
                    return ListV((b.length[0] - drop, b.length[1]), b.default if b.default is not None else b.elem(), over)
                idx = s.value if isinstance(s, ast.Constant) and isinstance(s.value, int) else None
                if _int_const(s) == -1 and "@-1" in b.over:
                    idx = "@-1"
                if isinstance(s, ast.Name):
                    lc = self._loop_for(s.id)
                    if lc is not None:
                        if lc["const"] is not None:
                            idx = lc["const"]
                        else:
                            # a position the loop has not visited yet: the value before the loop
                            pre = lc["pre"].get(e.value.id) if isinstance(e.value, ast.Name) else None
                            src_l = pre if isinstance(pre, ListV) else b
                            return Deg(src_l.default if src_l.default is not None else src_l.elem())
                    else:
                        idx = "@" + s.id
                return Deg(b.elem(idx))
            if isinstance(b, tuple) and b[0] == "tuple":
                s = e.slice
                if isinstance(s, ast.Constant) and isinstance(s.value, int) and -len(b[1]) <= s.value < len(b[1]):
                    return b[1][s.value]
                return Other()
            if isinstance(b, Deg):
                return b  # a row / column / slice has the degree of the array
            return Other()
        if isinstance(e, ast.BinOp):
            a, b = self.ev(e.left, env), self.ev(e.right, env)
            if isinstance(e.op, ast.Add) and isinstance(a, ListV) and isinstance(b, ListV):
                n = a.length[0] if a.length[1] == 0 and not a.extra else None
                if a.length[0] == "?" or b.length[0] == "?":
                    return ListV(("?", 0), unify(a.elem(), b.elem(), "list elements"), {})
                if n is None:
                    if b.length[1] == 0 and b.default is None and b.length[0] == len(b.over):
                        return ListV((a.length[0] + b.length[0], a.length[1]), a.default, a.over, a.extra + list(b.over.values()))
                    return ListV((a.length[0] + b.length[0], a.length[1] + b.length[1]), unify(a.elem(), b.elem(), "list elements"), {})
                over = dict(a.over)
                if a.default is not None:
                    for i in range(n):
                        over.setdefault(i, a.default)
                for i, v in b.over.items():
                    over[i + n] = v
                return ListV((a.length[0] + b.length[0], b.length[1]), b.default, over)
            if isinstance(a, Other) and isinstance(b, Other) and isinstance(e.op, (ast.Add, ast.Sub)):
                ca = a.count if a.count is not None else ((a.const, 0) if isinstance(a.const, int) and not isinstance(a.const, bool) else None)
                cb = b.count if b.count is not None else ((b.const, 0) if isinstance(b.const, int) and not isinstance(b.const, bool) else None)
                if ca is not None and cb is not None and (a.count is not None or b.count is not None):
                    sg = 1 if isinstance(e.op, ast.Add) else -1
                    return Other(count=(ca[0] + sg * cb[0], ca[1] + sg * cb[1]))
            if isinstance(e.op, ast.Mult) and isinstance(e.left, ast.List) and len(e.left.elts) == 1 and isinstance(b, Other) and b.count is not None:
                # [None] * n / [x] * n: n elements (filled in later when None)
                x0 = self.ev(e.left.elts[0], env)
                return ListV(b.count, degree_of(x0) if isinstance(x0, Deg) else {}, {})
            da, db = degree_of(a), degree_of(b)
            if isinstance(e.op, (ast.Mult, ast.MatMult)):
                return Deg(vadd(da, db))
            if isinstance(e.op, (ast.Div, ast.FloorDiv)):
                return Deg(vadd(da, db, -1)) if da != ZERO else Deg(ZERO)
            if isinstance(e.op, (ast.Add, ast.Sub)):
                if not isinstance(a, (Deg, ListV)) and not isinstance(b, (Deg, ListV)):
                    return Other()
                # a guard against division by zero (x + 1e-12, x + eps): negligible by intent
                tiny = lambda o: isinstance(o, Other) and isinstance(o.const, float) and 0 < abs(o.const) <= 1e-6
                if tiny(a) and isinstance(b, (Deg, ListV)):
                    return Deg(db)
                if tiny(b) and isinstance(a, (Deg, ListV)):
                    return Deg(da)
                # a pure number added to a homogeneous term breaks homogeneity unless it is 0
                if isinstance(a, Other) and da != ZERO and db not in (ZERO, {}):
                    return Deg(Top(f"constant added to a term of degree {fmt(db)}", lost=False))
                if isinstance(b, Other) and db != ZERO and da not in (ZERO, {}):
                    return Deg(Top(f"constant added to a term of degree {fmt(da)}", lost=False))
                return Deg(unify(da, db, "sum"))
            if isinstance(e.op, ast.Pow):
                if isinstance(b, Other) and isinstance(b.const, (int, float)):
                    k = b.const
                    if k == int(k):
                        return Deg(vscale(da, int(k)))
                    if k == 0.5:
                        return Deg(vscale(da, 1, 2))
                return Deg(Top("power with a non-literal exponent")) if da not in ({}, ZERO) else Deg({})
            return Other()
        if isinstance(e, ast.UnaryOp):
            return self.ev(e.operand, env) if isinstance(e.op, (ast.USub, ast.UAdd)) else Other()
        if isinstance(e, ast.IfExp):
            t = self.decide(e.test, env)
            if t is True:
                return self.ev(e.body, env)
            if t is False:
                return self.ev(e.orelse, env)
            a, b = self.ev(e.body, env), self.ev(e.orelse, env)
            if isinstance(a, Deg) or isinstance(b, Deg):
                return Deg(unify(degree_of(a), degree_of(b), "conditional"))
            return a
        if isinstance(e, ast.Dict):
            vals = [self.ev(v, env) for v in e.values if v is not None]
            # a table of routines keyed by literal strings: kept, so that D[k] / D.get(k) with a known k is that routine
            if e.keys and all(isinstance(k, ast.Constant) and isinstance(k.value, str) for k in e.keys) and all(isinstance(v, tuple) and v and v[0] == "func" for v in vals):
                return ("table", {k.value: v for k, v in zip(e.keys, vals)})
            if any(isinstance(v, (Deg, ListV)) and degree_of(v) not in ({}, ZERO) for v in vals):
                return Deg(Top("a dict display holding arrays"))  # not modelled: cannot decide
            return Other()
        if isinstance(e, (ast.ListComp, ast.GeneratorExp)):
            return self.comprehension(e, env)
        if isinstance(e, ast.Call) and isinstance(e.func, ast.Attribute) and e.func.attr == "get" and 1 <= len(e.args) <= 2 and not e.keywords:
            tb = self.ev(e.func.value, env)
            if isinstance(tb, tuple) and tb and tb[0] == "table":
                k = self.ev(e.args[0], env)
                if isinstance(k, Other) and isinstance(k.const, str):
                    if k.const in tb[1]:
                        return tb[1][k.const]
                    return self.ev(e.args[1], env) if len(e.args) == 2 else Other(None, True)
                return Other()
        if isinstance(e, ast.Call):
            return self.call(e, env)
        if isinstance(e, ast.Compare) or isinstance(e, ast.BoolOp):
            d = self.decide(e, env)  # `flag = mask is not None`: a flag whose value the configuration fixes
            return Other(d) if d is not None else Other()
        return Other()

    def comprehension(self, e, env):
        if len(e.generators) != 1:
            return Other()
        g = e.generators[0]
        it = g.iter
        if isinstance(it, (ast.Tuple, ast.List)) and it.elts and not g.ifs and not any(isinstance(x, ast.Starred) for x in it.elts) and len(it.elts) <= 8:
            # (f(y) for y in (a, b)): evaluated item by item
            vals = []
            for item in it.elts:
                env2 = dict(env)
                self.bind_target(g.target, self.ev(item, env), env2)
                vals.append(self.ev(e.elt, env2))
            if isinstance(e, ast.ListComp) and all(isinstance(v, Deg) for v in vals):
                return ListV((len(vals), 0), None, {i: v.v for i, v in enumerate(vals)})
            return ("tuple", vals)
        enum = isinstance(it, ast.Call) and is_name(it.func, "enumerate") and it.args
        src_list = self.ev(it.args[0] if enum else it, env)
        # positions of a list, one left out:  [i for i in range(len(L)) if i != k]
        if isinstance(it, ast.Call) and is_name(it.func, "range") and len(it.args) == 1 and isinstance(it.args[0], ast.Call) and is_name(it.args[0].func, "len") and it.args[0].args and isinstance(it.args[0].args[0], ast.Name) and isinstance(g.target, ast.Name) and is_name(e.elt, g.target.id):
            base = env.get(it.args[0].args[0].id)
            if isinstance(base, ListV) and base.length[0] != "?":
                if not g.ifs:
                    return PosList(it.args[0].args[0].id, base.length, None)
                c = g.ifs[0]
                if len(g.ifs) == 1 and isinstance(c, ast.Compare) and len(c.ops) == 1 and isinstance(c.ops[0], ast.NotEq) and is_name(c.left, g.target.id):
                    return PosList(it.args[0].args[0].id, (base.length[0] - 1, base.length[1]), src(c.comparators[0]))
        # [L[i] for i in P] with P the positions of L (one left out)
        if isinstance(src_list, PosList) and isinstance(g.target, ast.Name) and not g.ifs and isinstance(e.elt, ast.Subscript) and is_name(e.elt.value, src_list.of) and is_name(e.elt.slice, g.target.id):
            base = env.get(src_list.of)
            if isinstance(base, ListV) and base.length[0] != "?":
                if src_list.skip is None:
                    return base
                kk = None
                try:
                    kk = int(src_list.skip)
                except ValueError:
                    pass
                if kk is not None and kk in base.over:
                    over = {(i if i < kk else i - 1): v for i, v in base.over.items() if isinstance(i, int) and i != kk}
                    return ListV(src_list.length, base.default, over, [])
                return ListV(src_list.length, base.default if base.default is not None else base.elem(), {}, [])
        if isinstance(it, ast.Call) and is_name(it.func, "zip") and len(it.args) >= 2 and not g.ifs:
            zs = [self.ev(a, env) for a in it.args]
            if all(isinstance(z, ListV) for z in zs):
                env2 = dict(env)
                self.bind_target(g.target, ("tuple", [Deg(z.elem()) for z in zs]), env2)
                el = self.ev(e.elt, env2)
                ln = zs[0].length if all(z.length == zs[0].length for z in zs) else ("?", 0)
                return ListV(ln, degree_of(el), {}) if isinstance(el, (Deg, Other)) else Other()
        rng_len = None
        if isinstance(it, ast.Call) and is_name(it.func, "range") and len(it.args) == 1 and isinstance(it.args[0], ast.Call) and is_name(it.args[0].func, "len") and it.args[0].args and isinstance(it.args[0].args[0], ast.Name):
            base = env.get(it.args[0].args[0].id)
            if isinstance(base, ListV) and isinstance(g.target, ast.Name) and isinstance(e.elt, ast.Subscript) and is_name(e.elt.value, it.args[0].args[0].id) and is_name(e.elt.slice, g.target.id):
                # [L[i] for i in range(len(L)) if i != k]
                if not g.ifs:
                    return base
                c = g.ifs[0]
                if len(g.ifs) == 1 and isinstance(c, ast.Compare) and len(c.ops) == 1 and isinstance(c.ops[0], ast.NotEq):
                    k = c.comparators[0]
                    kk = k.value if isinstance(k, ast.Constant) and isinstance(k.value, int) else None
                    over = {}
                    if kk is not None:
                        over = {(i if i < kk else i - 1): v for i, v in base.over.items() if i != kk}
                        if base.length[0] == "?":
                            return ListV(base.length, base.elem(), {})
                        return ListV((base.length[0] - 1, base.length[1]), base.default, over, base.extra)
                    if base.length[0] == "?":
                        return ListV(base.length, base.elem(), {})
                    return ListV((base.length[0] - 1, base.length[1]), base.default if base.default is not None else base.elem(), {}, [])
        if not isinstance(src_list, ListV):
            # range(...) etc.: a list of unknown length whose elements are evaluated once
            env2 = dict(env)
            self.bind_target(g.target, Other(), env2)
            el = self.ev(e.elt, env2)
            if isinstance(el, Deg):
                # [E for i in range(lo, n)] with n a known count (the order of a tensor, a list length): n - lo elements
                ln = ("?", 0)
                if isinstance(it, ast.Call) and is_name(it.func, "range") and 1 <= len(it.args) <= 2 and not g.ifs:
                    hi = self.ev(it.args[-1], env)
                    lo = _int_const(it.args[0]) if len(it.args) == 2 else 0
                    if isinstance(hi, Other) and hi.count is not None and lo is not None:
                        ln = (hi.count[0] - lo, hi.count[1])
                return ListV(ln, el.v, {})
            return Other()
        length = src_list.length
        # filters the configuration decides: `if skip is None or position != skip` with skip None keeps everything,
        # with skip given it is `position != skip`
        ifs = []
        for c0 in g.ifs:
            d0 = self.decide(c0, env)
            if d0 is True:
                continue
            if d0 is None and isinstance(c0, ast.BoolOp) and isinstance(c0.op, ast.Or):
                rest = [v for v in c0.values if self.decide(v, env) is not False]
                if len(rest) == 1:
                    c0 = rest[0]
            ifs.append(c0)
        if ifs:
            # `if i != k`: exactly one element is dropped
            c = ifs[0]
            if len(ifs) == 1 and enum and isinstance(c, ast.Compare) and len(c.ops) == 1 and isinstance(c.ops[0], ast.NotEq):
                length = (length[0] - 1, length[1]) if length[0] != "?" else length
                dropped = True
            else:
                return ListV(("?", 0), src_list.elem(), {})
        else:
            dropped = False

        def one(dv):
            env2 = dict(env)
            if enum:
                t = g.target
                if isinstance(t, ast.Tuple) and len(t.elts) == 2:
                    self.bind_target(t.elts[0], Other(), env2)
                    self.bind_target(t.elts[1], Deg(dv), env2)
                else:
                    return None
            else:
                self.bind_target(g.target, Deg(dv), env2)
            r = self.ev(e.elt, env2)
            return degree_of(r) if isinstance(r, (Deg, Other)) else None

        d = one(src_list.default) if src_list.default is not None else None
        over = {}
        if not dropped:
            for i, v in src_list.over.items():
                o = one(v)
                if o is not None:
                    over[i] = o
        elif src_list.over:
            # positions shift when one element is dropped: fall back to a homogeneous list
            d = one(src_list.elem())
        return ListV(length, d if d is not None else (one(src_list.elem())), over)

    def bind_target(self, t, v, env):
        if isinstance(t, ast.Name):
            env[t.id] = v
        elif isinstance(t, (ast.Tuple, ast.List)) and any(isinstance(x, ast.Starred) for x in t.elts):
            # first, *rest = L   /   *init, last = L
            stars = [i for i, x in enumerate(t.elts) if isinstance(x, ast.Starred)]
            if len(stars) == 1 and isinstance(v, ListV) and v.length[0] != "?" and not v.extra and all(isinstance(k, int) for k in v.over):
                si = stars[0]
                n_before, n_after = si, len(t.elts) - si - 1
                for i in range(n_before):
                    self.bind_target(t.elts[i], Deg(v.elem(i)), env)
                for j in range(n_after):
                    self.bind_target(t.elts[si + 1 + j], Deg(v.default if v.default is not None else v.elem()), env)
                over = {k - n_before: d for k, d in v.over.items() if k >= n_before}
                rest = ListV((v.length[0] - n_before - n_after, v.length[1]), v.default if v.default is not None else v.elem(), over)
                self.bind_target(t.elts[si].value, rest, env)
            else:
                for x in t.elts:
                    self.bind_target(x.value if isinstance(x, ast.Starred) else x, ListV(("?", 0), degree_of(v), {}) if isinstance(x, ast.Starred) and isinstance(v, (ListV, Deg)) else (Deg(degree_of(v)) if isinstance(v, (ListV, Deg)) else Other()), env)
        elif isinstance(t, (ast.Tuple, ast.List)):
            parts = None
            if isinstance(v, tuple) and v[0] == "tuple" and len(v[1]) == len(t.elts):
                parts = v[1]
            elif isinstance(v, ListV):
                parts = [Deg(v.elem(i)) for i in range(len(t.elts))]
            elif isinstance(v, tuple) and v[0] == "obj":
                parts = [v[1].get(k, Other()) for k in v[2]][: len(t.elts)]
                if len(parts) != len(t.elts):
                    parts = None
            if parts is None and isinstance(v, Deg):
                parts = [v] + [Other()] * (len(t.elts) - 1)  # element of zip(list_of_arrays, indices)
            for i, x in enumerate(t.elts):
                self.bind_target(x, parts[i] if parts is not None else Other(), env)

    def _loop_for(self, name):
        for lc in reversed(self.loop_ctx):
            if lc["idx"] == name:
                return lc
        return None

    def store_elem(self, lname, slice_node, val, env):
        """`L[i] = val` for a tracked list L"""
        l = env[lname]
        d = degree_of(val)
        self.stores.append((slice_node, lname, src(slice_node), d))
        key = None
        if isinstance(slice_node, ast.Constant) and isinstance(slice_node.value, int) and slice_node.value >= 0:
            key = slice_node.value
        elif isinstance(slice_node, ast.Name):
            lc = self._loop_for(slice_node.id)
            if lc is None:
                key = "@" + slice_node.id
            elif lc["const"] is not None:
                key = lc["const"]
            else:
                # generic iteration of a loop over the positions: every position not singled out gets d
                if any(isinstance(k, str) for k in l.over) and not lc.get("skips"):
                    env[lname] = ListV(("?", 0), unify(l.elem(), d, "stored element"), {})
                    return
                lc["mapped"].add(lname)
                env[lname] = ListV(l.length, d, l.over, l.extra)
                return
        if isinstance(slice_node, ast.UnaryOp) and isinstance(slice_node.op, ast.USub) and isinstance(slice_node.operand, ast.Constant) and slice_node.operand.value == 1 and l.extra:
            # L[-1] = v right after an append: the last element is replaced
            env[lname] = ListV(l.length, l.default, l.over, l.extra[:-1] + [d])
            return
        if key is None and isinstance(slice_node, ast.UnaryOp) and isinstance(slice_node.op, ast.USub) and isinstance(slice_node.operand, ast.Constant) and slice_node.operand.value == 1:
            key = "@-1"
        if key is None or l.length[0] == "?" or l.extra:
            env[lname] = ListV(l.length, unify(l.elem(), d, "stored element") if (l.default is not None or l.over) else d, {})
            return
        if isinstance(key, str) and any(isinstance(k, str) and k != key for k in l.over):
            env[lname] = ListV(("?", 0), unify(l.elem(), d, "stored element"), {})
            return
        over = dict(l.over)
        over[key] = d
        env[lname] = ListV(l.length, l.default, over, l.extra)

    # -- calls -------------------------------------------------------------------------
    def call(self, c: ast.Call, env):
        name = call_name(c) or ""
        if name == "pop" and isinstance(c.func, ast.Attribute) and isinstance(c.func.value, ast.Name) and isinstance(env.get(c.func.value.id), ListV):
            l = env[c.func.value.id]
            a0 = c.args[0] if c.args else None
            key = a0.value if isinstance(a0, ast.Constant) and isinstance(a0.value, int) else ("@" + a0.id if isinstance(a0, ast.Name) and self._loop_for(a0.id) is None else None)
            if l.length[0] == "?" or l.extra or (key is None and l.over) or (isinstance(key, int) and key != 0 and l.over):
                env[c.func.value.id] = ListV(("?", 0), l.elem(), {})
                return Deg(l.elem())
            got = l.elem(key)
            over = {k: v for k, v in l.over.items() if k != key}
            if isinstance(key, int):
                over = {(k - 1 if isinstance(k, int) else k): v for k, v in over.items()}
            env[c.func.value.id] = ListV((l.length[0] - 1, l.length[1]), l.default, over, [])
            return Deg(got)
        if name in ("CPTensor", "TuckerTensor", "Parafac2Tensor", "TTTensor", "TRTensor") and len(c.args) == 1:
            return self.ev(c.args[0], env)
        if name == "where" and len(c.args) == 3:
            wa, wb = self.ev(c.args[1], env), self.ev(c.args[2], env)
            # a scalar replacement value (clamp at epsilon, fill with 0 / 1): the generic entries decide
            if isinstance(wa, Other) and isinstance(wb, Deg):
                return Deg(wb.v)
            if isinstance(wb, Other) and isinstance(wa, Deg):
                return Deg(wa.v)
        if name == "where" and len(c.args) == 3 and isinstance(c.args[0], ast.Compare) and len(c.args[0].ops) == 1 and isinstance(c.args[0].ops[0], ast.Eq) and isinstance(c.args[0].comparators[0], ast.Constant) and c.args[0].comparators[0].value == 0 and src(c.args[0].left) == src(c.args[2]):
            # where(x == 0, <replacement>, x): x outside a set of measure zero
            return Deg(degree_of(self.ev(c.args[2], env)))
        if name == "where" and len(c.args) == 3 and isinstance(c.args[0], ast.Name):
            # is_zero = x == 0; where(is_zero, ones, x): the flag is its definition
            from ..common import inline_locals as _il

            cond_ = _il(self.f.node, c.args[0], depth=1)
            if isinstance(cond_, ast.Compare):
                c = ast.copy_location(ast.Call(func=c.func, args=[cond_, c.args[1], c.args[2]], keywords=c.keywords), c)
        if name == "where" and len(c.args) == 3 and isinstance(c.args[0], ast.Compare) and len(c.args[0].ops) == 1:
            # the same guard spelled `0 == x`, `x != 0`, or -- for x >= 0 by construction (a norm, an absolute
            # value, a square root) -- `x > 0` / `x <= 0`, with the branches in either order
            t = c.args[0]
            l_, r_, op = t.left, t.comparators[0], t.ops[0]
            flip = {ast.Lt: ast.Gt, ast.LtE: ast.GtE, ast.Gt: ast.Lt, ast.GtE: ast.LtE, ast.Eq: ast.Eq, ast.NotEq: ast.NotEq}
            if isinstance(l_, ast.Constant) and type(op) in flip:
                l_, r_, op = r_, l_, flip[type(op)]()
            if isinstance(r_, ast.Constant) and isinstance(r_.value, (int, float)) and r_.value == 0:
                from ..common import inline_locals

                d_ = inline_locals(self.f.node, l_)
                nonneg = isinstance(d_, ast.Call) and (call_name(d_) or "") in ("norm", "abs", "sqrt", "absolute")
                zero_branch = None  # index of the argument taken where x == 0
                if isinstance(op, ast.Eq) or (isinstance(op, ast.LtE) and nonneg):
                    zero_branch = 1
                elif isinstance(op, ast.NotEq) or (isinstance(op, ast.Gt) and nonneg):
                    zero_branch = 2
                if zero_branch is not None:
                    generic = c.args[3 - zero_branch]
                    if src(generic) == src(l_) or src(inline_locals(self.f.node, generic)) == src(d_):
                        return Deg(degree_of(self.ev(generic, env)))
        if self.track_sign and name == "sign":
            return Deg({"S": ONE})
        if self.track_sign and name == "abs" and c.args:
            return Deg(vadd(degree_of(self.ev(c.args[0], env)), {"S": ONE}))
        if name in ("count_nonzero", "sum", "any", "all", "argmax", "argmin", "nonzero", "py_sum") and c.args and isinstance(c.args[0], ast.Compare):
            self.fixed_compare(c.args[0], env)  # how many / which entries pass a fixed threshold
        args = [self.ev(a, env) for a in c.args if not isinstance(a, ast.Starred)]
        kws = {k.arg: self.ev(k.value, env) for k in c.keywords if k.arg}
        ct = self.repo.resolve_call(self.f, self.f.module, c)
        if ct.kind == "repo" and len(ct.funcs) == 1 and c.keywords and not any(isinstance(a, ast.Starred) for a in c.args):
            # operands passed by keyword take their positional place: f(x, matrix=y) is f(x, y)
            g0 = ct.funcs[0]
            b0 = bind_call(c, g0, ct.bound)
            pos0 = list(g0.pos_params)[1:] if ct.bound and g0.pos_params else list(g0.pos_params)
            if b0.ok:
                k0 = len(args)
                while k0 < len(pos0) and pos0[k0] in b0.params and any(kw.arg == pos0[k0] for kw in c.keywords):
                    args.append(kws[pos0[k0]])
                    k0 += 1
        if isinstance(c.func, ast.Attribute) and ct.kind != "repo" and not (isinstance(c.func.value, ast.Name) and c.func.value.id not in env):
            # x.dot(y), x.reshape(...), x.conj(): a method of an array -- the receiver is the first operand
            recv = self.ev(c.func.value, env)
            if isinstance(recv, Deg) and not (name in SAME_PRIMS and not args):
                if name in ("astype", "copy", "clone", "detach", "cpu", "numpy", "to", "item", "flatten", "ravel", "squeeze", "conjugate", "cumsum", "tolist", "view", "contiguous", "type"):
                    return Deg(recv.v)
                args = [recv] + args
        if name in ("float", "int", "complex") and len(args) == 1 and isinstance(args[0], Deg):
            return Deg(args[0].v)  # a 0-d array turned into a Python number keeps its unit
        if name in ("max", "min") and len([a for a in args if isinstance(a, Deg)]) >= 2:
            t = ZERO
            for a in args:
                t = unify(t, degree_of(a), name)
            return Deg(t)
        # list-sum primitives by specification
        if name in LIST_SUM_PRIMS and (ct.kind == "repo" or ct.kind == "backend"):
            lst_p, skip_p, extra = LIST_SUM_PRIMS[name]
            lst = args[0] if args else kws.get(lst_p)
            if not isinstance(lst, ListV):
                return Deg(Top(f"{name} of something that is not a known list of factors"))
            skip_e = None
            for k in c.keywords:
                if k.arg == skip_p:
                    skip_e = k.value
            if skip_e is None and len(c.args) > 2 and name in ("khatri_rao",):
                skip_e = c.args[2]
            if skip_e is None and len(c.args) > 1 and name == "kronecker":
                skip_e = c.args[1]
            skip = None
            if skip_e is not None and not (isinstance(skip_e, ast.Constant) and skip_e.value is None):
                skip = skip_e.value if isinstance(skip_e, ast.Constant) and isinstance(skip_e.value, int) else "some"
            t = lst.total(skip)
            for x in extra:
                v = kws.get(x)
                if v is None and x == "weights" and len(args) > 1:
                    v = args[1]
                if v is not None and not (isinstance(v, Other) and v.is_none):
                    t = vadd(t, degree_of(v))
            return Deg(t)
        if name == "multi_mode_dot" and ct.kind == "repo":
            t0 = degree_of(args[0]) if args else {}
            lst = args[1] if len(args) > 1 else kws.get("matrix_or_vec_list")
            if not isinstance(lst, ListV):
                return Deg(Top("multi_mode_dot with an unknown list of operands"))
            sk = kws.get("skip")
            skip_e = next((k.value for k in c.keywords if k.arg == "skip"), None)
            skip = None
            if skip_e is not None and not (isinstance(skip_e, ast.Constant) and skip_e.value is None):
                skip = skip_e.value if isinstance(skip_e, ast.Constant) and isinstance(skip_e.value, int) else "some"
                # skip given by an option that is None in this configuration
                if isinstance(skip_e, ast.Name) and isinstance(env.get(skip_e.id), Other) and env[skip_e.id].is_none:
                    skip = None
            return Deg(vadd(t0, lst.total(skip)))
        if name == "mode_dot" and ct.kind == "repo":
            return Deg(vadd(degree_of(args[0]), degree_of(args[1]))) if len(args) > 1 else Deg({})
        if name == "einsum":
            t = {}
            for a in args[1:]:
                t = vadd(t, a.total() if isinstance(a, ListV) else degree_of(a))
            for a in c.args:
                if isinstance(a, ast.Starred):
                    v = self.ev(a.value, env)
                    t = vadd(t, v.total() if isinstance(v, ListV) else degree_of(v))
            return Deg(t)
        if name in MUL_PRIMS:
            t = {}
            for a in args[:2]:
                t = vadd(t, degree_of(a))
            return Deg(t)
        if name in ("solve", "lstsq") and len(args) >= 2:
            # x with A x = b: degree(b) - degree(A)
            da, db = degree_of(args[0]), degree_of(args[1])
            if isinstance(da, Top) or isinstance(db, Top):
                return Deg(da if isinstance(da, Top) else db)
            return Deg(vadd(db if db != ZERO else {}, da if da != ZERO else {}, -1))
        if name in self.ctx_returns:
            r = self.ctx_returns[name]
            if callable(r):
                import inspect

                return r(c, self, env) if len(inspect.signature(r).parameters) >= 3 else r(c)
            return r
        if name == "eigh" and args:
            return ("tuple", [Deg(degree_of(args[0])), Deg({})])  # eigenvalues carry the degree, eigenvectors are orthonormal
        if name == "qr" and args:
            return ("tuple", [Deg({}), Deg(degree_of(args[0]))])
        if name in self.svd_prims and args:
            self.svd_args.append((c, degree_of(args[0])))
            # U and V are orthonormal (scale-free); the singular values carry the degree
            return ("tuple", [Deg({}), Deg(degree_of(args[0])), Deg({})])
        if name in self.solver_prims and len(args) < 2 and ct.kind == "repo" and len(ct.funcs) == 1 and len(ct.funcs[0].pos_params) >= 2:
            # the same call with its first two operands passed by keyword
            b = bind_call(c, ct.funcs[0], ct.bound)
            p0, p1 = ct.funcs[0].pos_params[0], ct.funcs[0].pos_params[1]
            if p0 in b.params and p1 in b.params:
                return Deg(vadd(degree_of(self.ev(b.params[p0], env)), degree_of(self.ev(b.params[p1], env)), -1))
        if name in self.solver_prims and len(args) >= 2:
            # an (NN)LS solver called on normal-equation data (UtM, UtU): its exact solution has degree UtM - UtU
            return Deg(vadd(degree_of(args[0]), degree_of(args[1]), -1))
        if name == "sqrt":
            return Deg(vscale(degree_of(args[0]), 1, 2)) if args else Deg({})
        if name in ADD_PRIMS:
            ops = args[1:] if name == "where" else args
            t = ZERO
            for a in ops:
                if isinstance(a, ListV):
                    vals = list(a.over.values()) + ([a.default] if a.default is not None else [])
                    for v in vals:
                        t = unify(t, v, name)
                elif isinstance(a, tuple) and a[0] == "tuple":
                    for v in a[1]:
                        t = unify(t, degree_of(v), name)
                else:
                    t = unify(t, degree_of(a), name)
            return Deg(t)
        if name == "index_update":
            return Deg(unify(degree_of(args[0]), degree_of(args[2]), "index_update")) if len(args) > 2 else Deg({})
        if name in ZERO_PRIMS:
            return Deg(ZERO)
        if name in ("shape", "ndim") and args and isinstance(args[0], Deg) and args[0].order is not None:
            return ListV(args[0].order, {}, {}) if name == "shape" else Other(count=args[0].order)
        if name == "len" and args and isinstance(args[0], ListV) and args[0].length[0] != "?":
            return Other(count=args[0].length)
        if name == "eps":
            return Other(1e-16)  # machine epsilon: a negligible guard value
        if name in DEG0_PRIMS:
            return Other() if name in ("shape", "ndim", "context", "len", "range", "int", "float", "arange") else Deg({})
        if name in SAME_PRIMS and not args and isinstance(c.func, ast.Attribute) and not (isinstance(c.func.value, ast.Name) and c.func.value.id in ("tl", "T", "np", "tensorly")):
            a0 = self.ev(c.func.value, env)  # x.mean(), x.sum(), x.copy(): a method of the array
            return Deg(degree_of(a0)) if isinstance(a0, (Deg, ListV)) else a0
        if name in SAME_PRIMS:
            a0 = args[0] if args else Other()
            return Deg(degree_of(a0)) if isinstance(a0, (Deg, ListV)) else a0
        if name in ("list", "tuple"):
            return args[0] if args else Other()
        if name == "enumerate" or name == "zip" or name == "reversed" or name == "sorted":
            return args[0] if args else Other()
        if name in ("isinstance", "is_tensor", "callable"):
            d_ = self.decide(c, env)  # flag = isinstance(x, list): a flag whose value the configuration fixes
            return Other(d_) if d_ is not None else Other()
        if name.startswith("_validate") or name in ("warn", "print", "ValueError"):
            return Other()
        # another view of the family: evaluate it inline
        fv = env.get(c.func.id) if isinstance(c.func, ast.Name) else None
        if isinstance(fv, tuple) and fv[0] == "func" and self.depth < 4:
            from ..model import CallTarget

            ct = CallTarget("repo", [fv[1]], fv[1].name)
        if ct.kind == "repo" and len(ct.funcs) >= 1 and self.depth < 4 and not ct.cha:
            g = ct.funcs[0]
            if g.module.name.startswith("tensorly.") and g.cls is None:
                b = bind_call(c, g, ct.bound)
                sub = Evaluator(self.ctx, g, self.config, self.depth + 1)
                sub.ctx_returns, sub.solver_prims, sub.track_sign, sub.svd_prims = self.ctx_returns, self.solver_prims, self.track_sign, self.svd_prims
                # a helper nested in the current function is a closure: its free variables are the caller's locals
                nested_here = any(g is h for hs in getattr(self.f, "nested_all", {}).values() for h in hs) or any(g is h for h in getattr(self.f, "nested", {}).values())
                env2 = dict(env) if nested_here else {}
                for p in g.all_params:
                    if p in b.params:
                        env2[p] = self.ev(b.params[p], env)
                    elif p in g.defaults and isinstance(g.defaults[p], ast.Constant):
                        env2[p] = Other(g.defaults[p].value, g.defaults[p].value is None)
                    else:
                        env2[p] = Other()
                sub.watch, sub.in_loop = set(self.watch), self.in_loop
                sub.run(env2)
                self.problems.extend(sub.problems)
                # a callee that stores into a list it was handed (factors[k] = ...) changes the caller's list
                back = {p_: a_.id for p_, a_ in b.params.items() if isinstance(a_, ast.Name)}
                for p_, nm_ in back.items():
                    if isinstance(env.get(nm_), ListV) and isinstance(env2.get(p_), ListV) and any(st_[1] == p_ for st_ in sub.stores):
                        env[nm_] = env2[p_]
                for node_, lname_, key_, d_ in sub.stores:
                    self.stores.append((node_, back.get(lname_, lname_), key_, d_))
                self.svd_args.extend(sub.svd_args)
                funs = [v for _, v, _ in sub.raw_returns if isinstance(v, tuple) and v[0] == "func"]
                if funs and len(funs) == len(sub.raw_returns) and all(v[1] is funs[0][1] for v in funs):
                    return funs[0]  # a selector that returns one known function on every path taken
                tups = [v for _, v, _ in sub.raw_returns if isinstance(v, tuple) and v[0] == "tuple"]
                if tups and len(tups) == len(sub.raw_returns) and all(len(t[1]) == len(tups[0][1]) for t in tups):
                    # every return is a tuple of the same length: merge component-wise
                    out = []
                    for i in range(len(tups[0][1])):
                        col = [t[1][i] for t in tups]
                        if all(isinstance(x, Deg) for x in col):
                            d = col[0].v
                            for x in col[1:]:
                                d = unify(d, x.v, f"return paths of {g.name}")
                            out.append(Deg(d))
                        elif all(isinstance(x, ListV) for x in col) and all(x.length == col[0].length and x.default == col[0].default and x.over == col[0].over for x in col):
                            out.append(col[0])
                        else:
                            out.append(col[0] if len(col) == 1 else Other())
                    return ("tuple", out)
                main = [v for _, v, nf in sub.returns if isinstance(v, Deg) and nf is None]
                special = [(v, nf) for _, v, nf in sub.returns if isinstance(v, Deg) and nf is not None and nf != "?"]
                if any(nf == "?" for _, v, nf in sub.returns):
                    return Deg(Top(f"a return of {g.name} sits under a length test the analysis cannot resolve"))
                if main:
                    t = main[0].v
                    for v in main[1:]:
                        t = unify(t, v.v, f"return paths of {g.name}")
                    # returns taken only for a fixed number of factors must agree for that number
                    for v, nf in special:
                        if not isinstance(t, Top) and subst_n(v.v, nf) != subst_n(t, nf):
                            t = Top(f"return paths of {g.name} disagree for {nf} factor(s): {fmt(v.v)} vs {fmt(t)}", lost=False)
                    return Deg(t)
                if special:
                    return Deg(special[0][0].v)
                return Other()
        # unknown callable: degree unknown
        if any(isinstance(a, (Deg, ListV)) and degree_of(a) not in ({}, ZERO) for a in args):
            return Deg(Top(f"unmodelled call `{name}`"))
        return Other()

    # -- tests ---------------------------------------------------------------------------
    def decide(self, t, env) -> Optional[bool]:
        s = src(t)
        if s in self.config:
            return self.config[s]
        if isinstance(t, ast.Constant) and isinstance(t.value, (bool, int)):
            return bool(t.value)
        if isinstance(t, ast.UnaryOp) and isinstance(t.op, ast.Not):
            r = self.decide(t.operand, env)
            return None if r is None else (not r)
        if isinstance(t, ast.BoolOp):
            rs = [self.decide(v, env) for v in t.values]
            if isinstance(t.op, ast.And):
                if any(r is False for r in rs):
                    return False
                return True if all(r is True for r in rs) else None
            if any(r is True for r in rs):
                return True
            return False if all(r is False for r in rs) else None
        if isinstance(t, ast.Compare) and len(t.ops) == 1 and isinstance(t.comparators[0], ast.Constant) and t.comparators[0].value is None and isinstance(t.left, ast.Name):
            v = env.get(t.left.id)
            if isinstance(v, Other) and v.is_none:
                return isinstance(t.ops[0], (ast.Is, ast.Eq))
            if isinstance(v, (Deg, ListV)) or (isinstance(v, Other) and v.const is not None) or (isinstance(v, tuple) and v and v[0] in ("func", "table", "tuple", "obj")):
                return isinstance(t.ops[0], (ast.IsNot, ast.NotEq))
        if isinstance(t, ast.Compare) and len(t.ops) == 1 and isinstance(t.ops[0], (ast.Eq, ast.NotEq)) and isinstance(t.left, ast.Name) and isinstance(t.comparators[0], ast.Constant) and isinstance(t.comparators[0].value, str):
            v = env.get(t.left.id)
            if isinstance(v, Other) and isinstance(v.const, str):
                return (v.const == t.comparators[0].value) == isinstance(t.ops[0], ast.Eq)
        if isinstance(t, ast.Compare) and len(t.ops) == 1 and isinstance(t.ops[0], (ast.Eq, ast.NotEq)) and all(isinstance(x, (ast.Name, ast.Constant)) for x in (t.left, t.comparators[0])):
            # two locals / constants holding known strings (a table-driven dispatch after unrolling)
            def known(x):
                if isinstance(x, ast.Constant):
                    return x.value if isinstance(x.value, str) else None
                v = env.get(x.id)
                if isinstance(v, Other) and isinstance(v.const, str):
                    return v.const
                if isinstance(v, tuple) and v and v[0] == "func":
                    return v
                return None

            l, r = known(t.left), known(t.comparators[0])
            if l is not None and r is not None and (isinstance(l, str) or isinstance(r, str)):
                return (l == r) == isinstance(t.ops[0], ast.Eq)
        if isinstance(t, ast.Call) and call_name(t) == "is_tensor" and len(t.args) == 1 and isinstance(t.args[0], ast.Name) and t.args[0].id in env:
            v = env[t.args[0].id]
            if isinstance(v, Deg):
                return True
            if isinstance(v, ListV) or (isinstance(v, tuple) and v[0] in ("tuple", "obj")) or (isinstance(v, Other) and v.is_none):
                return False
        if isinstance(t, ast.Call) and is_name(t.func, "isinstance") and len(t.args) == 2 and isinstance(t.args[0], ast.Name) and t.args[0].id in env:
            v = env[t.args[0].id]
            types = {n.id for n in ast.walk(t.args[1]) if isinstance(n, ast.Name)} | {n.attr for n in ast.walk(t.args[1]) if isinstance(n, ast.Attribute)}
            seq = bool(types & {"list", "tuple"})
            if isinstance(v, Deg):
                return False if types <= {"list", "tuple", "int", "float", "str", "dict", "CPTensor", "TuckerTensor", "TTTensor", "TRTensor", "Parafac2Tensor", "FactorizedTensor"} else None
            if isinstance(v, ListV):
                return True if seq else (False if types <= {"int", "float", "str", "dict"} else None)
            if isinstance(v, Other) and v.is_none:
                return False
        if isinstance(t, ast.Call) and is_name(t.func, "isinstance"):
            return False if s.startswith("isinstance(") and ("float" in s or "CPTensor" in s or "int" in s) else None
        if isinstance(t, ast.Name):
            v = env.get(t.id)
            if isinstance(v, Other) and v.is_none:
                return False
            if isinstance(v, Other) and isinstance(v.const, (bool, int)):
                return bool(v.const)
        return None

    # -- statements ------------------------------------------------------------------------
    def run(self, env):
        self.block(self.f.node.body, env)

    def block(self, stmts, env) -> bool:
        """returns True when the block always leaves (return / raise)"""
        for s in stmts:
            if isinstance(s, ast.Expr):
                v = s.value
                if isinstance(v, ast.Call) and isinstance(v.func, ast.Attribute) and v.func.attr == "append" and isinstance(v.func.value, ast.Name):
                    lst = env.get(v.func.value.id)
                    el = self.ev(v.args[0], env) if v.args else Other()
                    if isinstance(lst, ListV) and isinstance(el, (Deg, Other)):
                        d = degree_of(el)
                        if lst.length[0] != "?":
                            env[v.func.value.id] = ListV((lst.length[0] + 1, lst.length[1]), lst.default, lst.over, lst.extra + [d])
                        else:
                            nd = d if lst.default is None and not lst.over and not lst.extra else unify(lst.elem(), d, "appended elements")
                            env[v.func.value.id] = ListV(("?", 0), nd, {})
                else:
                    self.ev(v, env)
            elif isinstance(s, ast.Assign):
                val = self.ev(s.value, env)
                if isinstance(s.value, ast.List) and not s.value.elts:
                    val = ListV((0, 0), None, {})
                for t in s.targets:
                    if isinstance(t, ast.Name) and t.id in self.watch and self.in_loop:
                        self.assigns.append((s, t.id, degree_of(val)))
                    if isinstance(t, ast.Subscript) and isinstance(t.value, ast.Name) and isinstance(env.get(t.value.id), ListV):
                        self.store_elem(t.value.id, t.slice, val, env)
                    else:
                        self.bind_target(t, val, env)
            elif isinstance(s, ast.AugAssign):
                if isinstance(s.target, ast.Name):
                    cur = env.get(s.target.id, Other())
                    fake = ast.BinOp(left=ast.Name(id=s.target.id, ctx=ast.Load()), op=s.op, right=s.value)
                    env[s.target.id] = self.ev(fake, env)
                elif isinstance(s.target, ast.Subscript) and isinstance(s.target.value, ast.Name) and isinstance(env.get(s.target.value.id), ListV):
                    load = ast.Subscript(value=ast.Name(id=s.target.value.id, ctx=ast.Load()), slice=s.target.slice, ctx=ast.Load())
                    fake = ast.BinOp(left=load, op=s.op, right=s.value)
                    self.store_elem(s.target.value.id, s.target.slice, self.ev(fake, env), env)
            elif isinstance(s, ast.Return):
                v = self.ev(s.value, env) if s.value is not None else Other()
                self.raw_returns.append((s, v, self.n_override))
                if isinstance(v, ListV):
                    v = Deg(v.elem())
                self.returns.append((s, v, self.n_override))
                return True
            elif isinstance(s, (ast.Raise, ast.Continue, ast.Break)):
                return True
            elif isinstance(s, ast.FunctionDef):
                # a local helper defined here (possibly one of several definitions under a test): the name
                # now stands for this definition
                for h in getattr(self.f, "nested_all", {}).get(s.name, []):
                    if h.node is s:
                        env[s.name] = ("func", h)
            elif isinstance(s, ast.If):
                d = self.decide(s.test, env)
                if d is None:
                    self.fixed_compare(s.test, env)
                saved = self.n_override
                nfix = _len_test(s.test, env)
                if nfix is None and any(isinstance(x, ast.Name) for x in ast.walk(s.test)):
                    from ..common import inline_locals

                    nfix = _len_test(inline_locals(self.f.node, s.test), env)  # order = len(shape); if order == 1:
                if d is True:
                    if self.block(s.body, env):
                        return True
                elif d is False:
                    if self.block(s.orelse, env):
                        return True
                else:
                    e1, e2 = dict(env), dict(env)
                    if nfix is not None:
                        self.n_override = nfix
                    l1 = self.block(s.body, e1)
                    self.n_override = saved
                    l2 = self.block(s.orelse, e2)
                    if l1 and l2:
                        return True
                    if l1:
                        env.clear(); env.update(e2)
                    elif l2:
                        env.clear(); env.update(e1)
                    elif not self.loop_ctx and self.splits < 6 and self._lossy(e1, e2):
                        # the two branches leave different lists / flags behind: follow each path
                        # to the end of this block separately instead of merging
                        self.splits += 1
                        rest = stmts[stmts.index(s) + 1:]
                        r1 = self.block(rest, e1)
                        r2 = self.block(rest, e2)
                        self.merge(env, e1, e2)
                        return r1 and r2
                    else:
                        self.merge(env, e1, e2)
            elif isinstance(s, ast.For):
                self.loop(s, env)
            elif isinstance(s, (ast.With, ast.Try)):
                self.block(getattr(s, "body", []), env)
            elif isinstance(s, ast.While):
                # not a counted loop (those are normalised to `for`): everything it writes is unknown
                for n in ast.walk(s):
                    b = None
                    if isinstance(n, ast.Name) and isinstance(n.ctx, ast.Store):
                        b = n.id
                    elif isinstance(n, ast.Subscript) and isinstance(n.ctx, ast.Store) and isinstance(n.value, ast.Name):
                        b = n.value.id
                    elif isinstance(n, ast.Call) and isinstance(n.func, ast.Attribute) and n.func.attr in ("append", "insert", "extend", "pop") and isinstance(n.func.value, ast.Name):
                        b = n.func.value.id
                    if b is not None and isinstance(env.get(b), (Deg, ListV)):
                        env[b] = Deg(Top(f"`{b}` is written in a while loop the analysis does not follow"))
        return False

    @staticmethod
    def _lossy(e1, e2):
        for k in set(e1) & set(e2):
            a, b = e1[k], e2[k]
            if isinstance(a, ListV) and isinstance(b, ListV) and not (a.length == b.length and a.default == b.default and a.over == b.over and a.extra == b.extra):
                return True
            if isinstance(a, Other) and isinstance(b, Other) and isinstance(a.const, bool) and isinstance(b.const, bool) and a.const != b.const:
                return True
        return False

    def merge(self, env, e1, e2):
        env.clear()
        for k in set(e1) | set(e2):
            a, b = e1.get(k), e2.get(k)
            if a is None or b is None:
                env[k] = a if b is None else b
            elif isinstance(a, Deg) and isinstance(b, Deg):
                env[k] = a if a.v == b.v and a.order == b.order else Deg(unify(a.v, b.v, f"`{k}` after a branch"), order=a.order if a.order == b.order else None)
            elif isinstance(a, ListV) and isinstance(b, ListV):
                if a.length == b.length and a.default == b.default and a.over == b.over and sorted(map(fmt, a.extra)) == sorted(map(fmt, b.extra)):
                    env[k] = a
                else:
                    env[k] = ListV(("?", 0), unify(a.elem(), b.elem(), f"elements of `{k}` after a branch"), {})
            elif isinstance(a, Deg) or isinstance(b, Deg):
                da, db = degree_of(a), degree_of(b)
                env[k] = Deg(unify(da, db, f"`{k}` after a branch"))
            elif isinstance(a, Other) and isinstance(b, Other) and (a.const != b.const or a.is_none != b.is_none):
                env[k] = Other()
            else:
                env[k] = a

    def loop(self, s: ast.For, env):
        it = s.iter
        if isinstance(it, ast.Call) and is_name(it.func, "range") and len(it.args) == 1 and not isinstance(it.args[0], ast.Constant):
            hi0 = self.ev(it.args[0], env)
            if isinstance(hi0, Other) and isinstance(hi0.const, int) and not isinstance(hi0.const, bool) and hi0.const <= 0:
                return  # range(n if flag else 0) with the flag off: the body never runs
        enum = isinstance(it, ast.Call) and is_name(it.func, "enumerate") and it.args
        # `for i in range(len(L))` / `range(0, len(L))`: a loop over the positions of L
        pos_of = None
        if isinstance(it, ast.Call) and is_name(it.func, "range") and it.args and isinstance(s.target, ast.Name):
            a = it.args[-1] if len(it.args) <= 2 else None
            lo_ok = len(it.args) == 1 or (len(it.args) == 2 and isinstance(it.args[0], ast.Constant) and it.args[0].value == 0)
            if lo_ok and isinstance(a, ast.Call) and is_name(a.func, "len") and a.args and isinstance(a.args[0], ast.Name) and isinstance(env.get(a.args[0].id), ListV):
                pos_of = a.args[0].id
        counted = None
        if pos_of is None and isinstance(it, ast.Call) and is_name(it.func, "range") and 1 <= len(it.args) <= 2 and isinstance(s.target, ast.Name):
            hi = self.ev(it.args[-1], env)
            lo = _int_const(it.args[0]) if len(it.args) == 2 else 0
            if isinstance(hi, Other) and hi.count is not None and lo is not None:
                counted = (hi.count[0] - lo, hi.count[1])
        plist = None
        if pos_of is None and counted is None and isinstance(it, (ast.Name, ast.ListComp)) and isinstance(s.target, ast.Name):
            pv = self.ev(it, env)
            if isinstance(pv, PosList) and isinstance(env.get(pv.of), ListV):
                plist = pv
                pos_of = pv.of
        if pos_of is not None:
            lst = env[pos_of]
            if plist is not None:
                lst = ListV(plist.length, lst.default, lst.over, lst.extra)
        elif counted is not None:
            lst = Other()
        else:
            lst = self.ev(it.args[0] if enum else it, env)
        zipped = None
        zipped_mixed = None
        if isinstance(it, ast.Call) and is_name(it.func, "zip") and len(it.args) >= 2:
            zs = [self.ev(a, env) for a in it.args]
            if all(isinstance(z, ListV) for z in zs):
                zipped = zs
                lst = zs[0] if all(z.length == zs[0].length for z in zs) else ListV(("?", 0), zs[0].elem(), {})
            else:
                # mixed operands (positions, arrays, lists): each target gets the element of its own operand
                zipped_mixed = [Deg(z.elem()) if isinstance(z, ListV) else (Deg(z.v) if isinstance(z, Deg) else Other()) for z in zs]
                lst = Other()
        length = lst.length if isinstance(lst, ListV) else (counted if counted is not None else ("?", 0))
        if plist is not None:
            length = plist.length
        iter_name = pos_of or (it.args[0].id if enum and isinstance(it.args[0], ast.Name) else (it.id if isinstance(it, ast.Name) else None))
        if pos_of is not None or counted is not None:
            idx = s.target.id
        elif isinstance(it, ast.Call) and is_name(it.func, "range") and isinstance(s.target, ast.Name) and len(it.args) == 1:
            idx = s.target.id  # positions 0 .. n-1 for a size the analysis does not know: still a position variable
        else:
            idx = s.target.elts[0].id if enum and isinstance(s.target, ast.Tuple) and isinstance(s.target.elts[0], ast.Name) else None
        pre = {k: v for k, v in env.items() if isinstance(v, ListV)}
        mapped = set()  # lists that receive a store at the loop position in a generic iteration

        def body(e, elem, const=None, skips=False):
            e = dict(e)
            if pos_of is not None or counted is not None:
                self.bind_target(s.target, Other(), e)
            elif enum and isinstance(s.target, ast.Tuple) and len(s.target.elts) == 2:
                self.bind_target(s.target.elts[0], Other(), e)
                self.bind_target(s.target.elts[1], elem, e)
            else:
                self.bind_target(s.target, elem, e)
            saved = list(self.returns)
            lc = {"idx": idx, "const": const, "pre": pre, "skips": skips, "mapped": mapped}
            self.loop_ctx.append(lc)
            self.in_loop += 1
            try:
                self.block(s.body, e)
            finally:
                self.loop_ctx.pop()
                self.in_loop -= 1
            self.returns = saved + [r for r in self.returns[len(saved):]]
            return e

        first, once = {}, {}
        if idx is not None:
            for n in ast.walk(s):
                t = None
                if isinstance(n, (ast.If, ast.IfExp)):
                    stack = [n.test]
                    while stack:
                        t = stack.pop()
                        if isinstance(t, ast.BoolOp):
                            stack.extend(t.values)
                        elif isinstance(t, ast.UnaryOp) and isinstance(t.op, ast.Not) and is_name(t.operand, idx):
                            first[src(t)] = (True, False)
                        elif is_name(t, idx):
                            first[src(t)] = (False, True)
                        elif isinstance(t, ast.Compare) and len(t.ops) == 1 and is_name(t.left, idx):
                            c = t.comparators[0]
                            if isinstance(c, ast.Constant) and c.value == 0:
                                eq = isinstance(t.ops[0], ast.Eq)
                                first[src(t)] = (eq, not eq)
                            elif isinstance(c, ast.Name) and isinstance(t.ops[0], (ast.Eq, ast.NotEq)):
                                once[src(t)] = (c.id, isinstance(t.ops[0], ast.Eq))
        saved_cfg = dict(self.config)
        e0 = dict(env)
        n_peeled = 0
        gen_elem = Other()
        if isinstance(lst, Deg):
            gen_elem = Deg(lst.v)  # iterating over an array: each slice has the degree of the array
        if isinstance(lst, ListV):
            gen_elem = Deg(lst.default if lst.default is not None else lst.elem())
        if zipped is not None:
            gen_elem = ("tuple", [Deg(z.elem()) for z in zipped])
        if zipped_mixed is not None:
            gen_elem = ("tuple", zipped_mixed)
        # positions evaluated one by one: those with an exactly known element, and the first one
        # when the body tests for it
        peel = []
        if zipped is not None:
            pass
        elif isinstance(lst, ListV) and length[0] != "?" and idx is None and not first and lst.over and all(isinstance(k, int) for k in lst.over) and sorted(lst.over) == list(range(len(lst.over))) and not lst.extra and pos_of is None and counted is None:
            peel = sorted(lst.over)  # `for x in [a, *rest]`: the exactly known leading elements one by one
        elif isinstance(lst, ListV) and length[0] != "?" and idx is not None or (isinstance(lst, ListV) and length[0] != "?" and first):
            peel = sorted(k for k in lst.over if isinstance(k, int))
            if first and 0 not in peel:
                peel = [0] + peel
            if peel != list(range(len(peel))) or lst.extra:
                peel = [0] if first else []
        elif first and length[0] != "?":
            peel = [0]
        for k in peel:
            for t, (v1, v2) in first.items():
                self.config[t] = v1 if k == 0 else v2
            for t, (nm, eq) in once.items():
                self.config[t] = not eq
            el = Deg(lst.elem(k)) if isinstance(lst, ListV) and (k in lst.over or lst.default is not None) else gen_elem
            e0 = body(e0, el, const=k)
            n_peeled += 1
        for t, (_, v2) in first.items():
            self.config[t] = v2
        for t, (nm, eq) in once.items():
            self.config[t] = not eq  # generic iteration: not the singled-out index
        # a loop-carried boolean flag (`done = False` ... `if not done: done = True; ...`): the iterations before
        # the flag settles are evaluated one by one
        if not peel and zipped is None and pos_of is None:
            for _ in range(2):
                flags0 = {k: v.const for k, v in e0.items() if isinstance(v, Other) and isinstance(v.const, bool)}
                if not flags0:
                    break
                saved_ret, saved_raw, saved_prob, saved_stores = list(self.returns), list(self.raw_returns), list(self.problems), list(self.stores)
                trial = body(e0, gen_elem)
                flipped = [k for k, c0 in flags0.items() if isinstance(trial.get(k), Other) and isinstance(trial[k].const, bool) and trial[k].const != c0]
                if not flipped:
                    self.returns, self.raw_returns, self.problems, self.stores = saved_ret, saved_raw, saved_prob, saved_stores
                    break
                e0 = trial
                n_peeled += 1
        rest_len = (length[0] - n_peeled, length[1]) if length[0] != "?" else length
        if isinstance(lst, ListV) and not peel and lst.over and any(isinstance(k, int) for k in lst.over):
            gen_elem = Deg(lst.elem())
        e1 = body(e0, gen_elem, skips=bool(once) or plist is not None)
        e2 = body(e1, gen_elem, skips=bool(once) or plist is not None)
        self.config = saved_cfg
        once_given = [nm for nm, eq in once.values() if not (isinstance(env.get(nm), Other) and env[nm].is_none)]
        n_iter = None
        # trip count given by a plain option / variable (not the length of a list of factors)
        unknown_trip = isinstance(it, ast.Call) and is_name(it.func, "range") and len(it.args) == 1 and isinstance(it.args[0], (ast.Name, ast.Attribute)) and counted is None and pos_of is None
        if unknown_trip and isinstance(it.args[0], ast.Name) and it.args[0].id not in self.f.all_params:
            # a local: the number of modes / factors (len, ndim, a shape entry) is a structural size, not an option
            from ..common import inline_locals

            d = inline_locals(self.f.node, it.args[0])
            if isinstance(d, ast.Call) and call_name(d) in ("len", "ndim") or (isinstance(d, ast.Subscript) and isinstance(d.value, ast.Call) and call_name(d.value) == "shape") or (isinstance(d, ast.Attribute) and d.attr == "ndim"):
                unknown_trip = False
        if rest_len[0] != "?":
            n_iter = (rest_len[0] - (1 if (once_given and once) else 0), rest_len[1])

        def accel(k, d0, v1, v2, what):
            """degree after all the generic iterations, given the degree before and after one and two of them"""
            if isinstance(v1, Top) or isinstance(v2, Top) or isinstance(d0, Top):
                return v1 if isinstance(v1, Top) else (v2 if isinstance(v2, Top) else d0)
            if v1 == v2:
                # overwritten (not accumulated) in every iteration; a loop whose trip count is an
                # option (range(n_iter)) may also run zero times
                if n_iter is None and unknown_trip and d0 != v1 and d0 != ZERO and d0 is not None:
                    return Top(f"{what} has degree {fmt(d0)} when the loop body never runs and {fmt(v1)} otherwise", lost=False)
                return v1
            if d0 == ZERO or v1 == ZERO:
                return Top(f"{what} changes degree irregularly in a loop")
            inc1, inc2 = vadd(v1, d0, -1), vadd(v2, v1, -1)
            if inc1 != inc2:
                return Top(f"{what} changes degree irregularly in a loop")
            if not inc1:
                return v1
            if n_iter is None:
                return Top(f"{what} accumulates degree over a loop of unknown length")
            return vadd(d0, vmulN(inc1, n_iter))

        for k in set(e1) | set(e0):
            a0, a1, a2 = e0.get(k), e1.get(k), e2.get(k)
            if isinstance(a1, Deg) and isinstance(a2, Deg):
                d0 = degree_of(a0) if a0 is not None else None
                if d0 is None:
                    env[k] = a1
                    continue
                nv = accel(k, d0, a1.v, a2.v, f"`{k}`")
                env[k] = a0 if isinstance(a0, Deg) and nv == a0.v else Deg(nv, order=a1.order)
            elif isinstance(a0, ListV) and isinstance(a1, ListV) and isinstance(a2, ListV) and a0.length[0] != "?" and a1.length[0] != "?" and a2.length[0] != "?":
                g1 = (a1.length[0] - a0.length[0], a1.length[1] - a0.length[1])
                g2 = (a2.length[0] - a1.length[0], a2.length[1] - a1.length[1])
                new1, new2 = a1.extra[len(a0.extra):], a2.extra[len(a1.extra):]
                if g1 == g2 == (1, 0) and len(new1) == 1 and len(new2) == 1 and new1[0] == new2[0] and n_iter is not None:
                    # a list that grows by one element of constant degree per iteration
                    d = new1[0]
                    if (a0.default is None or a0.default == d) and a0.over == a1.over == a2.over:
                        env[k] = ListV((a0.length[0] + n_iter[0], a0.length[1] + n_iter[1]), d, a0.over, a0.extra)
                    else:
                        env[k] = ListV(("?", 0), unify(a0.elem(), d, f"elements appended to `{k}`"), {})
                elif g1 == g2 == (0, 0) and a1.extra == a2.extra == a0.extra:
                    if k in mapped and set(a1.over) == set(a0.over):
                        # every position is written once from the values before the loop: one pass is the result
                        env[k] = a1
                        continue
                    if a1.default != a2.default or set(a1.over) != set(a2.over):
                        env[k] = ListV(("?", 0), a2.elem(), {})
                        continue
                    over = {}
                    for key in a1.over:
                        d0 = a0.over[key] if key in a0.over else (a0.default if a0.default is not None else a0.elem())
                        if isinstance(key, int) and key in a0.over and a1.over[key] == a0.over[key] == a2.over[key]:
                            over[key] = a1.over[key]
                        else:
                            over[key] = accel(k, d0, a1.over[key], a2.over[key], f"`{k}[{str(key).lstrip('@')}]`")
                    env[k] = ListV(a1.length, a1.default, over, a1.extra)
                else:
                    env[k] = ListV(("?", 0), a2.elem(), {})
            elif a1 is not None:
                env[k] = a1


def _int_const(e) -> Optional[int]:
    if isinstance(e, ast.Constant) and isinstance(e.value, int):
        return e.value
    if isinstance(e, ast.UnaryOp) and isinstance(e.op, ast.USub) and isinstance(e.operand, ast.Constant) and isinstance(e.operand.value, int):
        return -e.operand.value
    return None


def _len_test(t, env=None) -> Optional[int]:
    """`len(x) == k`: the number of factors N this fixes (x has a + b*N elements)"""
    if isinstance(t, ast.Compare) and len(t.ops) == 1 and isinstance(t.ops[0], ast.Eq) and isinstance(t.left, ast.Call) and is_name(t.left.func, "len") and isinstance(t.comparators[0], ast.Constant) and isinstance(t.comparators[0].value, int):
        k = t.comparators[0].value
        a0 = t.left.args[0] if t.left.args else None
        if env is not None and isinstance(a0, ast.Name) and isinstance(env.get(a0.id), ListV):
            a, b = env[a0.id].length
            if a == "?":
                return "?"  # the branch fixes N, but the analysis no longer knows how
            if b != 0 and (k - a) % b == 0:
                return (k - a) // b
            return None
        return k
    return None


def subst_n(v, n):
    if isinstance(v, Top) or v == ZERO:
        return v
    return {k: (a + b * n, 0) for k, (a, b) in v.items() if (a + b * n) != 0}


# ---------------------------------------------------------------------------------
# specifications: entry environment and expected degree
# ---------------------------------------------------------------------------------
N = (0, 1)
ONE = (1, 0)


def F(sym="F"):
    return ListV(N, {sym: ONE}, {})


SPECS = [
    # (qualified name, {param: value}, expected degree, optional symbols, configurations)
    ("tensorly.cp_tensor.cp_to_tensor", {"cp_tensor": ("tuple", [Deg({"W": ONE}), F()]), "mask": Other(None, True)}, {"W": ONE, "F": N}, ()),
    ("tensorly.cp_tensor.cp_to_tensor", {"cp_tensor": ("tuple", [Deg({"W": ONE}), F()]), "mask": Deg({"M": ONE})}, {"W": ONE, "F": N, "M": ONE}, ()),
    ("tensorly.cp_tensor.cp_to_tensor", {"cp_tensor": ("tuple", [Other(None, True), F()]), "mask": Other(None, True)}, {"F": N}, ()),
    ("tensorly.cp_tensor.cp_to_unfolded", {"cp_tensor": ("tuple", [Deg({"W": ONE}), F()])}, {"W": ONE, "F": N}, ()),
    ("tensorly.cp_tensor.cp_to_unfolded", {"cp_tensor": ("tuple", [Other(None, True), F()])}, {"F": N}, ()),
    ("tensorly.cp_tensor.cp_to_vec", {"cp_tensor": ("tuple", [Deg({"W": ONE}), F()])}, {"W": ONE, "F": N}, ()),
    ("tensorly.cp_tensor.cp_norm", {"cp_tensor": ("tuple", [Deg({"W": ONE}), F()])}, {"W": ONE, "F": N}, ()),
    ("tensorly.cp_tensor.cp_norm", {"cp_tensor": ("tuple", [Other(None, True), F()])}, {"F": N}, ()),
    ("tensorly.tenalg.core_tenalg.mttkrp.unfolding_dot_khatri_rao", {"tensor": Deg({"X": ONE}), "cp_tensor": ("tuple", [Deg({"W": ONE}), F()])}, {"X": ONE, "W": ONE, "F": (-1, 1)}, ()),
    ("tensorly.tenalg.core_tenalg.mttkrp.unfolding_dot_khatri_rao", {"tensor": Deg({"X": ONE}), "cp_tensor": ("tuple", [Other(None, True), F()])}, {"X": ONE, "F": (-1, 1)}, ()),
    ("tensorly.tenalg.einsum_tenalg.mttkrp.unfolding_dot_khatri_rao", {"tensor": Deg({"X": ONE}), "cp_tensor": ("tuple", [Deg({"W": ONE}), F()])}, {"X": ONE, "W": ONE, "F": (-1, 1)}, ()),
    ("tensorly.tenalg.einsum_tenalg.mttkrp.unfolding_dot_khatri_rao", {"tensor": Deg({"X": ONE}), "cp_tensor": ("tuple", [Other(None, True), F()])}, {"X": ONE, "F": (-1, 1)}, ()),
    ("tensorly.tenalg.core_tenalg.mttkrp.unfolding_dot_khatri_rao_memory", {"tensor": Deg({"X": ONE}), "cp_tensor": ("tuple", [Deg({"W": ONE}), F()])}, {"X": ONE, "W": ONE, "F": (-1, 1)}, ()),
    ("tensorly.tenalg.core_tenalg.mttkrp.unfolding_dot_khatri_rao_memory", {"tensor": Deg({"X": ONE}), "cp_tensor": ("tuple", [Other(None, True), F()])}, {"X": ONE, "F": (-1, 1)}, ()),
    ("tensorly.tucker_tensor.tucker_to_tensor", {"tucker_tensor": ("tuple", [Deg({"G": ONE}), F()]), "skip_factor": Other(None, True)}, {"G": ONE, "F": N}, ()),
    ("tensorly.tucker_tensor.tucker_to_unfolded", {"tucker_tensor": ("tuple", [Deg({"G": ONE}), F()]), "skip_factor": Other(None, True)}, {"G": ONE, "F": N}, ()),
    ("tensorly.tucker_tensor.tucker_to_vec", {"tucker_tensor": ("tuple", [Deg({"G": ONE}), F()]), "skip_factor": Other(None, True)}, {"G": ONE, "F": N}, ()),
    ("tensorly.tucker_tensor.tucker_to_tensor", {"tucker_tensor": ("tuple", [Deg({"G": ONE}), F()]), "skip_factor": Other(1)}, {"G": ONE, "F": (-1, 1)}, ()),
    ("tensorly.tt_tensor.tt_to_tensor", {"factors": F()}, {"F": N}, ()),
    ("tensorly.tt_tensor.tt_to_vec", {"factors": F()}, {"F": N}, ()),
    ("tensorly.tr_tensor.tr_to_tensor", {"factors": F()}, {"F": N}, ()),
    ("tensorly.parafac2_tensor.parafac2_to_slice", {"parafac2_tensor": ("tuple", [Deg({"W": ONE}), ("tuple", [Deg({"A": ONE}), Deg({"B": ONE}), Deg({"C": ONE})]), ListV(N, {"P": ONE}, {})]), "validate": Other(False)}, {"W": ONE, "A": ONE, "B": ONE, "C": ONE, "P": ONE}, ()),
    ("tensorly.parafac2_tensor.parafac2_to_slice", {"parafac2_tensor": ("tuple", [Other(None, True), ("tuple", [Deg({"A": ONE}), Deg({"B": ONE}), Deg({"C": ONE})]), ListV(N, {"P": ONE}, {})]), "validate": Other(False)}, {"A": ONE, "B": ONE, "C": ONE, "P": ONE}, ()),
]


NONE_ = Other(None, True)
for _be in ("core", "einsum"):
    _kr = f"tensorly.tenalg.{_be}_tenalg._khatri_rao.khatri_rao"
    _kn = f"tensorly.tenalg.{_be}_tenalg._kronecker.kronecker"
    _mm = f"tensorly.tenalg.{_be}_tenalg.n_mode_product.multi_mode_dot"
    _md = f"tensorly.tenalg.{_be}_tenalg.n_mode_product.mode_dot"
    SPECS += [
        (_kr, {"matrices": F(), "weights": NONE_, "skip_matrix": NONE_, "mask": NONE_}, {"F": N}, ()),
        (_kr, {"matrices": F(), "weights": Deg({"W": ONE}), "skip_matrix": NONE_, "mask": NONE_}, {"F": N, "W": ONE}, ()),
        (_kr, {"matrices": F(), "weights": NONE_, "skip_matrix": NONE_, "mask": Deg({"M": ONE})}, {"F": N, "M": ONE}, ()),
        (_kr, {"matrices": F(), "weights": Deg({"W": ONE}), "skip_matrix": Other(1), "mask": Deg({"M": ONE})}, {"F": (-1, 1), "W": ONE, "M": ONE}, ()),
        (_kn, {"matrices": F(), "skip_matrix": NONE_}, {"F": N}, ()),
        (_kn, {"matrices": F(), "skip_matrix": Other(1)}, {"F": (-1, 1)}, ()),
        (_mm, {"tensor": Deg({"X": ONE}), "matrix_or_vec_list": F(), "modes": NONE_, "skip": NONE_}, {"X": ONE, "F": N}, ()),
        (_mm, {"tensor": Deg({"X": ONE}), "matrix_or_vec_list": F(), "modes": NONE_, "skip": Other(1)}, {"X": ONE, "F": (-1, 1)}, ()),
        (_md, {"tensor": Deg({"X": ONE}), "matrix_or_vector": Deg({"F": ONE})}, {"X": ONE, "F": ONE}, ()),
    ]


def run_homogeneity(ctx: Ctx, rule="HOMOGENEITY", only_modules=None):
    repo, res = ctx.repo, ctx.res
    n = 0
    for qname, entry, expected, _opt in SPECS:
        if only_modules is not None and not any(qname.startswith(m) for m in only_modules):
            continue
        f = repo.func(qname)
        env = {}
        for p in f.all_params:
            if p in entry:
                env[p] = entry[p]
            elif p in f.defaults and isinstance(f.defaults[p], ast.Constant):
                env[p] = Other(f.defaults[p].value, f.defaults[p].value is None)
            else:
                env[p] = Other()
        ev = Evaluator(ctx, f, {})
        ev.run(env)
        cfg = ", ".join(f"{k}={'None' if isinstance(v, Other) and v.is_none else 'given'}" for k, v in entry.items() if isinstance(v, (Other, Deg)) and k != "tensor") or "weights " + ("absent" if isinstance(entry.get("cp_tensor", ("", [None]))[1][0], Other) else "present")
        if isinstance(entry.get("cp_tensor"), tuple):
            cfg = ("weights absent" if isinstance(entry["cp_tensor"][1][0], Other) else "weights present") + (", " + cfg if "mask" in cfg or "skip" in cfg else "")
        degs = [(node, v, nfix) for node, v, nfix in ev.returns if isinstance(v, Deg)]
        if not degs:
            raise AnalysisError(f"{rule}: no return of {qname} could be evaluated ({cfg})")
        for node, v, nfix in degs:
            n += 1
            got, exp = v.v, expected
            if nfix == "?":
                raise AnalysisError(f"{rule}: `{src(node)[:60]}` in {qname} [{cfg}] sits under a test on the length of a list whose length the analysis lost; cannot decide")
            if nfix is not None:
                got, exp = subst_n(got, nfix), subst_n(exp, nfix)
            ok = got == exp
            res.instance(rule, f"{qname} [{cfg}]: {src(node)[:60]}", sample={"configuration": cfg, "degree": fmt(got), "expected": fmt(exp), "ok": ok})
            if isinstance(got, Top) and got.lost:
                raise AnalysisError(f"{rule}: the degree of `{src(node)[:60]}` in {qname} [{cfg}] could not be computed ({got.why}); cannot decide")
            if not ok:
                ctx.finding(rule, f, node, f"`{f.name}` [{cfg}] returns a value that is {fmt(got)} but the defining contraction is {fmt(exp)} (homogeneity degrees: weights/core/factor symbols to the power shown, N = number of factors): a factor or the weights enter the product the wrong number of times", construct=f"{src(node)[:80]} [{cfg}] degree {fmt(got)} != {fmt(exp)}")
    return n


def run_units(ctx: Ctx, rule: str, specs, legend: str, why: str, prims=None):
    """specs: (qualified name, entry environment, expected unit of every returned array, label).
    Reports (a) the innermost expressions that combine different units, (b) returns whose unit
    is not the expected one.  A unit that cannot be computed is an AnalysisError."""
    repo, res = ctx.repo, ctx.res
    for qname, entry, expected_all, label in specs:
        f = repo.func(qname)
        missing = [p for p in entry if p not in f.all_params]
        if missing:
            raise AnalysisError(f"{rule}: {qname} no longer has parameter(s) {missing}")
        env = {}
        for p in f.all_params:
            if p in entry:
                env[p] = entry[p]
            elif p in f.defaults and isinstance(f.defaults[p], ast.Constant):
                env[p] = Other(f.defaults[p].value, f.defaults[p].value is None)
            else:
                env[p] = Other()
        ev = Evaluator(ctx, f, {})
        if prims is not None:
            ev.svd_prims = set(prims)
        ev.run(env)
        cfg = f"{f.name} [{label}]" if label else f.name
        rets = []
        for node, v, _ in ev.raw_returns:
            if isinstance(v, ListV):
                v = Deg(v.elem())
            parts = v[1] if isinstance(v, tuple) and v[0] == "tuple" else [v]
            for i, pv in enumerate(parts):
                if isinstance(pv, Deg):
                    rets.append((node, i, pv.v))
        if not rets:
            raise AnalysisError(f"{rule}: no return of {qname} could be evaluated ({label})")
        seen = set()
        for node, msg in ev.problems:
            if id(node) in seen:
                continue
            seen.add(id(node))
            ctx.finding(rule, f, node, f"`{cfg}`: `{src(node)[:90]}` combines quantities of different units ({msg}; {legend}): {why}", construct=f"{f.name}: {src(node)[:80]} mixes units")
        for node, i, got in rets:
            expected = expected_all[i] if isinstance(expected_all, list) and i < len(expected_all) else (expected_all if not isinstance(expected_all, list) else None)
            if expected is None:
                continue
            ok = got == expected or got == ZERO  # an all-zero result has every unit
            res.instance(rule, f"{cfg}: {src(node)[:50]} #{i}", sample={"configuration": label, "unit": fmt(got), "expected": fmt(expected), "mixed_unit_expressions": len(seen), "ok": ok})
            if isinstance(got, Top) and got.lost:
                raise AnalysisError(f"{rule}: the unit of `{src(node)[:60]}` in {cfg} could not be computed ({got.why}); cannot decide")
            if not ok and not isinstance(got, Top):
                ctx.finding(rule, f, node, f"`{cfg}` returns a value of unit {fmt(got)}; it must have unit {fmt(expected)} ({legend}): {why}", construct=f"{cfg}: returned unit {fmt(got)} != {fmt(expected)}")
            elif isinstance(got, Top) and not seen:
                ctx.finding(rule, f, node, f"`{cfg}` returns a value without a single unit ({got.why})", construct=f"{cfg}: returned unit inhomogeneous")
