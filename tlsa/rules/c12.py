"""C12 — proximal operators return the exact minimiser (partial: joint homogeneity).

That each operator attains the minimum of its prox problem is a numerical fact and is not
decided.  One clause is visible in the code.  Every penalty offered here is positively
homogeneous (norms, indicators of cones / of balls and simplices whose radius is the
parameter) or a squared norm with a dimensionless coefficient, so the exact prox satisfies

      prox(c * v ; c * r) = c * prox(v ; r)        for every c > 0,

r being the parameter that has the unit of the data (threshold of soft-thresholding and
singular-value thresholding, radius of the l1 ball / simplex, l2 block threshold).

PROX-HOMOGENEOUS   dimensional analysis (rules/homog.py) with the tensor and the unit-carrying
                   parameter as one unit V, dimensionless coefficients (l2-square, smoothness)
                   and counts (hard / normalised sparsity) as numbers: no sum, difference or
                   element store inside an operator combines quantities of different units,
                   and the result has unit V -- or no unit at all for the operators that
                   normalise (normalised sparsity, Procrustes).
"""

from __future__ import annotations

from ..common import Ctx
from .homog import ONE, Deg, Other, run_units

V = Deg({"V": ONE})
R = Deg({"V": ONE})  # a parameter measured in the unit of the data
NUM = Deg({})  # a dimensionless coefficient
P = "tensorly.tenalg.proximal."
UV = {"V": ONE}

SPECS = [
    (P + "soft_thresholding", {"tensor": V, "threshold": R}, UV, ""),
    (P + "svd_thresholding", {"matrix": V, "threshold": R}, UV, ""),
    (P + "l2_prox", {"tensor": V, "regularizer": R}, UV, ""),
    (P + "l2_square_prox", {"tensor": V, "regularizer": NUM}, UV, ""),
    (P + "smoothness_prox", {"tensor": V, "regularizer": NUM}, UV, ""),
    (P + "simplex_prox", {"tensor": V, "parameter": R}, UV, ""),
    (P + "soft_sparsity_prox", {"tensor": V, "threshold": R}, UV, ""),
    (P + "hard_thresholding", {"tensor": V, "number_of_non_zero": Other()}, UV, ""),
    (P + "normalized_sparsity_prox", {"tensor": V, "threshold": Other()}, {}, ""),
    (P + "monotonicity_prox", {"tensor": V}, UV, "increasing"),
    (P + "monotonicity_prox", {"tensor": V, "decreasing": Other(True)}, UV, "decreasing"),
    (P + "unimodality_prox", {"tensor": V}, UV, ""),
    (P + "procrustes", {"matrix": V}, {}, ""),
]


def run(ctx: Ctx):
    res = ctx.res
    res.rule("PROX-HOMOGENEOUS", "dimensional analysis of the 12 proximal / projection operators with the tensor and the unit-carrying parameter (threshold, radius) as one unit: no sum, difference or element store combines different units and the result has the unit of the input (no unit for the normalising operators)", floor=13)
    res.assume(
        "decides joint positive homogeneity only -- a necessary condition of being the exact prox for every input and parameter (prox(c v; c r) = c prox(v; r)); feasibility, optimality, idempotence and non-expansiveness are NOT decided",
        "unit table (confirmed by reading the documented prox problems): thresholds of soft / singular-value thresholding, the l2 block threshold and the radius of the l1 ball / simplex carry the unit of the data; l2-square and smoothness coefficients are dimensionless; sparsity levels are counts",
    )
    res.rule("K-BY-RANK", "hard_thresholding (and through it normalised sparsity) keeps exactly k entries: the selecting comparison is between argsort ranks and the count, never between magnitudes and a cut-off magnitude (ties would keep more than k)", floor=1)
    ctx.guarded(k_by_rank, ctx)
    res.rule("INVOLUTION-PAIR", "an operator that transforms its work array under a flag before the computation (flip for the decreasing variant) undoes it afterwards with the same arguments", floor=1)
    ctx.guarded(involution_pair, ctx)
    res.rule("RANK-ON-DATA", "an operator that ranks entries (sort / argsort) to find its data-dependent threshold or support ranks the entries of its own input: the ranked array reaches the tensor parameter through re-arrangements (reshape, transpose, flip, copy, vectorise), negation or absolute value only. Ranking a clipped, shifted or otherwise re-valued copy finds the threshold of a different vector than the one it is applied to", floor=2)
    ctx.guarded(rank_on_data, ctx)
    ctx.guarded(
        run_units,
        ctx,
        "PROX-HOMOGENEOUS",
        SPECS,
        "V = unit of the tensor and of a threshold / radius",
        "the operator is not jointly homogeneous in (tensor, parameter), so it cannot be the exact prox of a norm-type penalty / projection for every input",
    )


# ---------------------------------------------------------------------------------
# RANK-ON-DATA: what is ranked is the input itself
# ---------------------------------------------------------------------------------
ORDER_FAITHFUL = {"reshape", "transpose", "flip", "copy", "tensor_to_vec", "vec_to_tensor", "tensor", "moveaxis", "abs", "absolute", "ravel", "sort", "argsort", "asarray", "to_numpy"}


def rank_on_data(ctx: Ctx):
    import ast

    from ..common import call_name, src
    from ..inline import with_inlined
    from ..model import AnalysisError
    from .state import _resolve_at

    repo, res = ctx.repo, ctx.res
    mod = repo.module("tensorly.tenalg.proximal")
    n = 0
    for f0 in mod.functions.values():
        if f0.cls is not None or getattr(f0, "parent", None) is not None or not f0.pos_params:
            continue
        f = with_inlined(repo, f0, kinds=("nested",))
        data = f.pos_params[0]
        for st in ast.walk(f.node):
            if not isinstance(st, ast.stmt) or isinstance(st, (ast.If, ast.For, ast.While, ast.With, ast.Try, ast.FunctionDef)):
                continue
            for c in ast.walk(st):
                if not (isinstance(c, ast.Call) and (call_name(c) or "") in ("sort", "argsort") and (c.args or isinstance(c.func, ast.Attribute))):
                    continue
                if any(isinstance(o, ast.Call) and (call_name(o) or "") in ("sort", "argsort") and o is not c for o in ast.walk(c)):
                    continue  # argsort(flip(argsort(x))): the ranking of a ranking; the innermost one is judged
                operand = c.args[0] if c.args else c.func.value
                e = _resolve_at(operand, st, f.node, depth=6)
                bad = None
                cur = e
                for _ in range(12):
                    if isinstance(cur, ast.UnaryOp) and isinstance(cur.op, ast.USub):
                        cur = cur.operand
                        continue
                    if isinstance(cur, ast.Call):
                        nm = call_name(cur) or ""
                        if nm in ORDER_FAITHFUL and (cur.args or isinstance(cur.func, ast.Attribute)):
                            cur = cur.args[0] if cur.args else cur.func.value  # f(x, ...) / x.f()
                            continue
                        bad = cur
                        break
                    break
                if bad is None and not (isinstance(cur, ast.Name) and cur.id == data):
                    if not any(isinstance(x, ast.Name) and x.id == data for x in ast.walk(e)):
                        continue  # ranks something that is not the input (a list of sizes, ...): not an instance
                    bad = cur
                n += 1
                ok = bad is None
                res.instance("RANK-ON-DATA", f"{f.qname}: {src(c)[:60]}", sample={"ranked": src(e)[:100], "ok": ok})
                if not ok:
                    ctx.finding("RANK-ON-DATA", f, c, f"{f.name} ranks `{src(e)[:90]}`: between the ranking and the input `{data}` stands `{src(bad)[:70]}`, which changes values (not a re-arrangement, negation or absolute value). The threshold / support found this way belongs to the re-valued vector, but it is applied to `{data}`: for inputs where the two differ (e.g. negative entries under a clip) the result is not the minimiser", construct=f"{f.name}: ranks {src(bad)[:50]}")
    if n == 0:
        raise AnalysisError("RANK-ON-DATA: no operator of tensorly.tenalg.proximal ranks its input any more; cannot decide")


# ---------------------------------------------------------------------------------
# K-BY-RANK: "keep the k largest" must select by rank, not by value
# ---------------------------------------------------------------------------------
K_SPARSE = [("tensorly.tenalg.proximal.hard_thresholding", "number_of_non_zero")]


def k_by_rank(ctx: Ctx):
    """A projection onto the k-sparse set keeps *exactly* k entries.  Selecting by rank
    (`argsort` positions compared with the count k) does; selecting by value (magnitudes
    compared with a cut-off magnitude) keeps every entry tied with the cut-off, i.e. more
    than k whenever magnitudes tie -- the result is then not k-sparse.  (The same principle
    as C01 SHAPE-BY-POSITION: values are not unique keys.)"""
    import ast

    from ..common import call_name, is_name, src
    from ..model import AnalysisError, own_scope_nodes

    res = ctx.res
    from ..inline import with_inlined

    for q, kparam in K_SPARSE:
        f = with_inlined(ctx.repo, ctx.repo.func(q))  # the ranking may live in a private helper
        if kparam not in f.all_params:
            raise AnalysisError(f"K-BY-RANK: {q} no longer has the count parameter `{kparam}`")
        kinds = {kparam: "COUNT"}
        for p in f.all_params:
            kinds.setdefault(p, "VALUE")

        def kind(e):
            if isinstance(e, ast.Name):
                return kinds.get(e.id)
            if isinstance(e, ast.Constant):
                return "CONST"
            if isinstance(e, ast.Call):
                nm = call_name(e)
                if nm == "argsort":
                    return "RANK"
                if nm in ("int", "min", "max", "len", "shape") and e.args:
                    ks = {kind(a) for a in e.args}
                    if "COUNT" in ks:
                        return "COUNT"
                if e.args:
                    return kind(e.args[0])
                return None
            if isinstance(e, ast.Subscript):
                return kind(e.value)
            if isinstance(e, ast.BinOp):
                ks = {kind(e.left), kind(e.right)} - {"CONST", None}
                return ks.pop() if len(ks) == 1 else None
            if isinstance(e, ast.UnaryOp):
                return kind(e.operand)
            return None

        changed = True
        while changed:
            changed = False
            for s in own_scope_nodes(f.node):
                if isinstance(s, ast.Assign) and len(s.targets) == 1 and isinstance(s.targets[0], ast.Name):
                    k = kind(s.value)
                    if k is not None and kinds.get(s.targets[0].id) != k and s.targets[0].id not in f.all_params:
                        kinds[s.targets[0].id] = k
                        changed = True
        from ..common import inline_locals

        sels = []
        for c in own_scope_nodes(f.node):
            if isinstance(c, ast.Call) and call_name(c) == "where" and c.args:
                t0 = c.args[0]
                if isinstance(t0, ast.Name):
                    t0 = inline_locals(f.node, t0, depth=1)  # is_kept = ranks < k; where(is_kept, ...)
                    for n_ in ast.walk(t0):
                        if not hasattr(n_, "lineno"):
                            n_.lineno, n_.col_offset = c.lineno, 0
                if isinstance(t0, ast.Compare) and len(t0.ops) == 1:
                    sels.append((c, t0))
            if isinstance(c, ast.Subscript) and isinstance(c.slice, ast.Compare) and len(c.slice.ops) == 1:
                sels.append((c, c.slice))
        if not sels:
            raise AnalysisError(f"K-BY-RANK: no selecting comparison found in {q}; the rule's anchor vanished")
        for c, t in sels:
            kl, kr = kind(t.left), kind(t.comparators[0])
            ok = {kl, kr} == {"RANK", "COUNT"}
            res.instance("K-BY-RANK", f"{f.name}: {src(t)[:60]}", sample={"line": t.lineno, "left": kl, "right": kr, "ok": ok})
            if not ok and "VALUE" in (kl, kr):
                ctx.finding("K-BY-RANK", f, t, f"`{src(t)[:80]}` selects the entries to keep by comparing VALUES ({kl} vs {kr}): every entry tied with the cut-off survives, so more than `{kparam}` entries are kept whenever magnitudes tie and the result is not k-sparse. Select by rank (argsort positions compared with the count)", construct=f"{f.name}: selection by value {src(t)[:60]}")


# ---------------------------------------------------------------------------------
# INVOLUTION-PAIR: what is flipped on the way in is flipped back the same way
# ---------------------------------------------------------------------------------
def involution_pair(ctx: Ctx):
    """The decreasing variants work on a flipped copy and flip the result back: two statements
    `if <flag>: w = flip(w, ...)` under the same test, before and after the computation.  The
    flip is its own inverse only when both use the same arguments; `flip(w)` (all axes) on the
    way in and `flip(w, axis=0)` on the way out leaves the columns reversed."""
    import ast

    from ..common import call_name, is_name, src
    from ..model import AnalysisError

    res = ctx.res
    mod = ctx.repo.module("tensorly.tenalg.proximal")
    n = 0
    for f in [g for g in ctx.repo.functions.values() if g.module is mod and g.cls is None]:
        flips = []
        for s in f.node.body:
            if isinstance(s, ast.If) and not s.orelse and len(s.body) == 1 and isinstance(s.body[0], ast.Assign):
                a = s.body[0]
                if isinstance(a.value, ast.Call) and call_name(a.value) in ("flip", "transpose", "moveaxis") and a.value.args and len(a.targets) == 1 and isinstance(a.targets[0], ast.Name) and is_name(a.value.args[0], a.targets[0].id):
                    flips.append((src(s.test), a.targets[0].id, call_name(a.value), a.value, s))
            # conditional-expression form:  w = flip(w, ...) if flag else w   /   return flip(w, ...) if flag else w
            v = s.value if isinstance(s, (ast.Assign, ast.Return)) else None
            if isinstance(v, ast.IfExp) and isinstance(v.body, ast.Call) and call_name(v.body) in ("flip", "transpose", "moveaxis") and v.body.args and src(v.orelse) == src(v.body.args[0]):
                # the operand may be an expression: flip(copy(x), axis=0) if flag else copy(x)
                w_ = s.targets[0].id if isinstance(s, ast.Assign) and len(s.targets) == 1 and isinstance(s.targets[0], ast.Name) else src(v.body.args[0])
                flips.append((src(v.test), w_, call_name(v.body), v.body, s))
        by_key = {}
        for t, w, fn, c, s in flips:
            by_key.setdefault((t, fn), []).append((c, s, w))
        for (t, fn), lst in by_key.items():
            w = lst[0][2]
            if len(lst) < 2:
                continue
            n += 1

            def sig(c):
                return ([src(a) for a in c.args[1:]], sorted((k.arg, src(k.value)) for k in c.keywords))

            first, last = lst[0][0], lst[-1][0]
            ok = sig(first) == sig(last)
            res.instance("INVOLUTION-PAIR", f"{f.name}: if {t}: {w} = {fn}({w}, ...) x{len(lst)}", sample={"in": src(first)[:50], "out": src(last)[:50], "ok": ok})
            if not ok:
                ctx.finding("INVOLUTION-PAIR", f, lst[-1][1], f"`{f.name}` transforms its work array with `{src(first)[:60]}` before the computation and with `{src(last)[:60]}` after it (both under `if {t}`): the second does not undo the first, so for a matrix with several columns the result comes back with its columns (or rows) permuted", construct=f"{f.name}: {src(first)[:40]} vs {src(last)[:40]}")
    if n == 0:
        raise AnalysisError("INVOLUTION-PAIR: no in/out transformation pair found in tensorly.tenalg.proximal; the rule's anchors vanished")
