"""C12 — proximal operators return the exact minimiser (partial: joint homogeneity).

That each operator attains the minimum of its prox problem is a numerical fact and is not
decided.  One clause is visible in the code.  Every penalty offered here is positively
homogeneous (norms, indicators of cones / of balls and simplices whose radius is the
parameter) or a squared norm with a dimensionless coefficient, so the exact prox satisfies

      prox(c * v ; c * r) = c * prox(v ; r)        for every c > 0,

r being the parameter that has the unit of the data (threshold of soft-thresholding and
singular-value thresholding, radius of the l1 ball / simplex, l2 block threshold).

PROX-HOMOGENEOUS   dimensional analysis (rules/homog.py) with the tensor and the unit-carrying
                   parameter as one unit V, dimensionless coefficients (l2-square, smoothness)
                   and counts (hard / normalised sparsity) as numbers: no sum, difference or
                   element store inside an operator combines quantities of different units,
                   and the result has unit V -- or no unit at all for the operators that
                   normalise (normalised sparsity, Procrustes).
"""

from __future__ import annotations

from ..common import Ctx
from .homog import ONE, Deg, Other, run_units

V = Deg({"V": ONE})
R = Deg({"V": ONE})  # a parameter measured in the unit of the data
NUM = Deg({})  # a dimensionless coefficient
P = "tensorly.tenalg.proximal."
UV = {"V": ONE}

SPECS = [
    (P + "soft_thresholding", {"tensor": V, "threshold": R}, UV, ""),
    (P + "svd_thresholding", {"matrix": V, "threshold": R}, UV, ""),
    (P + "l2_prox", {"tensor": V, "regularizer": R}, UV, ""),
    (P + "l2_square_prox", {"tensor": V, "regularizer": NUM}, UV, ""),
    (P + "smoothness_prox", {"tensor": V, "regularizer": NUM}, UV, ""),
    (P + "simplex_prox", {"tensor": V, "parameter": R}, UV, ""),
    (P + "soft_sparsity_prox", {"tensor": V, "threshold": R}, UV, ""),
    (P + "hard_thresholding", {"tensor": V, "number_of_non_zero": Other()}, UV, ""),
    (P + "normalized_sparsity_prox", {"tensor": V, "threshold": Other()}, {}, ""),
    (P + "monotonicity_prox", {"tensor": V}, UV, "increasing"),
    (P + "monotonicity_prox", {"tensor": V, "decreasing": Other(True)}, UV, "decreasing"),
    (P + "unimodality_prox", {"tensor": V}, UV, ""),
    (P + "procrustes", {"matrix": V}, {}, ""),
]


def run(ctx: Ctx):
    res = ctx.res
    res.rule("PROX-HOMOGENEOUS", "dimensional analysis of the 12 proximal / projection operators with the tensor and the unit-carrying parameter (threshold, radius) as one unit: no sum, difference or element store combines different units and the result has the unit of the input (no unit for the normalising operators)", floor=13)
    res.assume(
        "decides joint positive homogeneity only -- a necessary condition of being the exact prox for every input and parameter (prox(c v; c r) = c prox(v; r)); feasibility, optimality, idempotence and non-expansiveness are NOT decided",
        "unit table (confirmed by reading the documented prox problems): thresholds of soft / singular-value thresholding, the l2 block threshold and the radius of the l1 ball / simplex carry the unit of the data; l2-square and smoothness coefficients are dimensionless; sparsity levels are counts",
    )
    ctx.guarded(
        run_units,
        ctx,
        "PROX-HOMOGENEOUS",
        SPECS,
        "V = unit of the tensor and of a threshold / radius",
        "the operator is not jointly homogeneous in (tensor, parameter), so it cannot be the exact prox of a norm-type penalty / projection for every input",
    )
