"""Driver table (DESIGN Appendix B) shared by the path rules of C06 / C08 / C14 / C19.

One row per iterative algorithm, frozen from reading the code.  A driver whose listed
variable no longer exists makes the rule using it report ANALYSIS-ERROR.
"""

from __future__ import annotations

import ast
from typing import Dict, List, Optional

from ..cfg import all_assigned_names, build_cfg, names_in
from ..model import AnalysisError, FunctionInfo, own_scope_nodes

D = "tensorly.decomposition."

DRIVERS: Dict[str, dict] = {
    D + "_cp.parafac": dict(
        model=["weights", "factors"], candidates=["new_weights", "new_factors"], errs="rec_errors", callback="callback",
        norm=["norm_tensor", "new_norm_tensor"], preserving=["cp_normalize"], normalize=("normalize_factors", "cp_normalize"),
        fixed="fixed_modes", sweep="modes_list", data="tensor", wrapper="CPTensor",
    ),
    D + "_cp.randomised_parafac": dict(
        model=["weights", "factors"], errs="rec_errors", callback="callback", norm=["norm_tensor"], preserving=[], data="tensor", wrapper="CPTensor",
    ),
    D + "_nn_cp.non_negative_parafac": dict(
        model=["weights", "factors"], errs="rec_errors", norm=["norm_tensor"], preserving=["cp_normalize"],
        normalize=("normalize_factors", "cp_normalize"), fixed="fixed_modes", sweep="modes_list", data="tensor", wrapper="CPTensor",
    ),
    D + "_nn_cp.non_negative_parafac_hals": dict(
        model=["weights", "factors"], errs="rec_errors", norm=["norm_tensor"], preserving=["cp_normalize"],
        normalize=("normalize_factors", "cp_normalize"), fixed="fixed_modes", sweep="modes", data="tensor", wrapper="CPTensor",
    ),
    D + "_constrained_cp.constrained_parafac": dict(
        model=["weights", "factors"], errs="rec_errors", norm=["norm_tensor"], preserving=[], fixed="fixed_modes", sweep="modes_list", data="tensor", wrapper="CPTensor",
    ),
    D + "_tucker.partial_tucker": dict(
        model=["core", "factors"], errs="rec_errors", norm=["norm_tensor"], preserving=[], data="tensor", wrapper=None,
    ),
    D + "_tucker.non_negative_tucker": dict(
        model=["nn_core", "nn_factors"], errs="rec_errors", norm=["norm_tensor"], preserving=["tucker_normalize"],
        normalize=("normalize_factors", "tucker_normalize"), data="tensor", wrapper="TuckerTensor",
    ),
    D + "_tucker.non_negative_tucker_hals": dict(
        model=["nn_core", "nn_factors"], errs="rec_errors", norm=["norm_tensor"], preserving=["tucker_normalize"],
        normalize=("normalize_factors", "tucker_normalize"), fixed="fixed_modes", sweep="modes", data="tensor", wrapper="TuckerTensor",
    ),
    D + "_parafac2.parafac2": dict(
        model=["weights", "factors", "projections"], errs="rec_errors", norm=["norm_tensor"], preserving=["cp_normalize"],
        normalize=("normalize_factors", "cp_normalize"), data="tensor_slices", wrapper="Parafac2Tensor",
        bundle_calls=["line_step"],
    ),
    D + "_tr_als.tensor_ring_als": dict(
        model=["tr_decomp"], errs="rec_errors", callback="callback", norm=["tensor_norm"], preserving=[], data="tensor", wrapper=None,
    ),
    D + "_tr_als.tensor_ring_als_sampled": dict(
        model=["tr_decomp"], errs="rec_errors", callback="callback", norm=["tensor_norm"], preserving=[], data="tensor", wrapper=None,
    ),
    D + "_cmtf_als.coupled_matrix_tensor_3d_factorization": dict(
        model=["tensor_cp", "V"], errs="rec_errors", norm=[], preserving=["cp_normalize"], data="tensor_3d", wrapper=None,
        rel_unit_exception="documented squared, un-normalised form",
    ),
}


def driver(repo, qname) -> FunctionInfo:
    f = repo.func(qname)
    row = DRIVERS[qname]
    local = f.local_names()
    for v in row["model"] + [row["errs"]]:
        if v not in local:
            raise AnalysisError(f"driver table: `{v}` no longer exists in {qname}")
    return f


def base_name(t) -> Optional[str]:
    """root Name of a store / load access path (x, x[i], x.a[i] ...)"""
    while isinstance(t, (ast.Subscript, ast.Attribute, ast.Starred)):
        t = t.value
    return t.id if isinstance(t, ast.Name) else None


def flat_targets(t) -> list:
    if isinstance(t, (ast.Tuple, ast.List)):
        out = []
        for e in t.elts:
            out.extend(flat_targets(e))
        return out
    return [t]


def callee_name(call) -> Optional[str]:
    f = call.func
    if isinstance(f, ast.Name):
        return f.id
    if isinstance(f, ast.Attribute):
        return f.attr
    return None


def report_sites(f: FunctionInfo, row) -> list:
    """[(kind, node, value expr)] with kind in append / setlast / callback"""
    out = []
    errs, cb = row["errs"], row.get("callback")
    for n in own_scope_nodes(f.node):
        if isinstance(n, ast.Call):
            fn = n.func
            if isinstance(fn, ast.Attribute) and fn.attr == "append" and isinstance(fn.value, ast.Name) and fn.value.id == errs and n.args:
                out.append(("append", n, n.args[0]))
            elif cb and isinstance(fn, ast.Name) and fn.id == cb:
                out.append(("callback", n, n.args[1] if len(n.args) > 1 else None))
        elif isinstance(n, ast.Assign):
            for t in n.targets:
                for i, e in enumerate(flat_targets(t)):
                    if isinstance(e, ast.Subscript) and isinstance(e.value, ast.Name) and e.value.id == errs:
                        out.append(("setlast", n, n.value))
    return out


def fixed_aliases(f: FunctionInfo, fixed: str) -> set:
    """names that hold the fixed-mode list or a copy / default / sub-selection of it: `fixed` itself and every
    local all of whose definitions are built from such names by `[] if x is None else x`, `x or []`,
    list / tuple / sorted / set(x), or a comprehension that filters x"""
    names = {fixed}

    def ok(e, me=None):
        if isinstance(e, ast.Name):
            return e.id in names or e.id == me
        if isinstance(e, (ast.List, ast.Tuple)) and not e.elts:
            return True
        if isinstance(e, ast.IfExp):
            return ok(e.body, me) and ok(e.orelse, me)
        if isinstance(e, ast.BoolOp) and isinstance(e.op, ast.Or):
            return all(ok(v, me) for v in e.values)
        if isinstance(e, ast.Call) and isinstance(e.func, ast.Name) and e.func.id in ("list", "tuple", "sorted", "set", "frozenset") and len(e.args) <= 1 and not e.keywords:
            return not e.args or ok(e.args[0], me)
        if isinstance(e, (ast.ListComp, ast.GeneratorExp, ast.SetComp)) and len(e.generators) == 1:
            g = e.generators[0]
            return isinstance(g.target, ast.Name) and isinstance(e.elt, ast.Name) and e.elt.id == g.target.id and ok(g.iter, me)
        return False

    defs = {}
    for s in own_scope_nodes(f.node):
        if isinstance(s, ast.Assign) and len(s.targets) == 1 and isinstance(s.targets[0], ast.Name):
            defs.setdefault(s.targets[0].id, []).append(s.value)
        elif isinstance(s, (ast.AugAssign, ast.For)):
            for x in ast.walk(s.target):
                if isinstance(x, ast.Name):
                    defs.setdefault(x.id, []).append(None)
    changed = True
    while changed:
        changed = False
        for nm, vs in defs.items():
            if nm not in names and vs and all(v is not None and ok(v, nm) for v in vs) and any(any(isinstance(x, ast.Name) and x.id in names for x in ast.walk(v)) for v in vs):
                names.add(nm)
                changed = True
    return names
