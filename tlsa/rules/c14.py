"""C14 — warm starts and fixed modes (partial: the fixed-modes clause only).

FIXED-NOT-WRITTEN  sweep stores into the factor list are indexed only by a loop over the
                   fixed-mode-filtered list; nothing else in the loop rebinds the factors when
                   normalisation / orthogonalisation / line search are off
PURE-MOVE          the all-fixed shortcut and Tucker's fixed factors flow from ``init`` to the
                   result by moves only

NOT decided: "iteration starts from exactly the tensor the initialisation represents" (the
weight folding by geometric mean is a wrong *formula*; no shape-level rule separates it from
a right one).
"""

from __future__ import annotations

import ast

from ..cfg import build_cfg, names_in
from ..common import Ctx, call_name, inline_locals, is_name, src
from ..explore import Explorer
from ..model import AnalysisError, own_scope_nodes
from .drivers import DRIVERS, base_name, callee_name, driver, flat_targets

D = "tensorly.decomposition."
FACTOR_VARS = {"factors", "nn_factors"}
OFF_FLAGS = {"normalize_factors": False, "orthogonalise": False, "linesearch": False}


def _enclosing_fors(f, target):
    """for-statements (outermost first) enclosing ``target`` in f"""
    out = []

    def walk(n, stack):
        if n is target:
            out.extend(stack)
            return True
        for c in ast.iter_child_nodes(n):
            if isinstance(c, (ast.FunctionDef, ast.AsyncFunctionDef, ast.Lambda)) and c is not f.node:
                continue
            if walk(c, stack + ([n] if isinstance(n, ast.For) else [])):
                return True
        return False

    walk(f.node, [])
    return out


def _filtered_sweep_defs(f, sweep, fixed):
    """All definitions of the sweep list.  It must only ever receive mode numbers that are not in
    `fixed`: either a comprehension `[m for m in <range / list of all modes> if m not in fixed]`,
    or an empty list filled by `sweep.append(m)` inside `for m in ...:` where every append is
    reached only when `m in fixed` is false (`if m in fixed: continue`, or `if m not in fixed:`).
    Returns (ok, defs)."""
    nodes = list(own_scope_nodes(f.node))
    defs = [s for s in nodes if isinstance(s, ast.Assign) and any(is_name(t, sweep) for t in s.targets)]
    ok = bool(defs)

    from .drivers import fixed_aliases

    aliases = fixed_aliases(f, fixed)  # frozen = [] if fixed_modes is None else fixed_modes

    def not_in_fixed(c, var):
        return isinstance(c, ast.Compare) and len(c.ops) == 1 and isinstance(c.ops[0], ast.NotIn) and is_name(c.left, var) and isinstance(c.comparators[0], ast.Name) and c.comparators[0].id in aliases

    def in_fixed(c, var):
        return isinstance(c, ast.Compare) and len(c.ops) == 1 and isinstance(c.ops[0], ast.In) and is_name(c.left, var) and isinstance(c.comparators[0], ast.Name) and c.comparators[0].id in aliases

    for s in defs:
        v = s.value
        good = False
        # tuple(<generator>) / list(<generator>) / sorted(...) of the same comprehension: the same selection
        while isinstance(v, ast.Call) and isinstance(v.func, ast.Name) and v.func.id in ("tuple", "list", "sorted") and len(v.args) == 1 and not v.keywords:
            v = v.args[0]
        if isinstance(v, (ast.ListComp, ast.GeneratorExp)) and len(v.generators) == 1:
            g = v.generators[0]
            if isinstance(g.target, ast.Name) and isinstance(v.elt, ast.Name) and v.elt.id == g.target.id:
                good = any(not_in_fixed(c, g.target.id) for c in g.ifs)
        elif isinstance(v, ast.List) and not v.elts:
            # filled by appends: each must be guarded
            apps = [c for c in nodes if isinstance(c, ast.Call) and isinstance(c.func, ast.Attribute) and c.func.attr in ("append", "extend", "insert") and is_name(c.func.value, sweep)]
            good = bool(apps)
            for c in apps:
                if c.func.attr != "append" or len(c.args) != 1 or not isinstance(c.args[0], ast.Name):
                    good = False
                    continue
                var = c.args[0].id
                # the enclosing `for var in ...` loop
                loop = next((n for n in nodes if isinstance(n, ast.For) and is_name(n.target, var) and any(x is c for x in ast.walk(n))), None)
                if loop is None:
                    good = False
                    continue
                guarded = False
                # (a) an earlier `if var in fixed: continue` at the top level of the loop body
                for st in loop.body:
                    if any(x is c for x in ast.walk(st)):
                        # (b) the append sits under `if var not in fixed:`
                        if isinstance(st, ast.If) and not_in_fixed(st.test, var) and any(x is c for b in st.body for x in ast.walk(b)):
                            guarded = True
                        break
                    if isinstance(st, ast.If) and in_fixed(st.test, var) and st.body and isinstance(st.body[-1], ast.Continue) and not st.orelse:
                        guarded = True
                good = good and guarded
        ok = ok and good
    return ok, defs


class _NoRebind:
    def __init__(self, fvar):
        self.fvar = fvar

    def relevant(self, n):
        if isinstance(n, ast.Name) and isinstance(n.ctx, ast.Store) and n.id == self.fvar:
            return True
        return isinstance(n, (ast.Return, ast.Break, ast.Continue))

    def opaque(self, stmt):
        return not any(self.relevant(n) for n in ast.walk(stmt))

    def init_state(self):
        return 0

    def transfer(self, node, st, ex):
        a = node.ast
        if node.kind == "stmt" and node.note != "opaque" and node.loop is not None and isinstance(a, (ast.Assign, ast.AugAssign)):
            tg = a.targets if isinstance(a, ast.Assign) else [a.target]
            for t in tg:
                for x in flat_targets(t):
                    if is_name(x, self.fvar):
                        ex.report(("FIXED-NOT-WRITTEN", src(a)), f"with normalisation, orthogonalisation and line search off, `{self.fvar}` is re-bound inside the iteration loop: every factor, fixed modes included, is replaced", node)
        return st


def fixed_not_written(ctx: Ctx):
    repo, res = ctx.repo, ctx.res
    for qname, row in DRIVERS.items():
        if "fixed" not in row or "sweep" not in row:
            continue
        f = driver(repo, qname)
        fixed, sweep = row["fixed"], row["sweep"]
        fvar = [m for m in row["model"] if m in FACTOR_VARS]
        if not fvar:
            raise AnalysisError(f"FIXED-NOT-WRITTEN: no factor list among the model variables of {qname}")
        fvar = fvar[0]
        ok_defs, defs = _filtered_sweep_defs(f, sweep, fixed)
        res.instance("FIXED-NOT-WRITTEN", f"{qname}: sweep list `{sweep}`", sample={"definitions": [src(s) for s in defs], "filtered_by_fixed": ok_defs})
        if not defs:
            raise AnalysisError(f"FIXED-NOT-WRITTEN: sweep list `{sweep}` vanished from {qname}")
        if not ok_defs:
            ctx.finding("FIXED-NOT-WRITTEN", f, defs[0], f"the sweep list `{sweep}` is not built by filtering range(ndim) with `not in {fixed}`: fixed modes can be swept and overwritten", construct=f"{sweep} = {src(defs[0].value)}")
        # element stores
        n_st = 0
        for s in own_scope_nodes(f.node):
            if not isinstance(s, (ast.Assign, ast.AugAssign)):
                continue
            tg = s.targets if isinstance(s, ast.Assign) else [s.target]
            for t in tg:
                for x in flat_targets(t):
                    if isinstance(x, ast.Subscript) and is_name(x.value, fvar):
                        fors = _enclosing_fors(f, s)
                        if not fors:
                            continue  # before the iteration loop (initialisation): not a sweep store
                        n_st += 1
                        idx = x.slice
                        ok = False
                        why = f"index `{src(idx)}` is not the variable of a loop over `{sweep}`"
                        if isinstance(idx, ast.Name):
                            for fo in fors:
                                if is_name(fo.target, idx.id):
                                    if is_name(fo.iter, sweep):
                                        ok = True
                                    else:
                                        why = f"`{idx.id}` iterates over `{src(fo.iter)}`, not over the fixed-mode-filtered `{sweep}`"
                                # for position, mode in enumerate(modes): the element, not the position
                                elif isinstance(fo.target, (ast.Tuple, ast.List)) and len(fo.target.elts) == 2 and is_name(fo.target.elts[1], idx.id) and isinstance(fo.iter, ast.Call) and is_name(fo.iter.func, "enumerate") and fo.iter.args and is_name(fo.iter.args[0], sweep):
                                    ok = True
                        res.instance("FIXED-NOT-WRITTEN", f"{qname}: store {src(x)} @{s.lineno}", sample={"stmt": src(s)[:90], "ok": ok})
                        if not ok:
                            ctx.finding("FIXED-NOT-WRITTEN", f, s, f"sweep store into `{fvar}`: {why}: a mode declared fixed can be overwritten", construct=f"{src(x)} = ... ({why[:60]})")
        if n_st == 0:
            raise AnalysisError(f"FIXED-NOT-WRITTEN: no sweep store into `{fvar}` found in {qname}")
        # no other re-binding with the rewriting options off
        consts = {k: v for k, v in OFF_FLAGS.items() if k in f.all_params}
        rule = _NoRebind(fvar)
        g = build_cfg(f.node, f.qname)
        ex = Explorer(g, rule, consts, track="corr").run()
        if ex.truncated:
            raise AnalysisError(f"FIXED-NOT-WRITTEN: state budget exceeded in {qname}")
        res.instance("FIXED-NOT-WRITTEN", f"{qname}: no re-binding of `{fvar}` in the loop under {consts}", sample={"states": ex.states})
        for v in ex.violations.values():
            ctx.finding("FIXED-NOT-WRITTEN", f, v.node.ast, v.message, construct=v.key[1], path=v.path)


def pure_move(ctx: Ctx):
    repo, res = ctx.repo, ctx.res
    # (1) parafac's all-fixed shortcut
    f = repo.func(D + "_cp.parafac")
    body = f.node.body
    init_i = short_i = None
    short = None
    for i, s in enumerate(body):
        if isinstance(s, ast.Assign) and isinstance(s.value, ast.Call) and callee_name(s.value) == "initialize_cp":
            init_i = i
            init_targets = [base_name(x) for t in s.targets for x in flat_targets(t)]
        if isinstance(s, ast.If) and "fixed_modes" in names_in(s.test) and "range" in src(inline_locals(f.node, s.test)) and any(isinstance(x, ast.Return) for x in ast.walk(s)):
            short_i, short = i, s
    if init_i is None or short is None or short_i < init_i:
        raise AnalysisError("PURE-MOVE: parafac's all-fixed shortcut (if fixed_modes == list(range(ndim)): return ...) vanished")
    # the test must see the caller's selection: before it, `fixed_modes` may only be defaulted (None -> [])
    # or copied, not filtered (the later code strips the last mode, after which "every mode" cannot match)
    fixed_name = next((n for n in names_in(short.test) if n in f.all_params and "fixed" in n), "fixed_modes")
    for s_ in body[:short_i]:
        for n_ in ast.walk(s_):
            if isinstance(n_, ast.Assign) and any(is_name(t, fixed_name) for t in n_.targets):
                v_ = n_.value
                def _harmless(e):
                    if isinstance(e, ast.List) and not e.elts:
                        return True  # the default
                    if is_name(e, fixed_name):
                        return True
                    if isinstance(e, ast.Call) and callee_name(e) in ("list", "sorted", "tuple") and len(e.args) == 1 and _harmless(e.args[0]):
                        return True  # a copy
                    if isinstance(e, ast.IfExp):
                        return _harmless(e.body) and _harmless(e.orelse)  # [] if fixed is None else fixed
                    if isinstance(e, ast.BoolOp) and isinstance(e.op, ast.Or):
                        return all(_harmless(x) for x in e.values)  # fixed or []
                    return False

                harmless = _harmless(v_)
                res.instance("PURE-MOVE", f"parafac: `{src(n_)[:60]}` before the all-fixed test", sample={"harmless": harmless})
                if not harmless:
                    ctx.finding("PURE-MOVE", f, n_, f"`{src(n_)[:80]}` re-binds `{fixed_name}` before the all-fixed shortcut `if {src(short.test)[:50]}` reads it: with the last mode already stripped the test can never hold, so fixing every mode no longer returns the initialisation unchanged (the last factor is updated)", construct=f"parafac: {fixed_name} filtered before the all-fixed test")
            elif isinstance(n_, ast.Call) and isinstance(n_.func, ast.Attribute) and is_name(n_.func.value, fixed_name) and n_.func.attr in ("remove", "pop", "clear", "append", "extend"):
                ctx.finding("PURE-MOVE", f, n_, f"`{src(n_)[:80]}` edits `{fixed_name}` before the all-fixed shortcut reads it", construct=f"parafac: {fixed_name} edited before the all-fixed test")
    between = body[init_i + 1 : short_i]
    written = set()
    for s in between:
        for n in ast.walk(s):
            if isinstance(n, (ast.Name, ast.Subscript, ast.Attribute)) and isinstance(getattr(n, "ctx", None), ast.Store):
                b = base_name(n)
                if b in init_targets:
                    written.add(b)
    rets = [x for x in ast.walk(short) if isinstance(x, ast.Return)]
    ok = not written
    # the returned value is CPTensor((weights, factors)) of exactly the initialiser's outputs
    wrapped = None
    for s in short.body:
        if isinstance(s, ast.Assign) and isinstance(s.value, ast.Call) and callee_name(s.value) == "CPTensor":
            wrapped = s
    for r in rets:
        v = r.value
        good = False
        if isinstance(v, ast.Name) and wrapped is not None and is_name(wrapped.targets[0], v.id):
            a = wrapped.value.args[0] if wrapped.value.args else None
            good = isinstance(a, ast.Tuple) and [src(e) for e in a.elts] == init_targets
        elif isinstance(v, ast.Call) and callee_name(v) == "CPTensor" and v.args and isinstance(v.args[0], ast.Tuple):
            good = [src(e) for e in v.args[0].elts] == init_targets
        ok = ok and good
    res.instance("PURE-MOVE", "parafac: all-fixed shortcut", sample={"initialiser_outputs": init_targets, "written_before_shortcut": sorted(written), "ok": ok})
    if not ok:
        ctx.finding("PURE-MOVE", f, short, "fixing every mode does not return the initialisation unchanged: the shortcut does not wrap exactly the initialiser's outputs (or they are modified before it)", construct="all-fixed shortcut of parafac")
    # (2) tucker(fixed_factors=...)
    from ..inline import with_inlined

    t = with_inlined(repo, repo.func(D + "_tucker.tucker"))  # the partition may live in a local helper
    def closure(seed_pred):
        """names reached from the seed by moves only (assignments, for-targets, comprehension
        elements); ``seed_pred(stmt_value)`` marks seeding definitions"""
        names = set()
        changed = True
        while changed:
            changed = False
            for s in own_scope_nodes(t.node):
                tg, v = None, None
                if isinstance(s, ast.Assign):
                    tg, v = s.targets, s.value
                elif isinstance(s, ast.For):
                    tg, v = [s.target], s.iter
                if tg is None:
                    continue
                if seed_pred(v) or (_is_move_expr(v) and names_in(v) & names):
                    for x in (y for tt in tg for y in flat_targets(tt)):
                        if isinstance(x, ast.Name) and x.id not in names:
                            names.add(x.id)
                            changed = True
        return names

    moved = closure(lambda v: isinstance(v, ast.Name) and v.id == "init") | {"init"}
    sorted_names = closure(lambda v: _is_move_expr(v) and any(isinstance(c, ast.Call) and call_name(c) == "sorted" for c in ast.walk(v)))
    inserts = []
    for c in own_scope_nodes(t.node):
        if isinstance(c, ast.Call) and isinstance(c.func, ast.Attribute) and c.func.attr == "insert" and len(c.args) == 2:
            inserts.append(c)
    if not inserts:
        raise AnalysisError("PURE-MOVE: tucker no longer re-inserts the fixed factors (factors.insert(...))")
    for c in inserts:
        val = c.args[1]
        b = base_name(val)
        ok = b in moved and b != "init" and _is_move_expr(val)
        res.instance("PURE-MOVE", f"tucker: {src(c)}", sample={"inserted": src(val), "moved_from_init": ok, "moved_names": sorted(moved)})
        if not ok:
            ctx.finding("PURE-MOVE", t, c, f"the factor re-inserted at a fixed position (`{src(val)}`) is not an element of the user's `init` reached by moves only: fixed factors are not returned bit-identical", construct=src(c))
        # sequential list.insert at the original positions is only right in ascending order
        idx = c.args[0]
        ib = base_name(idx)
        sorted_ok = ib in sorted_names and _is_move_expr(idx)
        res.instance("INSERT-SORTED", f"tucker: {src(c)}", sample={"index": src(idx), "derived_from_sorted": sorted_ok, "sorted_names": sorted(sorted_names)})
        if not sorted_ok:
            ctx.finding("INSERT-SORTED", t, c, f"fixed factors are re-inserted one by one with list.insert at position `{src(idx)}`, which is not taken (by moves) from a sorted(...) sequence: for fixed modes given out of order the factors land at the wrong positions", construct=f"{src(c)} position not from sorted(...)")
        # the holder of the fixed factors is read-only
        if b:
            for n in own_scope_nodes(t.node):
                bad = False
                if isinstance(n, (ast.Subscript, ast.Attribute)) and isinstance(n.ctx, ast.Store) and base_name(n) == b:
                    bad = True
                if isinstance(n, ast.AugAssign) and base_name(n.target) == b:
                    bad = True
                if isinstance(n, ast.Call) and isinstance(n.func, ast.Attribute) and is_name(n.func.value, b) and n.func.attr in ("append", "insert", "pop", "remove", "sort", "reverse", "extend", "clear"):
                    bad = True
                if isinstance(n, ast.Call) and call_name(n) == "index_update" and n.args and base_name(n.args[0]) == b:
                    bad = True
                if bad:
                    ctx.finding("PURE-MOVE", t, n, f"`{b}` holds the user's fixed factors and is written to", construct=src(n))


def _is_move_expr(v) -> bool:
    """An expression that only moves values around (no arithmetic, no copy with change)."""
    for n in ast.walk(v):
        if isinstance(n, ast.BinOp) or isinstance(n, ast.UnaryOp):
            return False
        if isinstance(n, ast.Call):
            nm = call_name(n)
            if nm not in ("zip", "enumerate", "list", "tuple", "sorted", "reversed", "range", "len"):
                return False
    return True


def run(ctx: Ctx):
    res = ctx.res
    res.rule("FIXED-NOT-WRITTEN", "in the iteration loop every element store into the factor list is indexed by the variable of a loop over the list built as [m for m in range(ndim) if m not in fixed_modes], and with normalize_factors / orthogonalise / linesearch off nothing else re-binds the list", floor=12)
    res.rule("INSERT-SORTED", "tucker re-inserts the fixed factors with sequential list.insert at positions that come (by moves) from a sorted(...) sequence", floor=1)
    res.rule("PURE-MOVE", "parafac's all-fixed shortcut wraps exactly the initialiser's outputs; in tucker the factors re-inserted at fixed positions are elements of init reached by moves only and their holder is read-only", floor=2)
    res.assume(
        "NOT decided: that iteration starts from exactly the tensor the initialisation represents (weight folding) -- numeric, out of static reach, neither claimed nor listed as a finding",
        "with normalisation / orthogonalisation / line search ON all factors are legitimately rewritten; the rule does not speak about those configurations",
    )
    ctx.guarded(fixed_not_written, ctx)
    ctx.guarded(pure_move, ctx)
    res.rule("WEIGHTS-SEEN", "PARAFAC2 (warm start with any weights): typestate of the weights along every branch-consistent path -- a call that receives the factor list without the weights is only reached when the weights were just reset to ones after being absorbed into a factor", floor=1)
    ctx.guarded(weights_seen, ctx)
    res.rule("INIT-AS-GIVEN", "on the path an initialiser takes for a user-supplied decomposition (init is a tuple / list / tensor object) no factor is replaced by the output of a transforming routine (projection, proximal operator, SVD, random draw, clipping, absolute value outside the non-negative option) before it is returned: the iteration starts from the tensor the initialisation represents", floor=3)
    ctx.guarded(init_as_given, ctx)


# ---------------------------------------------------------------------------------
# INIT-AS-GIVEN: a warm start is not projected / re-drawn / re-factorised by the initialiser
# ---------------------------------------------------------------------------------
INITIALISERS = [
    # (function, init parameter, names of options under which an entrywise abs is part of the contract)
    ("tensorly.decomposition._cp.initialize_cp", "init", ("non_negative",)),
    ("tensorly.decomposition._constrained_cp.initialize_constrained_parafac", "init", ()),
    ("tensorly.decomposition._tucker.initialize_tucker", "init", ("non_negative",)),
    ("tensorly.decomposition._parafac2.initialize_decomposition", "init", ()),
]
TRANSFORMERS = {"proximal_operator", "svd_interface", "random_cp", "random_sample", "random_tucker", "qr", "svd", "clip", "make_svd_non_negative", "hals_nnls", "fista", "active_set_nnls", "sign", "round", "where", "maximum", "minimum", "tucker_normalize", "soft_thresholding", "simplex_prox", "normalized_sparsity_prox", "hard_thresholding"}
ABS_LIKE = {"abs", "absolute"}


class _InitGiven:
    """state: "" or the description of the first transforming store into the user's factors"""

    def __init__(self, f, repo, init_p, abs_opts):
        self.f, self.repo, self.init_p, self.abs_opts = f, repo, init_p, abs_opts
        # family: names that hold (parts of) the user's decomposition
        fam = {init_p}
        changed = True
        while changed:
            changed = False
            for s in own_scope_nodes(f.node):
                if isinstance(s, ast.Assign):
                    reads = {n.id for n in ast.walk(s.value) if isinstance(n, ast.Name)}
                    if reads & fam:
                        for t in s.targets:
                            for x in ast.walk(t):
                                if isinstance(x, ast.Name) and isinstance(x.ctx, ast.Store) and x.id not in fam:
                                    fam.add(x.id)
                                    changed = True
        self.fam = fam

    def init_state(self):
        return ""

    def _transforming(self, value, depth=0):
        """name of a transforming routine applied to a family value inside `value`, or None"""
        fam = set(self.fam)
        for g_ in ast.walk(value):
            if isinstance(g_, ast.comprehension) and any(isinstance(n, ast.Name) and n.id in fam for n in ast.walk(g_.iter)):
                fam |= {n.id for n in ast.walk(g_.target) if isinstance(n, ast.Name)}  # [h(f) for f in factors]
        for c in ast.walk(value):
            if not isinstance(c, ast.Call):
                continue
            nm = call_name(c) or ""
            touches = any(isinstance(n, ast.Name) and n.id in fam for a in list(c.args) + [k.value for k in c.keywords] for n in ast.walk(a))
            if not touches:
                continue
            if nm in TRANSFORMERS:
                return nm
            if nm in ABS_LIKE:
                return "abs"
            if depth < 2:
                ct = self.repo.resolve_call(self.f, self.f.module, c)
                if ct.kind == "repo" and len(ct.funcs) == 1 and ct.funcs[0].module.name.startswith("tensorly.decomposition"):
                    g = ct.funcs[0]
                    for r in own_scope_nodes(g.node):
                        if isinstance(r, ast.Assign) or isinstance(r, ast.Return):
                            v = r.value
                            if v is not None:
                                for cc in ast.walk(v):
                                    if isinstance(cc, ast.Call) and (call_name(cc) or "") in TRANSFORMERS:
                                        return f"{g.name} -> {call_name(cc)}"
        return None

    def transfer(self, node, st, ex):
        a = node.ast
        if a is None:
            return st
        if node.kind == "stmt" and isinstance(a, (ast.Assign, ast.AugAssign)):
            tgts = a.targets if isinstance(a, ast.Assign) else [a.target]
            hits_family = False
            for t in tgts:
                b = t
                for x in ast.walk(t):
                    if isinstance(x, ast.Name) and x.id in self.fam:
                        hits_family = True
            if hits_family and st == "":
                tr = self._transforming(a.value)
                if tr == "abs" and self.abs_opts:
                    # the path is explored with the non-negative option off; an abs that is still reached
                    # there is unconditional
                    pass
                if tr is not None:
                    return f"`{src(a)[:90]}` ({tr})"
        if node.kind == "return" and st != "" and a.value is not None and any(isinstance(n, ast.Name) and n.id in self.fam for n in ast.walk(a.value)):
            ex.report(("INIT-AS-GIVEN", self.f.name), f"{self.f.name}: a user-supplied initialisation reaches {st} before it is returned: the iteration no longer starts from the tensor the initialisation represents (with a zero iteration budget the result is not the initialisation; fixed modes come back modified)", node)
        return st


def init_as_given(ctx: Ctx):
    from ..explore import mk_kind

    repo, res = ctx.repo, ctx.res
    for qname, init_p, abs_opts in INITIALISERS:
        f = repo.func(qname)
        if init_p not in f.all_params:
            raise AnalysisError(f"INIT-AS-GIVEN: {qname} no longer has the parameter `{init_p}`")
        g = build_cfg(f.node, f.qname)
        rule = _InitGiven(f, repo, init_p, abs_opts)
        consts = {init_p: mk_kind("tuple", 2)}
        for o in abs_opts:
            if o in f.all_params:
                consts[o] = False
        ex = Explorer(g, rule, consts).run()
        res.instance("INIT-AS-GIVEN", f"{f.qname} [init = user decomposition]", sample={"paths_to_exit": ex.paths_to_exit, "states": ex.states, "family": sorted(rule.fam)[:8]})
        if ex.paths_to_exit == 0:
            raise AnalysisError(f"INIT-AS-GIVEN: no returning path of {qname} for a user-supplied initialisation; cannot decide")
        for v in ex.violations.values():
            ctx.finding("INIT-AS-GIVEN", f, v.node.ast, v.message, construct=f"{f.name}: user init transformed", path=v.path)


# ---------------------------------------------------------------------------------
# WEIGHTS-SEEN: a warm start's weights are part of the model every consumer sees
# ---------------------------------------------------------------------------------
WEIGHTED_DRIVERS = [
    # (driver, weights name, factor-list name)
    ("tensorly.decomposition._parafac2.parafac2", "weights", "factors"),
]
NOT_CONSUMERS = {"list", "tuple", "len", "enumerate", "zip", "range", "copy", "print", "isinstance", "shape", "ndim", "reversed", "sorted", "context"}


class _WeightsRule:
    """typestate of the weights: LIVE (may differ from ones: user initialisation, normalisation)
    or ONES (just reset to ones after being absorbed into a factor)"""

    def __init__(self, f, w, fs):
        self.f, self.w, self.fs = f, w, fs

    def init_state(self):
        return "UNSET"

    def transfer(self, node, st, ex):
        a = node.ast
        if a is None or node.kind not in ("stmt", "test", "return", "for", "with"):
            return st
        # consumers are judged in the state before this statement's own assignments
        scan = a.iter if node.kind == "for" and isinstance(a, ast.For) else (a.test if node.kind == "test" and hasattr(a, "test") else a)
        if st == "LIVE":
            for c in ast.walk(scan):
                if isinstance(c, ast.Call) and call_name(c) not in NOT_CONSUMERS:
                    argnodes = list(c.args) + [k.value for k in c.keywords]
                    direct = [x for x in argnodes if any(isinstance(n, ast.Name) and n.id == self.fs for n in ast.walk(x))]
                    # a call nested in an argument is judged on its own
                    direct = [x for x in direct if not isinstance(x, ast.Call) or call_name(x) in NOT_CONSUMERS]
                    if not direct:
                        continue
                    has_w = any(isinstance(n, ast.Name) and n.id == self.w for x in argnodes for n in ast.walk(x))
                    if not has_w:
                        ex.report(("WEIGHTS-SEEN", src(c)[:70]), f"`{src(c)[:90]}` receives the factor list `{self.fs}` without `{self.w}` on a path where the weights have not been absorbed into a factor (they may differ from ones: a user-supplied initialisation, or the previous iteration's normalisation): the callee works on a different tensor than the model represents", node)
        if node.kind == "stmt" and isinstance(a, (ast.Assign, ast.AugAssign)):
            tgs = a.targets if isinstance(a, ast.Assign) else [a.target]
            names = [n.id for t in tgs for n in ast.walk(t) if isinstance(n, ast.Name) and isinstance(n.ctx, ast.Store)]
            if self.w in names:
                v = a.value
                if isinstance(a, ast.Assign) and len(tgs) == 1 and isinstance(tgs[0], ast.Name) and isinstance(v, ast.Call) and call_name(v) in ("ones", "ones_like"):
                    return "ONES"
                return "LIVE"
        return st


def weights_seen(ctx: Ctx):
    from ..inline import with_inlined

    res = ctx.res
    for q, w, fs in WEIGHTED_DRIVERS:
        f = with_inlined(ctx.repo, ctx.repo.func(q), kinds=("nested",))  # the absorption may be a local helper
        stores = [s for s in own_scope_nodes(f.node) if isinstance(s, ast.Assign) and any(isinstance(n, ast.Name) and n.id == w and isinstance(n.ctx, ast.Store) for t in s.targets for n in ast.walk(t))]
        if not stores:
            raise AnalysisError(f"WEIGHTS-SEEN: `{w}` is never assigned in {q}; the driver table is stale")
        g = build_cfg(f.node, f.qname)
        ex = Explorer(g, _WeightsRule(f, w, fs), track="corr").run()
        consumers = [c for c in own_scope_nodes(f.node) if isinstance(c, ast.Call) and call_name(c) not in NOT_CONSUMERS and any(isinstance(n, ast.Name) and n.id == fs for x in list(c.args) + [k.value for k in c.keywords] for n in ast.walk(x))]
        res.instance("WEIGHTS-SEEN", f"{q}: {len(consumers)} consumers of `{fs}`", sample={"consumers": [src(c)[:60] for c in consumers][:12], "states": ex.states, "paths": ex.paths_to_exit, "truncated": ex.truncated})
        if ex.truncated:
            raise AnalysisError(f"WEIGHTS-SEEN: state budget exceeded in {q}; cannot decide")
        for v in ex.violations.values():
            ctx.finding("WEIGHTS-SEEN", f, v.node.ast if v.node is not None else f.node, v.message, construct=f"{f.name}: {v.key[1]} without weights", path=v.path)
